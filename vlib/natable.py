"""Reasons for the properties that solver-based checking of the real code cannot decide here."""
NA = {
    "C09": "XCDR round trip executes DynamicData (BTreeMap<MemberId, DataStorage> + recursive drop glue): Kani probes on 1-3 member structs (serialize-only, deserialize-only, unwind 3..20) gave no answer in 400-900 s of symbolic execution; a MIR->SMT encoding of the dynamic-type interpreter over a heap map is out of reach.",
    "C10": "same code path as C09, and the independent XTypes implementation the property names as oracle is not in the image; a reference encoder could only be compared if the real encoder ran under the solver, which it does not.",
    "C11": "instance handles come from KeyHolderData::from_dynamic_data + serialize_final_without_header on DynamicData (not encodable, see C09) and MD5 for long keys (hash loop).",
    "C12": "same functions as C11; the only solver-sized fragment (len <= 16 ? pad : md5) is inline after the serializer call and unreachable without it.",
    "C26": "filter evaluation is inline after deserialize_topic_type -> XTypes deserializer -> DynamicData (not encodable, see C09); the batching behaviour the property targets is only reachable through that call.",
    "C39": "assignability must agree with whether decoding succeeds, which requires running the XTypes deserializer on evolved types (DynamicData, see C09).",
    "C40": "quantifies over programs (type declarations) expanded by a proc-macro at compile time, and its round trip runs create_dynamic_sample/create_sample through DynamicData (see C09).",
    "C41": "quantifies over IDL programs: a pest-generated parser, a text generator and a second compilation - string processing with input-dependent loops and whole-program runs, not symbolically executable with Kani/CBMC or a hand translator.",
    "C42": "std runtime timers/executor are OS threads, std::sync::mpsc, Instant::now() (FFI clock) and thread::park; Kani models neither concurrency nor these foreign calls, and the property is about real thread timing.",
}
