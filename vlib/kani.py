"""Run Kani harnesses of the in-crate harness set against /repo's working tree."""
import json
import os
import re
import resource
import shutil
import subprocess
import time

from .common import (BUILD, CRATE, HARNESS_DIR, N_TARGET_DIRS, DirLock, base_env, log)


class HarnessResult:
    def __init__(self, harness):
        self.h = harness
        self.status = "missing"  # success | failure | timeout | error | missing
        self.failed = []  # [{description, function, location, category}]
        self.unwinding_failed = []
        self.unsupported = []
        self.covers = []  # [{description, status}]
        self.n_checks = 0
        self.n_passed = 0
        self.duration_s = 0.0
        self.solver_s = 0.0
        self.symex_s = 0.0
        self.functions = {}  # fn -> file:line (in dds/src)
        self.raw_error = None

    @property
    def covers_ok(self):
        return all(c["status"].lower() == "satisfied" for c in self.covers)


def _limit(mem_gb):
    def f():
        b = int(mem_gb * (1 << 30))
        resource.setrlimit(resource.RLIMIT_AS, (b, b))
        os.setsid()
    return f


def build_cmd(target, harnesses, jobs, timeout_each, json_out, stubbing):
    cmd = ["cargo", "kani", "--target-dir", target, "--exact"]
    for h in harnesses:
        cmd += ["--harness", h.full]
    cmd += ["-j", str(jobs), "--output-format", "terse", "-Z", "unstable-options",
            "--harness-timeout", "%ds" % timeout_each, "--export-json", json_out]
    if stubbing:
        cmd += ["-Z", "stubbing"]
    return cmd


def run_kani(harnesses, jobs=8, timeout_each=600, mem_gb=24, harness_dir=HARNESS_DIR, tag="run"):
    """Returns (dict full_name -> HarnessResult, info dict)."""
    results = {h.full: HarnessResult(h) for h in harnesses}
    info = {"cmd": None, "wall_s": 0.0, "log": None, "build_error": None}
    if not harnesses:
        return results, info
    os.makedirs(os.path.join(BUILD, "logs"), exist_ok=True)
    t0 = time.time()
    with DirLock("kt", N_TARGET_DIRS) as target:
        json_out = os.path.join(target, "result_%d.json" % os.getpid())
        if os.path.exists(json_out):
            os.remove(json_out)
        stubbing = any(h.stubbing for h in harnesses)
        cmd = build_cmd(target, harnesses, min(jobs, len(harnesses)), timeout_each, json_out, stubbing)
        env = base_env()
        env["DUST_DDS_VERIF_HARNESS_DIR"] = harness_dir
        logp = os.path.join(BUILD, "logs", "%s_%d.log" % (tag, os.getpid()))
        info["cmd"] = " ".join(cmd)
        info["log"] = logp
        # generous global cap: build + all harnesses sequentially in the worst case / jobs
        per_slot = (len(harnesses) + jobs - 1) // jobs
        cap = 300 + per_slot * (timeout_each + 30)
        with open(logp, "w") as lf:
            p = subprocess.Popen(cmd, cwd=CRATE, env=env, stdout=lf, stderr=subprocess.STDOUT,
                                 preexec_fn=_limit(mem_gb))
            try:
                p.wait(timeout=cap)
            except subprocess.TimeoutExpired:
                try:
                    os.killpg(p.pid, 9)
                except OSError:
                    pass
                p.wait()
                info["build_error"] = "global timeout after %ds" % cap
        info["wall_s"] = time.time() - t0
        data = None
        if os.path.exists(json_out):
            try:
                with open(json_out) as f:
                    data = json.load(f)
            except Exception as e:  # noqa
                info["build_error"] = "unreadable kani json: %s" % e
            os.remove(json_out)
        if data is None:
            if not info["build_error"]:
                tail = _tail(logp, 60)
                info["build_error"] = "kani produced no result file; log tail:\n" + tail
            return results, info
    _parse(data, results, logp)
    return results, info


def _tail(path, n):
    try:
        with open(path, errors="replace") as f:
            lines = [l for l in f.read().splitlines() if l.strip()]
        keep = [l for l in lines if not l.lstrip().startswith(("warning", "|", "=", "-->"))]
        return "\n".join(keep[-n:])
    except OSError:
        return ""


def _parse(data, results, logp):
    stats = {c["harness_id"]: c.get("cbmc_stats", {}) for c in data.get("cbmc", [])}
    errs = {e["harness_id"]: e for e in data.get("error_details", [])}
    for r in data.get("verification_results", {}).get("results", []):
        hid = r["harness_id"]
        if hid not in results:
            continue
        hr = results[hid]
        hr.duration_s = r.get("duration_ms", 0) / 1000.0
        st = stats.get(hid, {})
        hr.solver_s = float(st.get("runtime_solver_s", 0.0) or 0.0) + float(st.get("runtime_decision_procedure_s", 0.0) or 0.0)
        hr.symex_s = float(st.get("runtime_symex_s", 0.0) or 0.0)
        status = str(r.get("status", "")).lower()
        checks = r.get("checks", []) or []
        for c in checks:
            cat = c.get("category", "")
            cst = str(c.get("status", "")).lower()
            desc = c.get("description", "")
            loc = c.get("location") or {}
            file = loc.get("file", "") or ""
            fn = c.get("function", "") or ""
            if cat == "cover" or cst in ("satisfied", "unsatisfiable", "unreachable") and cat == "cover":
                hr.covers.append({"description": desc, "status": cst})
                continue
            hr.n_checks += 1
            if file.startswith("dds/src") and fn and fn not in hr.functions:
                hr.functions[fn] = "%s:%s" % (file, loc.get("line", "?"))
            if cst == "success":
                hr.n_passed += 1
            elif cst == "failure":
                item = {"description": desc, "function": fn, "category": cat,
                        "location": "%s:%s" % (file, loc.get("line", "?"))}
                if cat == "unwind" or "unwinding assertion" in desc:
                    hr.unwinding_failed.append(item)
                elif cat == "unsupported_construct" or "is not currently supported by Kani" in desc:
                    hr.unsupported.append(item)
                else:
                    hr.failed.append(item)
        e = errs.get(hid, {})
        if status == "success":
            hr.status = "success"
        elif "timeout" in status or "timeout" in str(e.get("error_type", "")).lower() or "timeout" in str(e.get("exit_status", "")).lower():
            hr.status = "timeout"
        elif hr.failed or hr.unwinding_failed or hr.unsupported:
            hr.status = "failure"
        else:
            hr.status = "error"
            hr.raw_error = json.dumps(e)[:500]
    # harnesses that never produced a result entry
    for hid, hr in results.items():
        if hr.status == "missing":
            e = errs.get(hid)
            if e:
                et = (str(e.get("error_type", "")) + str(e.get("exit_status", ""))).lower()
                hr.status = "timeout" if "timeout" in et or "timed" in et else "error"
                hr.raw_error = json.dumps(e)[:500]


def playback_print(harness, timeout_each=900, mem_gb=24, harness_dir=HARNESS_DIR):
    """Re-run one failing harness with concrete playback; returns generated test source or None."""
    os.makedirs(os.path.join(BUILD, "logs"), exist_ok=True)
    with DirLock("kt", N_TARGET_DIRS) as target:
        cmd = ["cargo", "kani", "--target-dir", target, "--exact", "--harness", harness.full,
               "-Z", "concrete-playback", "--concrete-playback=print",
               "-Z", "unstable-options", "--harness-timeout", "%ds" % timeout_each]
        if harness.stubbing:
            cmd += ["-Z", "stubbing"]
        env = base_env()
        env["DUST_DDS_VERIF_HARNESS_DIR"] = harness_dir
        logp = os.path.join(BUILD, "logs", "playback_%s_%d.log" % (harness.name, os.getpid()))
        with open(logp, "w") as lf:
            p = subprocess.Popen(cmd, cwd=CRATE, env=env, stdout=lf, stderr=subprocess.STDOUT,
                                 preexec_fn=_limit(mem_gb))
            try:
                p.wait(timeout=timeout_each + 300)
            except subprocess.TimeoutExpired:
                try:
                    os.killpg(p.pid, 9)
                except OSError:
                    pass
                p.wait()
                return None, logp
    txt = open(logp, errors="replace").read()
    tests = re.findall(r"```\n(.*?)```", txt, flags=re.S)
    tests = [t for t in tests if "kani::concrete_playback_run" in t]
    return (tests if tests else None), logp


def native_replay(harness, test_src, timeout=1800):
    """Append the generated unit test to a scratch copy of the harness file and run it natively
    (cargo kani playback, dev profile = the profile Kani models). Returns (reproduced, log)."""
    os.makedirs(os.path.join(BUILD, "logs"), exist_ok=True)
    with DirLock("pt", 1) as target:
        scratch = os.path.join(target, "harness_%d" % os.getpid())
        if os.path.exists(scratch):
            shutil.rmtree(scratch)
        shutil.copytree(os.path.dirname(harness.file), scratch)
        with open(os.path.join(scratch, os.path.basename(harness.file)), "a") as f:
            f.write("\n" + test_src + "\n")
        m = re.search(r"fn (kani_concrete_playback_[A-Za-z0-9_]+)", test_src)
        tname = m.group(1) if m else "kani_concrete_playback"
        env = base_env()
        env["DUST_DDS_VERIF_HARNESS_DIR"] = scratch
        env["CARGO_TARGET_DIR"] = os.path.join(target, "t")
        env["RUST_BACKTRACE"] = "0"
        cmd = ["cargo", "kani", "playback", "-Z", "concrete-playback", "--lib", "--", tname]
        logp = os.path.join(BUILD, "logs", "replay_%s_%d.log" % (harness.name, os.getpid()))
        with open(logp, "w") as lf:
            p = subprocess.Popen(cmd, cwd=CRATE, env=env, stdout=lf, stderr=subprocess.STDOUT,
                                 preexec_fn=os.setsid)
            try:
                p.wait(timeout=timeout)
            except subprocess.TimeoutExpired:
                try:
                    os.killpg(p.pid, 9)
                except OSError:
                    pass
                p.wait()
        shutil.rmtree(scratch, ignore_errors=True)
    txt = open(logp, errors="replace").read()
    ran = re.search(r"test result: (ok|FAILED)\. (\d+) passed; (\d+) failed", txt)
    if not ran:
        return None, logp  # could not build / run
    failed = int(ran.group(3))
    passed = int(ran.group(2))
    if failed >= 1:
        return True, logp
    if passed >= 1:
        return False, logp
    return None, logp
