"""E3: MIR -> SMT obligations per property.

Every goal is built twice from the MIR of /repo's current tree: as fixed-width bit-vectors
(decided by cvc5 --solve-bv-as-int=sum, plus z3 bit-blasting when it answers within its cap) and
as mathematical integers with explicit wrap-around (decided by z3 and cvc5).  A goal *holds* only
if the negated goal is unsat in both encodings with no solver error and no disagreement.  A sat
answer is turned into concrete inputs, which are run through the natively compiled real code
(/verif/native) before a violation is reported.  The translator is validated on every run: the
repo's own unit-test inputs and the solver's own twin models are evaluated by both the encoding and
the native code and must agree.
"""
import os
import re
import sys
import time

sys.path.insert(0, os.path.dirname(os.path.dirname(os.path.abspath(__file__))))

from mirsmt import mir, solve  # noqa: E402
from mirsmt.mir import BVOps, IntOps, Int, Tup, Bool, conj, disj, Unsupported  # noqa: E402
from vlib import common  # noqa: E402


class Fns:
    """Locate functions in the MIR dump by name pattern and signature (impl blocks carry line numbers)."""

    def __init__(self, fns):
        self.fns = fns

    def find(self, name_re, params=None, ret=None):
        c = []
        for n, f in self.fns.items():
            if not re.search(name_re, n):
                continue
            if params is not None and [t for _, t in f.params] != params:
                continue
            if ret is not None and f.ret != ret:
                continue
            c.append(n)
        if len(c) != 1:
            raise Unsupported("function lookup %s %s -> %s: %d candidates %s" % (name_re, params, ret, len(c), c[:4]))
        return c[0]


def chain(ex, calls, args):
    """Compose calls: each takes the previous return value as its single argument."""
    outs = ex.call(calls[0], args)
    for fn in calls[1:]:
        nxt = []
        for o in outs:
            if o.kind == "panic":
                nxt.append(o)
            else:
                nxt += ex.call(fn, [o.value], o.pc)
        outs = nxt
    return outs


def merged_int(ex, outs, pick):
    """ite-merge an integer component of the return value over all returning paths."""
    rets = [o for o in outs if o.kind == "ret"]
    if not rets:
        raise Unsupported("no returning path")
    v0 = pick(rets[-1].value)
    term = v0.term
    for o in reversed(rets[:-1]):
        term = ex.ops.ite(conj(o.pc), pick(o.value).term, term)
    return ex.mk_int(term, v0.w, v0.signed)


def ret_cond(outs):
    return disj([conj(o.pc) for o in outs if o.kind == "ret"])


def panic_cond(outs):
    return disj([conj(o.pc) for o in outs if o.kind == "panic"])


def s2u(v, w):
    return v % (1 << w)


def u2s(v, w):
    v %= (1 << w)
    return v - (1 << w) if v >= (1 << (w - 1)) else v


NS = 1_000_000_000

# ------------------------------------------------------------------------------------------------
# goals.  Each builder gets (ex, F) and returns a dict:
#   pre: [terms]; violation: term; inputs: {name: Int}; outputs: {name: Int};
#   native(model_inputs) -> (query line, [output names in order]) ; tests: [ {input name: value} ]


def lt_const(ex, v, c):
    return ex.ops.ult(v.term, ex.ops.const(c, v.w), v.w)


def g_duration_wire_roundtrip(ex, F):
    to_rtps = F.find(r"infrastructure::time::<impl at .*>::from$", ["infrastructure::time::Duration"], "behavior_types::Duration")
    from_rtps = F.find(r"infrastructure::time::<impl at .*>::from$", ["behavior_types::Duration"], "infrastructure::time::Duration")
    sec = ex.fresh_int("sec", 32, True)
    ns = ex.fresh_int("ns", 32, False)
    outs = chain(ex, [to_rtps, from_rtps], [Tup([sec, ns])])
    osec = merged_int(ex, outs, lambda v: v.items[0])
    ons = merged_int(ex, outs, lambda v: v.items[1])
    same = "(and %s %s)" % (ex.ops.eq(osec.term, sec.term), ex.ops.eq(ons.term, ns.term))
    return dict(
        goal="for every sec:i32 and nanosec<10^9: Duration -> rtps Duration (seconds, 2^-32 fraction) -> Duration is the identity and no MIR assert (overflow, div by zero) can fail",
        domain="sec: full i32, nanosec: [0, 10^9)",
        pre=[lt_const(ex, ns, NS)],
        violation="(or %s (and %s (not %s)))" % (panic_cond(outs), ret_cond(outs), same),
        ret=ret_cond(outs),
        inputs={"sec": sec, "ns": ns}, outputs={"osec": osec, "ons": ons},
        native=lambda m: ["dur_to_rtps %d %d" % (u2s(m["sec"], 32), m["ns"])],
        native_check=_native_dur_rt,
        tests=[{"sec": 13, "ns": 200}, {"sec": 13, "ns": 500_000_000}, {"sec": s2u(-1, 32), "ns": 1},
               {"sec": 0, "ns": 999_999_999}],
    )


def _native_dur_rt(m):
    """(expected outputs from the real code) for model inputs m"""
    r = solve.native_eval(["dur_to_rtps %d %d" % (u2s(m["sec"], 32), m["ns"])])
    a = list(r.values())[0]
    if a == "panic":
        return "panic"
    s, f = a.split()
    r2 = solve.native_eval(["rtps_to_dur %s %s" % (s, f)])
    b = list(r2.values())[0]
    if b == "panic":
        return "panic"
    s2, n2 = b.split()
    return {"osec": s2u(int(s2), 32), "ons": int(n2)}


def g_time_wire_roundtrip(ex, F):
    dds_to_tr = F.find(r"infrastructure::time::<impl at .*>::from$", ["infrastructure::time::Time"], "transport::types::Time")
    tr_to_msg = F.find(r"rtps_messages::types::<impl at .*>::from$", ["transport::types::Time"], "rtps_messages::types::Time")
    msg_to_tr = F.find(r"rtps_messages::types::<impl at .*>::from$", ["rtps_messages::types::Time"], "transport::types::Time")
    tr_to_dds = F.find(r"infrastructure::time::<impl at .*>::from$", ["transport::types::Time"], "infrastructure::time::Time")
    sec = ex.fresh_int("sec", 32, True)
    ns = ex.fresh_int("ns", 32, False)
    outs = chain(ex, [dds_to_tr, tr_to_msg, msg_to_tr, tr_to_dds], [Tup([sec, ns])])
    osec = merged_int(ex, outs, lambda v: v.items[0])
    ons = merged_int(ex, outs, lambda v: v.items[1])
    same = "(and %s %s)" % (ex.ops.eq(osec.term, sec.term), ex.ops.eq(ons.term, ns.term))
    return dict(
        goal="for every source timestamp (sec:i32, nanosec<10^9): dds Time -> transport Time -> RTPS INFO_TS Time -> transport Time -> dds Time is the identity, no MIR assert can fail",
        domain="sec: full i32, nanosec: [0, 10^9)",
        pre=[lt_const(ex, ns, NS)],
        violation="(or %s (and %s (not %s)))" % (panic_cond(outs), ret_cond(outs), same),
        ret=ret_cond(outs),
        inputs={"sec": sec, "ns": ns}, outputs={"osec": osec, "ons": ons},
        native_check=_native_time_rt,
        tests=[{"sec": 10, "ns": 500_000_000}, {"sec": 1, "ns": 1}, {"sec": s2u(-5, 32), "ns": 999_999_999}],
    )


def _native_time_rt(m):
    r = solve.native_eval(["ttime_to_rtps %d %d" % (u2s(m["sec"], 32), m["ns"])])
    a = list(r.values())[0]
    if a == "panic":
        return "panic"
    s, f = a.split()
    b = list(solve.native_eval(["rtps_to_ttime %s %s" % (s, f)]).values())[0]
    if b == "panic":
        return "panic"
    s2, n2 = b.split()
    return {"osec": s2u(int(s2), 32), "ons": int(n2)}


def g_wire_to_local_total(ex, F):
    msg_to_tr = F.find(r"rtps_messages::types::<impl at .*>::from$", ["rtps_messages::types::Time"], "transport::types::Time")
    sec = ex.fresh_int("sec", 32, False)
    fr = ex.fresh_int("frac", 32, False)
    outs = ex.call(msg_to_tr, [Tup([sec, fr])])
    osec = merged_int(ex, outs, lambda v: v.items[0])
    ons = merged_int(ex, outs, lambda v: v.items[1])
    norm = lt_const(ex, ons, NS)
    return dict(
        goal="for every (seconds:u32, fraction:u32) received in an INFO_TS: conversion to a local time cannot fail a MIR assert and yields nanosec < 10^9",
        domain="full u32 x u32",
        pre=[],
        violation="(or %s (and %s (not %s)))" % (panic_cond(outs), ret_cond(outs), norm),
        ret=ret_cond(outs),
        inputs={"sec": sec, "frac": fr}, outputs={"osec": osec, "ons": ons},
        native_check=lambda m: _native_pair("rtps_to_ttime %d %d" % (m["sec"], m["frac"])),
        tests=[{"sec": 13, "frac": 1 << 31}, {"sec": 0xffffffff, "frac": 0xffffffff}],
    )


def _native_pair(q):
    a = list(solve.native_eval([q]).values())[0]
    if a == "panic":
        return "panic"
    s, n = a.split()
    return {"osec": s2u(int(s), 32), "ons": int(n)}


def g_rtps_duration_to_local_total(ex, F):
    from_rtps = F.find(r"infrastructure::time::<impl at .*>::from$", ["behavior_types::Duration"], "infrastructure::time::Duration")
    sec = ex.fresh_int("sec", 32, True)
    fr = ex.fresh_int("frac", 32, False)
    outs = ex.call(from_rtps, [Tup([sec, fr])])
    osec = merged_int(ex, outs, lambda v: v.items[0])
    ons = merged_int(ex, outs, lambda v: v.items[1])
    return dict(
        goal="for every (seconds:i32, fraction:u32) received as an RTPS duration: conversion cannot fail a MIR assert and yields nanosec < 10^9 with seconds unchanged",
        domain="full i32 x u32",
        pre=[],
        violation="(or %s (and %s (not (and %s %s))))" % (panic_cond(outs), ret_cond(outs), lt_const(ex, ons, NS), ex.ops.eq(osec.term, sec.term)),
        ret=ret_cond(outs),
        inputs={"sec": sec, "frac": fr}, outputs={"osec": osec, "ons": ons},
        native_check=lambda m: _native_pair("rtps_to_dur %d %d" % (u2s(m["sec"], 32), m["frac"])),
        tests=[{"sec": 13, "frac": 1 << 31}, {"sec": 0x7fffffff, "frac": 0xffffffff}],
    )


def _arith_goal(name_re, params, ret, native_name, signed_first, goal_text):
    def build(ex, F):
        fn = F.find(name_re, params, ret)
        s1 = ex.fresh_int("s1", 32, True)
        n1 = ex.fresh_int("n1", 32, False)
        s2 = ex.fresh_int("s2", 32, True)
        n2 = ex.fresh_int("n2", 32, False)
        outs = ex.call(fn, [Tup([s1, n1]), Tup([s2, n2])])
        osec = merged_int(ex, outs, lambda v: v.items[0])
        ons = merged_int(ex, outs, lambda v: v.items[1])
        return dict(
            goal=goal_text, domain="sec: full i32, nanosec: [0, 10^9) for both operands",
            pre=[lt_const(ex, n1, NS), lt_const(ex, n2, NS)],
            violation="(or %s (and %s (not %s)))" % (panic_cond(outs), ret_cond(outs), lt_const(ex, ons, NS)),
            ret=ret_cond(outs),
            inputs={"s1": s1, "n1": n1, "s2": s2, "n2": n2}, outputs={"osec": osec, "ons": ons},
            native_check=lambda m: _native_pair("%s %d %d %d %d" % (native_name, u2s(m["s1"], 32), m["n1"], u2s(m["s2"], 32), m["n2"])),
            tests=[{"s1": 10, "n1": 500_000_000, "s2": 5, "n2": 600_000_000},
                   {"s1": s2u(-3, 32), "n1": 1, "s2": 0x7fffffff, "n2": 999_999_999}],
        )
    return build


D = "infrastructure::time::Duration"
T = "infrastructure::time::Time"

GOALS = {
    "C14": [
        ("duration_wire_roundtrip", g_duration_wire_roundtrip, "quick"),
        ("time_wire_roundtrip", g_time_wire_roundtrip, "quick"),
        ("info_ts_to_local_total", g_wire_to_local_total, "quick"),
        ("rtps_duration_to_local_total", g_rtps_duration_to_local_total, "quick"),
        ("duration_add_normalized", _arith_goal(r"infrastructure::time::<impl at .*>::add$", [D, D], D, "dur_add", True,
                                                "Duration + Duration on normalized operands: no MIR assert can fail, result nanosec < 10^9"), "quick"),
        ("duration_sub_normalized", _arith_goal(r"infrastructure::time::<impl at .*>::sub$", [D, D], D, "dur_sub", True,
                                                "Duration - Duration on normalized operands: no MIR assert can fail, result nanosec < 10^9"), "quick"),
        ("time_add_normalized", _arith_goal(r"infrastructure::time::<impl at .*>::add$", [T, D], T, "time_add", True,
                                            "Time + Duration on normalized operands: no MIR assert can fail, result nanosec < 10^9"), "quick"),
        ("time_sub_normalized", _arith_goal(r"infrastructure::time::<impl at .*>::sub$", [T, T], D, "time_sub", True,
                                            "Time - Time on normalized operands: no MIR assert can fail, result nanosec < 10^9"), "quick"),
    ],
}

_mir_cache = {}


def get_fns():
    if "fns" not in _mir_cache:
        text, dt = solve.dump_mir()
        _mir_cache["fns"] = mir.parse_mir(text)
        _mir_cache["dump_s"] = dt
        _mir_cache["lines"] = text.count("\n")
    return _mir_cache["fns"]


def _src_locs(names):
    out = {}
    for n in names:
        m = re.search(r"<impl at ([^:>]+):(\d+):", n)
        out[n] = "%s:%s" % (m.group(1), m.group(2)) if m else "dds/src (free function)"
    return out


def run_goal(name, builder, timeout):
    fns = get_fns()
    F = Fns(fns)
    res = {"name": name, "engine": "smt", "queries": 0, "solver_s": 0.0, "solvers": {}, "verdict": "inconclusive"}
    t0 = time.time()
    enc = {}
    try:
        for ops in (BVOps(), IntOps()):
            ex = mir.Exec(fns, ops)
            g = builder(ex, F)
            enc[ops.name] = (ex, g)
    except Unsupported as e:
        res["detail"] = "translator: unsupported: %s" % e
        return res
    ex, g = enc["bv"]
    res["goal"], res["domain"] = g["goal"], g["domain"]
    res["functions"] = _src_locs(sorted(ex.encoded))

    def script(ex, g, extra):
        return ex.preamble() + ["(assert %s)" % p for p in g["pre"]] + ["(assert %s)" % e for e in extra]

    plan = [("bv", "cvc5-bv-as-int", timeout), ("int", "z3", timeout), ("int", "cvc5", timeout), ("bv", "z3", min(timeout, 10))]
    verdicts = {}
    cex = None
    for encname, solver, tmo in plan:
        ex, g = enc[encname]
        get = [v.term for v in g["inputs"].values()]
        v, model, dt, raw = solve.solve(solver, script(ex, g, [g["violation"]]), tmo, get=get)
        res["queries"] += 1
        res["solver_s"] += dt
        verdicts["%s/%s" % (encname, solver)] = v
        res["solvers"]["%s/%s" % (encname, solver)] = {"verdict": v, "s": round(dt, 3)}
        if v == "sat" and cex is None:
            cex = {k: model.get(val.term) for k, val in g["inputs"].items()}
    required = ["bv/cvc5-bv-as-int", "int/z3"]
    definite = [v for v in verdicts.values() if v in ("sat", "unsat")]
    if cex is not None:
        # replay against the natively compiled real code
        ex, g = enc["bv"]
        try:
            nat = g["native_check"](cex)
        except Exception as e:  # noqa
            nat = "error: %s" % e
        res["counterexample"] = cex
        res["native"] = nat
        if len(set(definite)) > 1:
            res["verdict"] = "inconclusive"
            res["detail"] = "solvers/encodings disagree: %s" % verdicts
        elif nat == "panic" or (isinstance(nat, dict) and not _goal_holds_natively(name, cex, nat)):
            res["verdict"] = "violated"
            res["what"] = "%s fails for inputs %s (native result %s)" % (name, cex, nat)
        else:
            res["verdict"] = "noreplay"
            res["detail"] = "solver counterexample %s does not reproduce natively (%s)" % (cex, nat)
        return res
    if all(verdicts.get(r) == "unsat" for r in required) and set(definite) == {"unsat"}:
        res["verdict"] = "holds"
    else:
        res["detail"] = "not all required solvers answered unsat: %s" % verdicts
        return res

    # ---- vacuity twin + translator validation ---------------------------------------------------
    ok_twin = True
    twin_models = []
    for encname, solver in (("bv", "cvc5-bv-as-int"), ("int", "cvc5")):
        ex, g = enc[encname]
        get = [v.term for v in list(g["inputs"].values()) + list(g["outputs"].values())]
        v, model, dt, raw = solve.solve(solver, script(ex, g, [g["ret"]]), timeout, get=get)
        res["queries"] += 1
        res["solver_s"] += dt
        if v != "sat":
            ok_twin = False
            res["detail"] = "twin (reachability) query not sat on %s/%s: %s" % (encname, solver, v)
            continue
        mi = {k: model.get(val.term) for k, val in g["inputs"].items()}
        mo = {k: model.get(val.term) for k, val in g["outputs"].items()}
        nat = g["native_check"](mi)
        twin_models.append({"encoding": encname, "inputs": mi, "encoding_outputs": mo, "native_outputs": nat})
        if nat != mo:
            ok_twin = False
            res["detail"] = "translator validation failed on solver model: %s vs native %s" % (mo, nat)
    # repo test inputs through both the encoding and the native code
    tested = 0
    for t in g.get("tests", []):
        for encname, solver in (("bv", "cvc5-bv-as-int"), ("int", "cvc5")):
            ex, g2 = enc[encname]
            pins = [ex.ops.eq(g2["inputs"][k].term, ex.ops.const(val, g2["inputs"][k].w)) for k, val in t.items()]
            get = [v.term for v in g2["outputs"].values()]
            v, model, dt, raw = solve.solve(solver, script(ex, g2, pins + [g2["ret"]]), timeout, get=get)
            res["queries"] += 1
            res["solver_s"] += dt
            if v != "sat":
                # a pinned input outside the precondition is simply not in the domain
                continue
            mo = {k: model.get(val.term) for k, val in g2["outputs"].items()}
            nat = g2["native_check"](t)
            tested += 1
            if nat != mo:
                ok_twin = False
                res["detail"] = "translator validation failed on test input %s: encoding %s vs native %s" % (t, mo, nat)
    res["twin_sat"] = ok_twin
    res["twin_model"] = twin_models
    res["translator_validation_points"] = tested + len(twin_models)
    if not ok_twin:
        res["verdict"] = "encoding"
    res["solver_s"] = round(res["solver_s"], 3)
    res["wall_s"] = round(time.time() - t0, 2)
    return res


def _goal_holds_natively(name, cex, nat):
    """For round-trip goals the native output must equal the input; for normalisation goals ons < 10^9."""
    if "roundtrip" in name:
        return nat.get("osec") == cex.get("sec") and nat.get("ons") == cex.get("ns")
    if name == "rtps_duration_to_local_total":
        return nat.get("ons", NS) < NS and nat.get("osec") == cex.get("sec")
    return nat.get("ons", NS) < NS


def run(pid, tier):
    out = []
    tmo = 60 if tier == "quick" else 300
    for name, builder, gtier in GOALS.get(pid, []):
        if tier == "quick" and gtier != "quick":
            continue
        try:
            r = run_goal(name, builder, tmo)
        except Exception as e:  # noqa
            r = {"name": name, "engine": "smt", "verdict": "inconclusive", "detail": "exception: %r" % (e,), "queries": 0,
                 "solver_s": 0.0}
        out.append(r)
    return out


if __name__ == "__main__":
    import json
    for r in run(sys.argv[1], sys.argv[2] if len(sys.argv) > 2 else "quick"):
        print(json.dumps(r, indent=1))
