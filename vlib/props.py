"""Per-property specification (level, scope text, trusted base) and evidence writer."""
import json
import os

from . import common

KANI_TRUSTED = [
    "Kani 0.68 MIR->goto translation and CBMC 6.11 (symbolic execution, bit-blasting), CaDiCaL",
    "rustc front end up to MIR (same MIR the release build is compiled from; Kani builds in the dev profile with overflow checks on)",
    "harness pre-state constructors and reference oracles under /verif/harness/incrate (listed per obligation)",
    "core::mem::forget of the objects under test at harness end (destructors are outside every claim)",
]
SMT_TRUSTED = [
    "rustc nightly -Zunpretty=mir output for the named functions",
    "/verif/mirsmt translator (validated on every run against the natively compiled functions on the repo's own test inputs and on solver models)",
    "z3 4.8.12 and cvc5 1.0 (both must agree)",
]

PROPS = {}


def prop(pid, **kw):
    kw.setdefault("level", "other")
    kw.setdefault("smt", False)
    kw.setdefault("guards", [])
    PROPS[pid] = kw


# The property table is filled in by vlib/ptab/*.py (one file per family).
from . import ptab  # noqa: E402,F401


def write_evidence(pid, tier, seed, spec, hs, obligations, info, wall, violations, exit_code):
    os.makedirs(common.EVIDENCE, exist_ok=True)
    n = len([o for o in obligations if o.get("engine") in ("kani", "smt", "guard")])
    discharged = len([o for o in obligations if o.get("verdict") in ("holds",)])
    known = len([o for o in obligations if o.get("verdict") == "known"])
    nontrivial = 0
    samples = []
    funcs = {}
    solver_s = 0.0
    symex_s = 0.0
    queries = 0
    for o in obligations:
        if o.get("engine") == "kani":
            sat = [c["description"] for c in o.get("covers", []) if c["status"] == "satisfied"]
            if o.get("verdict") == "holds" and sat:
                nontrivial += 1
            queries += o.get("checks", 0) + len(o.get("covers", []))
            solver_s += o.get("solver_s", 0.0)
            symex_s += o.get("symex_s", 0.0)
            funcs.update(o.get("functions", {}))
            samples.append({
                "obligation": o["name"], "engine": "kani", "verdict": o.get("verdict"),
                "asserts": o.get("desc"), "bounds": o.get("bounds"), "unwind": o.get("unwind"),
                "solver_checks": o.get("checks"), "cover_witnesses_satisfied": sat,
                "solver_s": o.get("solver_s"), "symex_s": o.get("symex_s"), "wall_s": o.get("wall_s"),
            })
        elif o.get("engine") == "smt":
            if o.get("verdict") == "holds" and o.get("twin_sat"):
                nontrivial += 1
            queries += o.get("queries", 0)
            solver_s += o.get("solver_s", 0.0)
            for fn, loc in (o.get("functions") or {}).items():
                funcs[fn] = loc
            samples.append({k: o.get(k) for k in ("name", "engine", "verdict", "goal", "domain", "queries",
                                                  "solver_s", "twin_model", "solvers", "functions")})
        else:
            samples.append(o)
    level = spec.get("level", "other")
    cov = {
        "explanation": spec.get("explanation", ""),
        "evaluations": max(n, 1),
        "distinct_nontrivial": nontrivial,
        "rule": "one evaluation = one obligation (a Kani proof harness = one CBMC run deciding all of its checks, or one "
                "MIR->SMT goal decided by z3 and cvc5); an obligation is non-trivial when it was discharged AND its "
                "vacuity witness (kani::cover!/SMT twin query) was satisfied on this run; obligations are distinct by name",
        "samples": samples,
        "obligations": n,
        "discharged": discharged,
        "known_findings_reported": known,
        "checker_cmd": info.get("cmd") or "python3 vlib/smtchecks.py (z3 -in / cvc5 --incremental)",
        "trusted_base": (KANI_TRUSTED if hs else []) + (SMT_TRUSTED if spec.get("smt") else []),
        "functions_encoded": funcs,
        "solver_queries": queries,
        "solver_time_s": round(solver_s, 3),
        "symex_time_s": round(symex_s, 3),
        "bounds": spec.get("bounds", ""),
        "outside_claim": spec.get("outside", ""),
        "exit_code": exit_code,
        "exhaustive": False,
    }
    ev = {
        "property_id": pid,
        "tier": tier,
        "seed": seed,
        "level": level,
        "coverage": cov,
        "assumptions": spec.get("assumptions", []) + sorted({a for h in hs for a in h.assumes}),
        "wall_s": round(wall, 2),
        "violations": violations,
    }
    with open(os.path.join(common.EVIDENCE, pid + ".json"), "w") as f:
        json.dump(ev, f, indent=1)
