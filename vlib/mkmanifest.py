"""Generate /verif/MANIFEST.json from the property table (claimed) and the not-applicable table."""
import json
import os
import subprocess
import sys

sys.path.insert(0, os.path.dirname(os.path.dirname(os.path.abspath(__file__))))
from vlib import common, props, natable  # noqa: E402


def main():
    ids = [json.loads(l)["id"] for l in open(os.path.join(common.VERIF, "properties.jsonl"))]
    hooks = subprocess.run(["git", "-C", common.REPO, "log", "--format=%H %s"], stdout=subprocess.PIPE, text=True).stdout
    hook_commits = [l.split()[0] for l in hooks.splitlines() if l.split(" ", 1)[1].startswith("verif hook")]
    checks = []
    for pid in ids:
        spec = props.PROPS.get(pid)
        if not spec or not spec.get("ready"):
            continue
        bad = [k for k in ("explanation", "bounds", "level_text", "level_note")
               if not str(spec.get(k, "")).strip() or str(spec.get(k, "")).strip().lower() in ("wip", "draft", "placeholder")]
        if bad:
            print("NOT CLAIMED: %s is marked ready but has placeholder texts: %s" % (pid, bad))
            spec["ready"] = False
            continue
        checks.append({
            "property_id": pid,
            "quick_cmd": "./check %s --tier quick" % pid,
            "thorough_cmd": "./check %s --tier thorough" % pid,
            "evidence_file": "/verif/evidence/%s.json" % pid,
            "replay_cmd_template": "./check %s --replay {path}" % pid,
            "engine": spec.get("engine", "kani-incrate" + ("+mir-smt" if spec.get("smt") else "")),
            "level_claimed": {"category": spec.get("level", "other"), "text": spec["level_text"],
                              "design_ref": spec.get("design_ref", "DESIGN.md section 5 / " + pid)},
            "level_note": spec["level_note"],
            "technique": spec.get("technique", "bounded model checking of the real code (Kani/CBMC, SAT)"),
        })
    na = []
    for pid in ids:
        if pid in props.PROPS and props.PROPS[pid].get("ready"):
            continue
        na.append({"property_id": pid, "reason": natable.NA.get(pid, "check not built yet (machinery under construction); see DESIGN.md")})
    m = {
        "version": 1,
        "setup_cmd": "python3 vlib/prime.py",
        "hooks": {
            "guard": common.GUARD,
            "enable": "cd /repo/dds && DUST_DDS_VERIF_HARNESS_DIR=/verif/harness/incrate RUSTFLAGS='--cfg s2e_systems_dust_dds_verif' cargo kani ... (the module is additionally gated on cfg(kani), which only the Kani compiler sets)",
            "baseline_off_cmd": "cd /repo && cargo nextest run --workspace --no-fail-fast --tool-config-file pb:/w/lib/nextest.toml --profile pb --test-threads 8 --offline",
            "source_commits": hook_commits,
            "add_only": True,
        },
        "engines": [
            {"name": "kani-incrate", "path": "/verif/harness/incrate", "serves_properties": sorted(p for p, s in props.PROPS.items() if s.get("ready")),
             "kind_free_text": "Kani 0.68 / CBMC 6.11 proof harnesses compiled as part of the dust_dds crate through one guarded include! hook; driver ./check (vlib/kani.py)"},
            {"name": "mir-smt", "path": "/verif/mirsmt", "serves_properties": sorted(p for p, s in props.PROPS.items() if s.get("smt") and s.get("ready")),
             "kind_free_text": "rustc nightly MIR dump of /repo -> SMT-LIB (bit-vector and integer encodings) -> cvc5 + z3; counterexamples replayed on the natively compiled code (/verif/native)"},
        ],
        "checks": checks,
        "not_applicable": na,
        "notes": "exit codes of ./check: 0 holds within stated bounds; 1 VIOLATION (replayed natively); 2 encoding problem / vacuous harness; 3 inconclusive (timeout, OOM, unwinding bound). See DESIGN.md.",
    }
    with open(os.path.join(common.VERIF, "MANIFEST.json"), "w") as f:
        json.dump(m, f, indent=1)
    print("claimed:", len(checks), "not applicable:", len(na))


if __name__ == "__main__":
    main()
