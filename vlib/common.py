"""Shared paths / helpers for the dust-dds solver-based checks."""
import fcntl
import json
import os
import re
import subprocess
import sys
import time

VERIF = os.path.dirname(os.path.dirname(os.path.abspath(__file__)))
REPO = os.environ.get("VERIF_REPO", "/repo")
CRATE = os.path.join(REPO, "dds")
HARNESS_DIR = os.path.join(VERIF, "harness", "incrate")
BUILD = os.environ.get("VERIF_BUILD_DIR", os.path.join(VERIF, ".build"))
EVIDENCE = os.environ.get("VERIF_EVIDENCE_DIR", os.path.join(VERIF, "evidence"))  # seeded/run_all.sh redirects it
REPLAYS = os.environ.get("VERIF_REPLAYS_DIR", os.path.join(VERIF, "replays"))
KNOWN_FINDINGS = os.path.join(VERIF, "known_findings.json")
GUARD = "s2e_systems_dust_dds_verif"
N_TARGET_DIRS = int(os.environ.get("VERIF_SLOTS", "6"))  # machine-wide cap on concurrent cargo-kani runs (shared .build)

EXIT_OK = 0
EXIT_VIOLATION = 1
EXIT_ENCODING = 2  # counterexample does not replay / vacuous harness / harness broken
EXIT_INCONCLUSIVE = 3  # timeout / OOM / unwinding bound too small


def base_env():
    env = dict(os.environ)
    env["CARGO_NET_OFFLINE"] = "true"
    env["RUSTFLAGS"] = "--cfg " + GUARD
    env.pop("CARGO_TARGET_DIR", None)
    env.pop("RUSTUP_TOOLCHAIN", None)
    return env


class DirLock:
    """Pick one free directory out of a small pool (flock), block if all busy."""

    def __init__(self, prefix, n):
        self.prefix = prefix
        self.n = n
        self.fd = None
        self.path = None

    def __enter__(self):
        os.makedirs(BUILD, exist_ok=True)
        while True:
            for i in range(self.n):
                p = os.path.join(BUILD, "%s%d" % (self.prefix, i))
                os.makedirs(p, exist_ok=True)
                fd = os.open(p + ".lock", os.O_CREAT | os.O_RDWR, 0o644)
                try:
                    fcntl.flock(fd, fcntl.LOCK_EX | fcntl.LOCK_NB)
                    self.fd, self.path = fd, p
                    return p
                except OSError:
                    os.close(fd)
            time.sleep(1.0)

    def __exit__(self, *a):
        if self.fd is not None:
            fcntl.flock(self.fd, fcntl.LOCK_UN)
            os.close(self.fd)
        return False


def log(*a):
    print(*a, file=sys.stderr, flush=True)


def repo_line(path_rel, needle):
    """file:line of the first line in REPO/path_rel containing needle (or None)."""
    try:
        with open(os.path.join(REPO, path_rel)) as f:
            for i, l in enumerate(f, 1):
                if needle in l:
                    return "%s:%d" % (path_rel, i)
    except OSError:
        pass
    return None
