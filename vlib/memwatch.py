"""Development aid (not used by the registered checks): kill the largest cbmc when the machine is about to run out of memory."""
import os, time, signal
def avail():
    for l in open('/proc/meminfo'):
        if l.startswith('MemAvailable:'):
            return int(l.split()[1])/(1<<20)
while True:
    if avail() < 3.0:
        best=(0,None)
        for pid in os.listdir('/proc'):
            if not pid.isdigit(): continue
            try:
                comm=open('/proc/%s/comm'%pid).read().strip()
                if comm!='cbmc': continue
                rss=int(open('/proc/%s/statm'%pid).read().split()[1])*4096
                if rss>best[0]: best=(rss,int(pid))
            except OSError: pass
        if best[1]:
            print(time.strftime('%H:%M:%S'),'killing cbmc',best[1],'rss %.1f GB'%(best[0]/(1<<30)),flush=True)
            try: os.kill(best[1],signal.SIGKILL)
            except OSError: pass
            time.sleep(3)
    time.sleep(1)
