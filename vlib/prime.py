"""setup: build everything the checks need from files on disk (offline): Kani dependency build,
native oracle, MIR dump dependencies."""
import os
import subprocess
import sys

sys.path.insert(0, os.path.dirname(os.path.dirname(os.path.abspath(__file__))))
from vlib import common  # noqa: E402
from vlib.common import DirLock, base_env, log  # noqa: E402


def main():
    os.makedirs(os.path.join(common.BUILD, "logs"), exist_ok=True)
    rc = 0
    from vlib import index, kani
    hd = kani.prepare_harness_dir(index.for_property("C14", "quick"), "prime")
    with DirLock("kt", common.N_TARGET_DIRS) as target:
        env = base_env()
        env["DUST_DDS_VERIF_HARNESS_DIR"] = hd
        p = subprocess.run(["cargo", "kani", "--target-dir", target, "--only-codegen"], cwd=common.CRATE, env=env,
                           stdout=subprocess.PIPE, stderr=subprocess.STDOUT, text=True)
        log("kani codegen prime rc=%d" % p.returncode)
        if p.returncode != 0:
            log(p.stdout[-3000:])
            rc = 1
    try:
        from mirsmt import solve
        solve.native_bin()
        log("native oracle built")
        solve.dump_mir()
        log("MIR dump ok")
    except Exception as e:  # noqa
        log("prime: %s" % e)
        rc = 1
    sys.exit(rc)


if __name__ == "__main__":
    main()
