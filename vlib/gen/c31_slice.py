"""C31: extract the worker's sleep computation from /repo's current source and wrap it in a function.

The computation is inline in the async worker closure of DomainParticipantFactoryAsync::new
(dds/src/dds_async/domain_participant_factory.rs): from `let poke_time = ...` down to the
`.min(...)` chain that defines `next_task_time`, and the argument expression of `timer_handle.delay(...)`.
The `let time_until_x = domain_participant_factory.time_until_x();` bindings become the parameters of
the generated function (their values are whatever the participant state yields: symbolic in the harness).
Everything else is copied verbatim, so the harness executes the repository's own statements with the
real Duration::min / Ord / From<Duration> for core::time::Duration.

Returns (ok, text_or_reason, info).
"""
import os
import re

from .. import common

REL = "dds/src/dds_async/domain_participant_factory.rs"


def generate():
    path = os.path.join(common.REPO, REL)
    try:
        src = open(path).read().splitlines()
    except OSError as e:
        return False, "cannot read %s: %s" % (REL, e), {}
    start = None
    for i, l in enumerate(src):
        if re.search(r"\blet\s+poke_time\b", l):
            start = i
            break
    if start is None:
        return False, "`let poke_time` not found in %s" % REL, {}
    # statements until the one that defines next_task_time ends
    stmts, cur, depth_ok, end = [], [], False, None
    i = start
    while i < len(src) and i < start + 80:
        cur.append(src[i])
        joined = " ".join(x.strip() for x in cur)
        if joined.endswith(";") and joined.count("(") == joined.count(")"):
            stmts.append(joined)
            cur = []
            if re.match(r"let\s+(mut\s+)?next_task_time\b", joined):
                end = i
                break
        i += 1
    if end is None:
        return False, "statement defining `next_task_time` not found after `let poke_time`", {}
    # the delay argument
    delay_expr = None
    for j in range(end + 1, min(len(src), end + 30)):
        m = re.search(r"\.delay\((.*)\)\s*,?\s*$", src[j].strip())
        if m:
            delay_expr = m.group(1)
            break
    if delay_expr is None:
        return False, "`timer_handle.delay(<expr>)` not found after the next_task_time statement", {}
    params, body = [], []
    for s in stmts:
        m = re.match(r"let\s+(time_until_[a-z_]+)\s*=\s*domain_participant_factory\s*\.\s*(time_until_[a-z_]+)\(\)\s*;$", s)
        if m:
            params.append(m.group(1))
            continue
        if "domain_participant_factory" in s or "await" in s:
            return False, "unexpected statement in the sleep computation (not a time_until_* binding): %s" % s, {}
        body.append(s)
    if not params:
        return False, "no time_until_* bindings found", {}
    out = []
    out.append("// GENERATED on every run by vlib/gen/c31_slice.py from %s lines %d-%d: do not edit" % (REL, start + 1, end + 1))
    out.append("use crate::infrastructure::time::Duration;")
    out.append("pub const N_INPUTS: usize = %d;" % len(params))
    out.append("#[allow(clippy::too_many_arguments)]")
    out.append("pub fn worker_sleep(%s) -> core::time::Duration {" % ", ".join("%s: Option<Duration>" % p for p in params))
    for s in body:
        out.append("    " + s)
    out.append("    let requested: core::time::Duration = %s;" % delay_expr)
    out.append("    requested")
    out.append("}")
    out.append("pub fn worker_sleep_from_array(v: [Option<Duration>; %d]) -> core::time::Duration {" % len(params))
    out.append("    worker_sleep(%s)" % ", ".join("v[%d]" % k for k in range(len(params))))
    out.append("}")
    for k, p in enumerate(params):
        out.append("pub const IDX_%s: usize = %d;" % (p.upper(), k))
    info = {"file": REL, "lines": "%d-%d" % (start + 1, end + 1), "params": params, "delay_expr": delay_expr}
    return True, "\n".join(out) + "\n", info
