"""Regenerate the generated parts of DESIGN.md (between <!-- GEN:x --> markers) from the property table,
the harness index, the known-findings files and seeded/*/meta.json, so that the document cannot drift."""
import glob
import json
import os
import sys

sys.path.insert(0, os.path.dirname(os.path.dirname(os.path.abspath(__file__))))
from vlib import common, index, natable, props  # noqa: E402


def section_props():
    out = []
    ids = [json.loads(l)["id"] for l in open(os.path.join(common.VERIF, "properties.jsonl"))]
    allh = index.load_index()
    for pid in ids:
        spec = props.PROPS.get(pid)
        if not spec or not spec.get("ready"):
            continue
        hs = [h for h in allh if pid in h.props]
        q = [h for h in hs if h.tier == "quick"]
        t = [h for h in hs if h.tier != "quick"]
        out.append("#### %s — claimed (level `%s`)\n" % (pid, spec.get("level", "other")))
        out.append("*Decides*: %s\n" % spec.get("explanation", "").strip())
        out.append("*Bounds*: %s\n" % spec.get("bounds", "").strip())
        out.append("*Outside the claim*: %s\n" % spec.get("outside", "").strip())
        out.append("*Trusted / assumed*: %s\n" % spec.get("level_note", "").strip())
        if spec.get("smt"):
            out.append("*SMT obligations*: MIR→SMT goals of `vlib/smtchecks.py` for this property (bit-vector and integer encodings, cvc5 + z3).\n")
        out.append("*Kani obligations*: quick %d (%s)%s\n" % (
            len(q), ", ".join("`%s`" % h.name for h in q) or "-",
            ("; thorough adds %d (%s)" % (len(t), ", ".join("`%s`" % h.name for h in t))) if t else ""))
    return "\n".join(out)


def section_na():
    ids = [json.loads(l)["id"] for l in open(os.path.join(common.VERIF, "properties.jsonl"))]
    out = ["| id | reason |", "|---|---|"]
    for pid in ids:
        spec = props.PROPS.get(pid)
        if spec and spec.get("ready"):
            continue
        out.append("| %s | %s |" % (pid, natable.NA.get(pid, "check not built (see MANIFEST.json)").replace("|", "/")))
    return "\n".join(out)


def section_findings():
    out = []
    k = json.load(open(common.KNOWN_FINDINGS))
    out.append("**Repaired (`fix:` commits in /repo; the check that found each now passes with nothing suppressed):**\n")
    for f in k.get("fixed", []):
        out.append("* %s" % f[len("fixed: "):] if f.startswith("fixed: ") else "* " + f)
    out.append("\n**Open known findings (genuine defects recorded, not repaired; the check prints `KNOWN-FINDING:` and exits 0; "
               "each is pinned to its trigger by a `__known` harness with a `__rest` sibling that assumes the negation):**\n")
    n = 0
    for p in sorted(glob.glob(os.path.join(common.VERIF, "known_findings.d", "*.json"))):
        for f in json.load(open(p)).get("findings", []):
            if f.get("status") != "open":
                continue
            n += 1
            out.append("* **%s** (%s) — %s  \n  *trigger*: %s  \n  *where*: %s  \n  *why not repaired here*: %s" % (
                f["id"], f["property"], f.get("what", ""), f.get("trigger", ""), f.get("where", ""),
                f.get("why_not_fixed", f.get("suggested_fix", ""))))
    if n == 0:
        out.append("* none")
    return "\n".join(out)


def section_seeded():
    out = ["| id | property | what the change does | needs | verdict of the checks |", "|---|---|---|---|---|"]
    for p in sorted(glob.glob(os.path.join(common.VERIF, "seeded", "*", "meta.json"))):
        m = json.load(open(p))
        sid = os.path.basename(os.path.dirname(p))
        verdict = m.get("status", "?")
        if m.get("detected_by"):
            verdict += ": " + "; ".join(m["detected_by"])
        if m.get("why_missed"):
            verdict += ": " + m["why_missed"]
        out.append("| %s | %s | %s | %s | %s |" % (sid, m.get("property"), m.get("what", "").replace("|", "/"),
                                                 m.get("needs", "").replace("|", "/"), verdict.replace("|", "/")))
    return "\n".join(out)


def main():
    p = os.path.join(common.VERIF, "DESIGN.md")
    s = open(p).read()
    for name, fn in (("props", section_props), ("na", section_na), ("findings", section_findings), ("seeded", section_seeded)):
        a, b = "<!-- GEN:%s -->" % name, "<!-- /GEN:%s -->" % name
        if a in s and b in s:
            i, j = s.index(a) + len(a), s.index(b)
            s = s[:i] + "\n" + fn() + "\n" + s[j:]
    open(p, "w").write(s)


if __name__ == "__main__":
    main()
