"""Index of Kani harnesses: parsed from annotations in /verif/harness/incrate/*.rs.

Annotation block directly above a harness:

    // @check props=C01,C05 tier=quick [known=KF-C05-1] [unwind_violation=1] [timeout=600]
    // @desc   free text (what is asserted)
    // @bounds free text
    // @assume free text            (repeatable)
    // @enc    path::to::function   (repeatable; functions symbolically executed)
    #[kani::proof]
    #[kani::unwind(5)]
    fn c01_some_name() {
"""
import glob
import os
import re

from .common import HARNESS_DIR, GUARD

FN_RE = re.compile(r"^\s*(?:pub(?:\([a-z]+\))?\s+)?fn\s+([A-Za-z0-9_]+)\s*\(")
UNWIND_RE = re.compile(r"#\[kani::unwind\((\d+)\)\]")


class Harness:
    def __init__(self):
        self.props = []
        self.tier = "quick"
        self.known = None
        self.unwind_violation = False
        self.timeout = None
        self.desc = ""
        self.bounds = ""
        self.assumes = []
        self.enc = []
        self.unwind = None
        self.name = None
        self.module = None
        self.file = None
        self.line = None
        self.stubbing = False
        self.needs = []

    @property
    def full(self):
        return "%s::%s::%s" % (GUARD, self.module, self.name)

    def to_json(self):
        return {
            "harness": self.full,
            "tier": self.tier,
            "unwind": self.unwind,
            "desc": self.desc,
            "bounds": self.bounds,
            "known": self.known,
        }


def load_index():
    out = []
    for path in sorted(glob.glob(os.path.join(HARNESS_DIR, "*.rs"))):
        module = os.path.splitext(os.path.basename(path))[0]
        if module == "mod":
            continue
        cur = None
        needs = []
        with open(path) as f:
            for ln, line in enumerate(f, 1):
                s = line.strip()
                if s.startswith("// @needs"):
                    # file-level: generated modules (vlib/gen/<name>.py) this harness file uses as super::gen_<name>
                    needs += [x[4:] for x in s[len("// @needs"):].split() if x.startswith("gen:")]
                    continue
                if s.startswith("// @check"):
                    cur = Harness()
                    cur.module, cur.file = module, path
                    cur.needs = needs
                    for kv in s[len("// @check"):].split():
                        k, _, v = kv.partition("=")
                        if k == "props":
                            cur.props = v.split(",")
                        elif k == "tier":
                            cur.tier = v
                        elif k == "known":
                            cur.known = v
                        elif k == "unwind_violation":
                            cur.unwind_violation = v == "1"
                        elif k == "timeout":
                            cur.timeout = int(v)
                    continue
                if cur is None:
                    continue
                if s.startswith("// @desc"):
                    cur.desc = (cur.desc + " " + s[len("// @desc"):].strip()).strip()
                elif s.startswith("// @bounds"):
                    cur.bounds = (cur.bounds + " " + s[len("// @bounds"):].strip()).strip()
                elif s.startswith("// @assume"):
                    cur.assumes.append(s[len("// @assume"):].strip())
                elif s.startswith("// @enc"):
                    cur.enc.append(s[len("// @enc"):].strip())
                elif s.startswith("//"):
                    continue
                else:
                    m = UNWIND_RE.search(s)
                    if m:
                        cur.unwind = int(m.group(1))
                    if "kani::stub" in s:
                        cur.stubbing = True
                    m = FN_RE.match(line)
                    if m:
                        cur.name = m.group(1)
                        cur.line = ln
                        out.append(cur)
                        cur = None
    return out


def for_property(pid, tier):
    hs = [h for h in load_index() if pid in h.props]
    if tier == "quick":
        hs = [h for h in hs if h.tier == "quick"]
    return hs
