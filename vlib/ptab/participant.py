"""Property table: DCPS participant-level properties (main session)."""
from ..props import prop

prop(
    "C03",
    level="other",
    level_text="bounded: soundness kernel of wait_for_acknowledgments (is_change_acknowledged over <=3 reader proxies, "
               "ACKNACK handling) decided by Kani for all proxy states; completion after reader departure decided as one "
               "worker step on a constructed participant.",
    level_note="trusted: Kani/CBMC; bounds <=3 proxies, <=3 changes; the async wait loop itself is outside",
    explanation="see DESIGN.md section 5 / C03",
    bounds="<= 3 reader proxies, <= 3 changes",
    outside="the async polling loop of wait_for_acknowledgments and real timing",
)
