"""Property table: DCPS participant-level properties (main session)."""
from ..props import prop

prop(
    "C35",
    ready=True,
    level="other",
    level_text="one real create_* call on a real DcpsDomainParticipant from an abstract history state (an earlier entity with "
               "counter value c0 still alive, the counter now at a symbolic c): no panic and handles pairwise distinct, for "
               "every counter value c including the maximum (where creation must fail with OutOfResources and add nothing). Bounded by one live sibling "
               "per kind; the handle is a pure function of (parent handle, counter, kind) so one sibling is the general case.",
    level_note="trusted: Kani/CBMC; listener tasks are never spawned (VSpawner drops them); participant not enabled (enabling "
               "announces through XTypes, outside)",
    explanation="Kani harnesses on DcpsDomainParticipant::create_user_defined_publisher/subscriber, create_topic, "
                "create_content_filtered_topic with symbolic creation counters "
                "(full u8 / u16 range) and one live earlier entity per kind (invariant: its counter bytes are below the "
                "current counter); asserts no panic (dev profile overflow checks), handle distinctness, the invariant after the "
                "step, and that a failing creation is OutOfResources and stores nothing.",
    bounds="one live earlier entity per kind; counters symbolic over their full range",
    outside="the delete operations (that they never lower a counter onto a live entity's key: one real "
            "delete_user_defined_publisher with a non-empty writer list did not finish in 900 s, so a change that makes a "
            "REJECTED delete hand the key back — seeded change C35-1 — is not detected); create_data_writer / create_data_reader (writer_counter / reader_counter): the SAT encoding of one such call on a "
            "participant exceeded 26 GB / 450 s in propositional reduction even with the announcement, TypeInformation and "
            "TopicKind stubs (harnesses kept parked in c35_handles.rs, not run) — these two counters use the same checked_add "
            "pattern but are NOT decided here; the enabled-entity announcement path (DynamicData); RTPS GUIDs (same 16 bytes as "
            "the handle by construction); stubs: TypeInformation::from(DynamicType) and alloc::fmt::format in the topic harnesses",
    timeout={"quick": 900, "thorough": 1800},
    cbmc_args=["--unwindset", "memcmp.0:17"],
    # global #[kani::unwind(3)] (entity lists hold <= 2 entries); the few longer loops get their own bound, looked up
    # by function-name pattern in the goto binaries of the run (vlib/kani.py resolve_unwind_patterns)
    unwind_patterns=[
        (r"StatusMask as std::iter::FromIterator", 14),   # DcpsStatusCondition::default(): 13 status kinds
        (r"overflowing_pow", 8),
        (r"slice_contains|SliceContains", 8),               # BUILT_IN_TOPIC_NAME_LIST (6 names)
    ],
)
