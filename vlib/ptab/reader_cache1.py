"""Property table: DataReader sample cache rules (C18 history, C19 resource limits, C21 order, C25 filter)."""
from ..props import prop

_SHAPE = (
    "Every obligation executes ONE real DataReaderEntity::<()>::add_reader_change (C19 writer side: ONE real "
    "DataWriterEntity::write_w_timestamp) from a directly constructed pre-state and asserts the step contract plus the "
    "invariants it assumed (inductive step). The *structure* of the pre-state is concrete per harness - exactly n stored "
    "samples (n = 0, 1, 2, 3 are separate harnesses), both instance handles registered, instance_ownership empty (variants "
    "with a full ownership table and with an unregistered instance exist in the thorough tier) - because, measured on this "
    "code, a symbolic list length or a symbolic table entry doubles the formula and exhausts 12 GB; all *values* are "
    "symbolic: instance (one of 2 handles), writer (one of 2), change kind (all 5), source timestamp, sample state and "
    "generation counts of every stored sample, view/instance state of both instances, the incoming change, and the QoS "
    "(KEEP_LAST depth 1..3 or KEEP_ALL, each resource limit in {1,2,3,unlimited}, minimum_separation).")

_STUB = (
    "The derived <InstanceHandle as PartialEq>::eq (a 16-byte memcmp loop that would force the global unwinding bound to 17 "
    "and every list loop to be unrolled 17 times: no answer in 600 s) is replaced through kani::stub by a loop-free 128-bit "
    "comparison; the harness c18_handle_eq_stub_is_equivalent runs the real eq and proves both agree on all 2^256 pairs; it is "
    "part of every run of these properties.")

_COMMON_BOUNDS = (
    "pre-state: exactly n stored samples, n in {1, 2} (quick) / {0,1,2,3} (thorough), over 2 instance handles and 2 writer "
    "guids; all 5 change kinds; source timestamps None or sec 0..4 x nanosec {0, 5*10^8} (every order/equality relation of up to 4 "
    "timestamps; C25 thorough additionally sec 0..2^30 x any nanosec); generation counts 0..2; KEEP_LAST depth 1..3 / KEEP_ALL; "
    "resource limits in {1,2,3,unlimited}; one step; unwinding bound 6 (every list has <= 4 elements); SAT back end MiniSat "
    "(CaDiCaL needs > 12 GB on these formulas)")

_COMMON_OUTSIDE = (
    "caches with more than 3 stored samples, more than 2 instances or writers; EXCLUSIVE ownership (C24); histories are covered "
    "only through the asserted invariants (one inductive step), QoS constant over the history; the caller "
    "(communication_methods.rs: instance-handle computation through DynamicData, SampleRejected status/listener bookkeeping - "
    "a verbatim pass-through of the returned (handle, reason) into increment_sample_rejected_status) is not executed; "
    "destructors; Vec reallocation (the pre-state vectors are allocated with their final capacity)")

_ASSUME = [
    "pre-state satisfies the representation invariant R1-R3 of support_reader.rs and the per-property invariant; all are re-asserted after the step",
    "DataReaderQos::is_consistent() (the real predicate) holds; resource limits / history / destination order immutable after enable (check_immutability)",
    "<InstanceHandle as PartialEq>::eq replaced by handle_eq_stub (equivalence proved by c18_handle_eq_stub_is_equivalent on every run)",
]

_LEVEL_NOTE = (
    "trusted: Kani 0.68 / CBMC 6.11 / MiniSat 2.2.1, the pre-state constructors and <= 20-line oracles of "
    "harness/incrate/support_reader.rs, the handle_eq stub (proved equivalent per run). Measured per obligation (CBMC alone, "
    "symbolic execution + SAT, load average about 10 on the shared 16-core box): 1 stored sample 2-3.3 M SAT variables, 25-90 s, "
    "1.5-2.3 GB; 2 samples 2.7-4.9 M variables, 55-145 s, 2.1-3.2 GB (BY_SOURCE_TIMESTAMP with KEEP_LAST, i.e. Vec::remove followed "
    "by Vec::insert at symbolic indices: 8 GB); 3 samples 6.6 M variables, about 270 s, 2.4-3.9 GB. Through ./check (JSON output, "
    "traces for witnesses) wall times are about twice that plus a 30 s build; at load average 40 they were 5-8 times higher, hence "
    "the generous per-harness timeouts.")

prop(
    "C18",
    ready=True,
    level="other",
    explanation=(
        _SHAPE + " C18 oracle: the new sample is stored exactly once (last under BY_RECEPTION_TIMESTAMP); under KEEP_LAST a stored "
        "sample is removed only when the instance already holds depth ALIVE samples and it is then the first stored (oldest) ALIVE "
        "sample of that instance; every other sample is kept unchanged in its relative order; KEEP_ALL never removes; Rejected only "
        "with a reason whose limit is reached and then nothing changes; NotAdded never; afterwards <= depth ALIVE samples per "
        "instance, limits and representation invariant hold again. " + _STUB + " Finding KF-C18-1 (limit tests run before the "
        "KEEP_LAST replacement, so a full instance with max_samples_per_instance == depth or max_samples reached is Rejected for "
        "ever) is kept as a __known harness restricted to its trigger; every __rest harness assumes the negation."),
    bounds=_COMMON_BOUNDS + "; quick: KEEP_LAST with 1 and KEEP_ALL with 2 stored samples; thorough: 0..3 samples for both, "
           "BY_SOURCE_TIMESTAMP, full ownership table, change for an unregistered instance",
    outside=_COMMON_OUTSIDE + "; 'depth samples' is checked in the implementation's convention (depth counts samples of kind ALIVE; "
            "dispose/unregister markers and ALIVE_FILTERED samples are not bounded by depth); 'most recent received' is storage order, "
            "which under BY_SOURCE_TIMESTAMP is source-timestamp order (C21)",
    level_text="Bounded model checking (Kani/CBMC, SAT) of the real add_reader_change: one inductive step from every pre-state of the "
               "bounded family that satisfies the asserted invariants; no sampling. Level 'other': bounded (<= 3 stored samples, 2 "
               "instances), histories covered through the invariant only.",
    level_note=_LEVEL_NOTE,
    technique="Kani/CBMC symbolic execution of the real add_reader_change, one inductive step per pre-state structure",
    assumptions=_ASSUME + ["ownership SHARED, time-based filter off (minimum_separation 0) in the C18 harnesses",
                           "negation of the KF-C18-1 trigger in the __rest harnesses"],
    timeout={"quick": 1500, "thorough": 3000},
    mem_gb=16,
)

prop(
    "C19",
    ready=True,
    level="other",
    explanation=(
        _SHAPE + " C19 reader oracle: afterwards the cache is within max_samples / max_instances / max_samples_per_instance; "
        "Rejected(handle, reason) names the instance of the change and a reason whose limit is reached, and the sample list is "
        "untouched; a change whose storing would exceed a limit is Rejected (never stored, never silently dropped). Counting "
        "convention = the implementation's own (max_samples counts stored samples of kind ALIVE, max_samples_per_instance every "
        "stored sample of the instance, max_instances the instances with a stored sample). Writer oracle "
        "(DataWriterEntity<MockWriter>::write_w_timestamp takes the instance handle and the serialized payload directly, so no "
        "DynamicData is executed): Err(OutOfResources) exactly when max_instances (new instance), max_samples_per_instance "
        "(KEEP_ALL) or max_samples is reached; a refused write stores nothing (no sample, no sequence number, no transport "
        "change, no instance); an accepted write records one sample, takes the next sequence number and hands exactly one change "
        "to the transport writer. " + _STUB + " Finding KF-C19-1 (a refused write of a new instance leaves the instance "
        "registered) is a __known harness restricted to its trigger; the writer __rest harnesses assume the negation."),
    bounds=_COMMON_BOUNDS + "; quick: reader KEEP_ALL with 2 stored samples, writer with 1 registered instance; thorough: reader 0..3 samples, "
           "KEEP_LAST, writer with 0, 1 or 2 registered instances (+1 new) and 0..3 recorded samples each",
    outside=_COMMON_OUTSIDE + "; the `instances` table of the reader is never pruned and also grows for a rejected change of a new "
            "instance (observable through next_instance only; not counted as 'held instances' here); instance-state side effects of a "
            "rejected change (update_state runs before the limit tests) belong to C22; writer: the KEEP_LAST removal of the oldest "
            "sample and the blocking of reliable writers happen in writer_methods.rs behind DynamicData serialisation and are assumed "
            "as a caller contract (fewer than depth samples on entry); which sequence number is stored inside the per-instance "
            "VecDeque is not read back (reading the deque through its symbolic-capacity growth path exhausts the SAT back end); "
            "dispose/unregister/register of the writer (DynamicData)",
    level_text="Bounded model checking (Kani/CBMC, SAT) of the real add_reader_change and write_w_timestamp: one inductive step from "
               "every pre-state of the bounded family; no sampling. Level 'other': bounded, histories through the invariant only.",
    level_note=_LEVEL_NOTE + " Writer obligations: about 1 M variables, 20 s.",
    technique="Kani/CBMC symbolic execution of the real add_reader_change / write_w_timestamp, one inductive step",
    assumptions=_ASSUME + ["ownership SHARED, time-based filter off in the C19 reader harnesses",
                           "writer: bookkeeping within the limits before the call, DataWriterQos::is_consistent(), lifespan infinite, "
                           "KEEP_LAST caller contract, negation of the KF-C19-1 trigger in the __rest harnesses"],
    timeout={"quick": 1500, "thorough": 3000},
    mem_gb=16,
)

prop(
    "C21",
    ready=True,
    level="other",
    explanation=(
        _SHAPE + " C21: destination order BY_SOURCE_TIMESTAMP; the pre-state list is sorted by source timestamp over ALL instances "
        "(the insert position is searched over the whole list, so global sortedness is the inductive invariant that implies the "
        "per-instance order the property asks for; removals by take/KEEP_LAST preserve it). Oracle after the step: samples of one "
        "instance that carry a source timestamp are in non-decreasing order, and the whole list is still sorted (derived order of "
        "Option<Time>, None first, which is what the implementation compares). " + _STUB + " The defect this check found "
        "(KF-C21-1: position(..).unwrap_or(0) inserted a change newer than every stored sample at the FRONT, so in-order arrival "
        "1, 2 was stored as [2, 1]) was repaired in /repo (unwrap_or(self.sample_list.len())); its former trigger region is part of "
        "every harness again and has its own vacuity witness ('appended at the end'), next to insertion in the middle, at the "
        "front, and equal or missing timestamps."),
    bounds=_COMMON_BOUNDS + "; quick: KEEP_ALL with 1 and 2 stored samples (insert in the middle); thorough: 0 and 3 samples, KEEP_LAST "
           "(eviction followed by insertion) with 1 and 2 samples",
    outside=_COMMON_OUTSIDE + "; order among samples without a source timestamp (the property does not constrain it); the order in which "
            "read/take present the stored list (storage order, C20)",
    level_text="Bounded model checking (Kani/CBMC, SAT) of the real add_reader_change with BY_SOURCE_TIMESTAMP: one inductive step from "
               "every sorted pre-state of the bounded family; no sampling. Level 'other': bounded, histories through the invariant only.",
    level_note=_LEVEL_NOTE + " The defect found by this check (KF-C21-1) was repaired by fix commit 49151e9; nothing is suppressed.",
    technique="Kani/CBMC symbolic execution of the real add_reader_change, one inductive step per pre-state structure",
    assumptions=_ASSUME + ["ownership SHARED, time-based filter off in the C21 harnesses"],
    timeout={"quick": 1500, "thorough": 3000},
    mem_gb=16,
)

prop(
    "C25",
    ready=True,
    level="other",
    explanation=(
        _SHAPE + " C25: minimum_separation symbolic, finite and > 0; the pre-state satisfies 'any two stored samples of one instance "
        "that carry a source timestamp are >= minimum_separation apart'. Oracle (reference `a + sep <= b` on (sec, nanosec) pairs, "
        "addition only; the implementation subtracts with the real Time/Duration arithmetic): the invariant holds again after the "
        "step; a change at least minimum_separation away from every stored sample of its instance is never NotAdded; a filtered "
        "change leaves the cache untouched. " + _STUB + " Findings: KF-C25-1 (only the closest EARLIER stored sample is compared: "
        "an out-of-order change is accepted next to a later stored sample closer than minimum_separation) and KF-C25-2 (the filter "
        "only knows samples still in the cache: after take() of the last sample the next one is accepted however close) are __known "
        "harnesses; the __rest harnesses assume the negation of KF-C25-1, and KF-C25-2 is outside what one step from a cache "
        "state can express (stated as assumption)."),
    bounds=_COMMON_BOUNDS + "; minimum_separation in {0.5 s, 1 s, .., 2.5 s} (thorough wide-domain harness: any finite value in (0, 2^30 s) "
           "with timestamps sec 0..2^30 x any nanosec); quick: KEEP_ALL with 2 stored samples; thorough: 0, 1, 3 samples, KEEP_LAST, "
           "BY_SOURCE_TIMESTAMP",
    outside=_COMMON_OUTSIDE + "; minimum_separation infinite or changed by set_qos during the history; samples that have left the cache "
            "(taken, evicted by KEEP_LAST, removed with their writer) - exactly KF-C25-2; the KF-C25-2 harness uses a ghost timestamp "
            "for the taken sample and an empty cache instead of executing the real take() in front of add_reader_change (both together: "
            "out of memory at 12 GB during SSA conversion); timestamps with sec >= 2^30 (saturating arithmetic, C14)",
    level_text="Bounded model checking (Kani/CBMC, SAT) of the real add_reader_change with the real Time/Duration arithmetic: one "
               "inductive step from every separated pre-state of the bounded family; no sampling. Level 'other': bounded, histories "
               "through the invariant only.",
    level_note=_LEVEL_NOTE,
    technique="Kani/CBMC symbolic execution of the real add_reader_change, one inductive step per pre-state structure",
    assumptions=_ASSUME + ["ownership SHARED; minimum_separation finite, > 0 and constant over the history; deadline infinite",
                           "negation of the KF-C25-1 trigger in the __rest harnesses; every earlier accepted sample of the instance within "
                           "minimum_separation of the incoming change is still stored (negation of KF-C25-2)"],
    timeout={"quick": 1500, "thorough": 3000},
    mem_gb=16,
)
