"""Property table: DataReader sample cache rules (C18 history, C19 resource limits, C21 order, C25 filter)."""
from ..props import prop

_COMMON_BOUNDS = (
    "one real add_reader_change from a directly constructed pre-state: <= 3 stored samples over 2 instance handles "
    "and 2 writer guids, all 5 change kinds, source timestamps None or sec 0..4 x nanosec {0, 5*10^8}, symbolic "
    "sample/view/instance states and generation counts 0..2; unwind 18")

prop(
    "C18",
    level="other",
    explanation="placeholder",
    bounds=_COMMON_BOUNDS,
    outside="",
    level_text="",
    level_note="",
    technique="Kani/CBMC symbolic execution of the real add_reader_change, one inductive step",
    assumptions=[],
    timeout={"quick": 600, "thorough": 1500},
    mem_gb=12,
)
for _p in ("C19", "C21", "C25"):
    prop(_p, level="other", explanation="placeholder", bounds=_COMMON_BOUNDS, outside="", level_text="", level_note="",
         technique="Kani/CBMC symbolic execution of the real add_reader_change, one inductive step", assumptions=[],
         timeout={"quick": 600, "thorough": 1500}, mem_gb=12)
