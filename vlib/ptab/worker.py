"""Property table: the DDS worker's sleep computation (C31)."""
from ..props import prop

prop(
    "C31",
    ready=True,
    level="other",
    explanation=(
        "The worker's sleep computation is inline in an async closure; on every run vlib/gen/c31_slice.py re-extracts "
        "that statement block (from `let poke_time` to the `.min(..)` chain and the argument of `timer_handle.delay(..)`) "
        "from /repo's current source and wraps it verbatim in a function of the six time_until_* values. Kani executes it "
        "(real Duration::min / derived Ord / From<Duration> for core::time::Duration) for every combination of None / any "
        "normalized Duration, overdue (negative) values included, and decides: requested delay <= 50 ms; requested delay <= "
        "every pending duty; an overdue duty gives a zero delay. A third harness drives the real "
        "DcpsDomainParticipant::time_until_stale_participant on a real participant with a symbolic lease / last "
        "communication / clock reading and feeds its result through the same computation."),
    bounds="no value bound (six Option<Duration> over i32 x [0,10^9); loop-free code); the end-to-end harness uses one "
           "discovered participant",
    outside="that the runtime's timer honours the requested delay (std runtime: C42, not applicable); that the periodic duties "
            "executed after the wake-up (heartbeats, announcements, deadline/lease/lifespan checks) do their job (C01/C17/C29/C30); "
            "the second sentence of the property (a blocked write returns Timeout no later than max_blocking_time + one poke "
            "period) is covered only through the sleep bound here — check_pending_writer_sample_timeout itself sits behind "
            "DynamicData construction; producers other than time_until_stale_participant are covered by the fully symbolic "
            "harness (any value they could return), not executed",
    level_text="Loop-free integer/ordering code decided by Kani/CBMC over the full domain of its six inputs; the code under test "
               "is the repository's own statement block, re-extracted from the current source on every run (extraction failure "
               "= exit 3, never a pass).",
    level_note="trusted: Kani/CBMC; the textual slice extractor vlib/gen/c31_slice.py (it refuses statements it does not "
               "recognise); inputs assumed normalized (nanosec < 10^9), which C14 decides for Duration::new/Add/Sub",
    technique="Kani/CBMC symbolic execution of the worker's sleep computation (source slice regenerated from /repo) and of "
              "time_until_stale_participant on a real participant",
    assumptions=[],
    timeout={"quick": 300, "thorough": 600},
    mem_gb=8,
)
