"""Property table: worker channels (C34) and StatusCondition / WaitSet (C32)."""
from ..props import prop

prop("C34", level="other", explanation="wip", bounds="wip", outside="wip")
prop("C32", level="other", explanation="wip", bounds="wip", outside="wip")
