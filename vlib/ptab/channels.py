"""Property table: worker channels (C34) and StatusCondition / WaitSet (C32)."""
import os
import re

from .. import common
from ..props import prop


def _repo_file(rel):
    root = getattr(common, "REPO", "/repo")
    with open(os.path.join(root, rel), errors="replace") as f:
        return f.read()


def guard_wait_set_order():
    """The C32 waiter steps G, R, P mirror WaitSetAsync::wait: check every condition, then create the
    notification channel and register a clone of its sender with every condition, then await the receiver.
    If wait_set.rs no longer has that shape the harness does not mirror it any more (exit 3)."""
    try:
        src = _repo_file("dds/src/dds_async/wait_set.rs")
    except OSError as e:
        return False, "cannot read dds/src/dds_async/wait_set.rs: %s" % e
    m = re.search(r"pub async fn wait\(&self\)(.*?)\n    /// Async version of \[`attach_condition`\]", src, flags=re.S)
    if not m:
        return False, "WaitSetAsync::wait not found in wait_set.rs"
    body = m.group(1)
    marks = ["condition.get_trigger_value().await?", "return Ok(trigger_conditions)", "= notification();",
             ".register_notification(notification_sender.clone())", "notification_receiver.await?"]
    pos = -1
    for k in marks:
        p = body.find(k, pos + 1)
        if p < 0:
            return False, "WaitSetAsync::wait: expected `%s` after the previous phase (check-all / register-all / await order changed)" % k
        pos = p
    return True, "WaitSetAsync::wait has the check-all / register-all / await shape mirrored by the waiter steps G, R, P"


# every channel operation the C34 schedules treat as ONE atomic step, with the number of critical sections its body
# must contain (the schedule model is only a model of "every interleaving" under that assumption)
_ATOMIC_OPS = {
    "oneshot": {"send": 1, "drop": 1, "poll": 1},
    "mpsc": {"clone": 1, "drop": 1, "send": 1, "poll": 1, "receive": 0},
    "notification": {"clone": 1, "notify": 1, "drop": 1, "poll": 1},
}


def guard_one_critical_section_per_operation():
    """C34 explores sequences of whole channel operations. That equals 'every thread interleaving' only while each
    operation is a single critical_section::with block. If an operation is split into two sections (or loses its
    section) the model no longer covers the real interleavings: the check must not pass (exit 3)."""
    for mod, ops in _ATOMIC_OPS.items():
        rel = "dds/src/dcps/channels/%s.rs" % mod
        try:
            src = _repo_file(rel)
        except OSError as e:
            return False, "cannot read %s: %s" % (rel, e)
        seen = {}
        for m in re.finditer(r"\n    (?:pub )?(?:async )?fn (\w+)[^{]*\{", src):
            i = m.end()
            depth, j = 1, i
            while depth and j < len(src):
                depth += {"{": 1, "}": -1}.get(src[j], 0)
                j += 1
            seen.setdefault(m.group(1), []).append(src[i:j].count("critical_section::with("))
        for name, want in ops.items():
            got = seen.get(name)
            if got is None:
                return False, "%s: operation `%s` not found (channel API changed: the schedule harness no longer mirrors it)" % (rel, name)
            if any(g != want for g in got):
                return False, ("%s: `%s` contains %s critical_section::with block(s), the schedule model assumes exactly %d "
                               "(an operation split into several critical sections can be interleaved in between, which the "
                               "harnesses do not explore)" % (rel, name, got, want))
        extra = [n for n, c in seen.items() if n not in ops and any(x > 0 for x in c)]
        if extra:
            return False, "%s: operation(s) %s use critical sections but are not part of the schedule model" % (rel, extra)
    return True, "every channel operation is a single critical_section::with block (atomic steps of the schedule model)"


prop(
    "C34",
    ready=True,
    level="other",
    explanation=(
        "Every operation of the three channels (dds/src/dcps/channels/oneshot.rs, mpsc.rs, notification.rs) is one "
        "critical_section::with block, so a thread interleaving of channel users is a sequence of these atomic operations. "
        "Kani/CBMC executes the REAL channel objects under a SYMBOLIC SCHEDULE: k steps, at each step the operation (send / "
        "notify, clone sender, drop sender, poll receiver, drop receiver), the sender slot, the value and the poll waker are "
        "kani::any(); operations on handles that no longer exist are no-ops, so all shorter schedules are included. Oracle = a "
        "few integers of shadow state (sent-but-not-received values, live-sender count, 'receiver parked on waker A/B', pending "
        "notifications) and counting wakers built with alloc::task::Wake: (a) oneshot: the value is delivered exactly once and "
        "unchanged, Ready(Err) iff the sender was dropped without sending, Pending iff the sender is alive and nothing was sent; "
        "(b) mpsc: a poll is Ready(Some) iff more elements were sent than received (each exactly once; elements queued before the "
        "last sender drop are delivered first), Pending iff the queue is empty and a sender is alive, Ready(None) iff the queue is "
        "empty and every sender clone is dropped (sender_count bookkeeping over clone/drop); FIFO "
        "order of three distinguishable u8 values on one fixed operation sequence; (c) notification: a poll after >= 1 "
        "unconsumed notify is Ready(Ok) (n notifies before a poll may coalesce into between 1 and n wake-ups), never Ready(Ok) "
        "without a notify, Ready(Err) iff nothing is pending and every sender clone is dropped (sender_count bookkeeping over "
        "clone/drop); (d) all three: a send / notify / drop of the last sender while the receiver is parked increases the wake "
        "counter of the waker passed to the most recent Pending poll (never Pending without a registered waker), and sender "
        "operations after the receiver is gone do not panic. A dedicated harness drops every sender on an empty queue after an "
        "arbitrary prefix (the receiver, parked or not, must be woken and poll Ready(None)): this is the scenario in which these "
        "checks found that the mpsc channel had no disconnection transition (KF-C34-1); it was repaired by fix commit dfad154 and "
        "all obligations are now asserted without exception."),
    bounds="quick: oneshot k = 4 operations with 2 wakers; notification k = 4, <= 2 sender clones, 1 waker; mpsc k = 3, <= 2 sender "
           "clones, 1 waker, element type (); mpsc FIFO: one 7-operation sequence with 3 symbolic u8 values; last-sender drop after "
           "any 1-operation prefix. thorough: oneshot k = 5 (2 wakers) and k = 6 (1 waker); notification k = 4 (2 wakers) and k = 5 "
           "(3 sender slots); mpsc k = 3 (2 wakers), k = 4 (1 waker) and k = 5 (3 sender slots); last-sender drop after any 2-operation prefix. "
           "1 receiver everywhere.",
    outside="schedules longer than the stated k; more than 3 sender clones; the soundness of critical_section itself and true "
            "parallel execution inside a critical section (trusted base: acquire/release are stubbed by no-ops); the two critical "
            "sections of OneshotSender::send(self) (store+wake, then Drop of self) and the two steps of NotificationSender::clone / MpscSender::clone "
            "(count += 1, then Arc clone) are executed back to back; mpsc with a non-zero-sized element type under a symbolic schedule (measured: > 12 GB for 3 steps "
            "and also for an 81-path tree of {send, poll}^4, because CBMC explores VecDeque::grow with symbolic-size copies at every "
            "send) - value identity and FIFO order are therefore checked on one operation sequence only and otherwise rest on "
            "VecDeque::push_back/pop_front of the standard library; destruction of the shared channel state (Arc::drop_slow, "
            "deallocation: AtomicUsize::fetch_sub is stubbed to never report the last reference); the executor that re-polls a woken "
            "task (C42, not applicable); what MpscSender::send returns after the receiver was dropped (it still queues and returns Ok: "
            "the statement only speaks about the sending side being dropped).",
    level_text="Bounded symbolic model checking (Kani 0.68 / CBMC 6.11) of the real channel code over ALL schedules of k <= 3..4 (quick) / "
               "k <= 6 (thorough) atomic operations; reported as level 'other' (bounded).",
    level_note="trusted: Kani/CBMC; the harness oracles in harness/incrate/c34_channels.rs; three stubs in support_cs.rs "
               "(critical_section acquire/release = no-ops; AtomicUsize::fetch_sub never reports the last Arc reference; for the FIFO "
               "harness alloc::raw_vec::min_non_zero_cap panics = buffer growth asserted unreachable). The defect found by this check "
               "(KF-C34-1: mpsc never reported disconnection, a receiver whose senders were all dropped waited forever) was repaired by "
               "fix commit dfad154 and is recorded as 'fixed:' in known_findings.json; nothing is suppressed.",
    technique="Kani/CBMC symbolic schedule of k atomic channel operations on the real oneshot / mpsc / notification objects with a "
              "shadow-model oracle and counting wakers",
    assumptions=[
        "an interleaving of channel users = a sequence of whole critical sections (critical_section::with is atomic)",
        "allocation never fails (Kani default)",
    ],
    timeout={"quick": 600, "thorough": 1500},
    mem_gb=10,
    guards=[guard_one_critical_section_per_operation],
)

prop(
    "C32",
    ready=True,
    level="other",
    explanation=(
        "Kani/CBMC executes the REAL DcpsStatusCondition (dds/src/dcps/status_condition.rs) together with the REAL notification() "
        "channel that WaitSetAsync::wait (dds/src/dds_async/wait_set.rs) registers with it. In the running system every access to a "
        "status condition is one mail handled by the participant actor (status_condition_methods.rs looks the entity up and calls "
        "the same methods), so an interleaving of status changes, set_enabled_statuses calls and wait calls is a sequence of the "
        "calls add_communication_state(s), remove_communication_state(s), set_enabled_statuses(m) (worker) and G = "
        "get_trigger_value(), R = register_notification(sender.clone()), P = poll of the NotificationReceiver (waiter; the "
        "check-all / register-all / await order of WaitSetAsync::wait is mirrored by these steps, the async mail/reply glue is not "
        "executed; a source guard pins the order in wait_set.rs). Oracle = shadow sets 'changed' and 'enabled' over 3 status kinds. "
        "(1) Trigger value: for every schedule of k worker operations, after every step get_trigger_value() is true exactly when an "
        "enabled status has changed (including a status that changed while disabled and is enabled later). (2) No lost wake-up: one "
        "complete wait call G, R, P, P on a condition with an arbitrary enabled mask, with symbolic worker operations in the slots "
        "before G, between G and R, between R and the first poll, between the two polls: wait returns immediately if the trigger "
        "value is true at G, and a poll is never Pending while the trigger value is true (covers the status change between check "
        "and register, the change after the waiter parked, and - with two worker slots - the enabling of a status that changed "
        "while disabled). A dedicated harness runs exactly that last scenario (status changes while disabled, waiter checks, "
        "registers, optionally parks, set_enabled_statuses enables the status: the next poll must be Ready): this is where these "
        "checks found that set_enabled_statuses did not notify registered waiters (KF-C32-1); it was repaired by fix commit 02ad31f "
        "and all obligations are now asserted without exception."),
    bounds="1 condition, 1 waiter (one wait call), 3 status kinds (mask bits 0, 8, 12) and all 8 masks over them; trigger value: k = 3 "
           "(quick) / 4 and 5 (thorough) worker operations from the default condition; wake-ups: 4 waiter steps + symbolic initial mask + 1 "
           "symbolic worker operation in one of the slots (quick: between G and R, between R and the first poll, between the polls; "
           "thorough: also before G, and 2 worker operations before the registration: placement 1100); the enabling scenario has 3 "
           "worker operations of fixed kind (set_enabled, add, set_enabled) with symbolic operands (quick: waiter parked; thorough: "
           "parked or not, symbolic); unwind 14 (13-iteration mask loop of DcpsStatusCondition::default()).",
    outside="a free symbolic schedule of worker and waiter steps (measured: 3 free steps, and one worker slot in each of the four gaps, "
            "both exceed 11 GB / 600 s: once the length of registered_notifications is symbolic CBMC unrolls the drain loop of "
            "add_communication_state 13 times, the unwind bound forced by the 13-status loop of Default) - hence the slot-structured "
            "schedules; more than 1 symbolic worker operation after the waiter registered (measured on the repaired tree: two worker slots with one "
            "after the registration - placements 1001, 0101, 0011 - exceed 11 GB / 1500 s, because set_enabled_statuses now has the same "
            "drain-and-notify loop); two or more concurrent waiters or wait sets with several "
            "conditions (the original sender kept alive by wait() and the per-condition clones are modelled for one condition); the "
            "async glue of WaitSetAsync::wait / StatusConditionAsync (mail to the participant actor, oneshot reply) and the lookup "
            "code of status_condition_methods.rs, which are mirrored, not executed; the timeout of the blocking WaitSet::wait "
            "(block_timeout, executor: C42 not applicable); that the woken task is actually re-polled ('parked waiter is woken' is "
            "established as 'notify was called' here plus C34's 'notify wakes the most recent waker'); status kinds other than the "
            "three chosen (the code treats all 13 kinds uniformly through status_kind_bit).",
    level_text="Bounded symbolic model checking (Kani 0.68 / CBMC 6.11) of the real status condition and notification channel; reported "
               "as level 'other' (bounded schedules).",
    level_note="trusted: Kani/CBMC; the harness oracle in harness/incrate/c32_status_condition.rs; stubs in support_cs.rs "
               "(critical_section acquire/release = no-ops; AtomicUsize::fetch_sub never reports the last Arc reference; "
               "alloc::raw_vec::min_non_zero_cap = faithful copy that asserts Vec growth unreachable after a concrete warm-up). The "
               "defect found by this check (KF-C32-1: enabling an already changed status did not wake a registered waiter) was repaired "
               "by fix commit 02ad31f and is recorded as 'fixed:' in known_findings.json; nothing is suppressed.",
    technique="Kani/CBMC symbolic (slot-structured) schedules of status-condition operations against a mirrored WaitSetAsync::wait, "
              "shadow-model oracle",
    assumptions=[
        "every access to a status condition is one atomic step (one mail of the participant actor)",
        "allocation never fails (Kani default)",
    ],
    guards=[guard_wait_set_order],
    timeout={"quick": 600, "thorough": 1500},
    mem_gb=12,
)
