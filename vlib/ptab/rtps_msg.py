"""Property table: RTPS message family (C06 datagram robustness, C07 decoder totality, C08 round trip)."""
from ..props import prop

prop(
    "C07",
    ready=True,
    level="other",
    explanation=(
        "Decoder totality is decided per decoding unit by executing the real decoders symbolically (Kani/CBMC; panic, "
        "arithmetic-overflow, index and slice-bounds checks on). Fully symbolic bytes with a symbolic length and both "
        "endiannesses are used for: the submessage header (8 bytes); ACKNACK (32), GAP (36), HEARTBEAT, HEARTBEAT_FRAG, "
        "INFO_DST, INFO_SRC, INFO_TS, PAD (32), INFO_REPLY (32) with a fully symbolic submessage header; DATA (28) and "
        "DATA_FRAG (40) with the inline-QoS flag clear (flags octet enumerated, submessage_length / octetsToInlineQos / "
        "body symbolic); SequenceNumberSet (28), LocatorList (32); the CDR primitives of the discovery layer (28) and "
        "the discovery ParameterList::new / PidIterator / seek_to_pid / get_(non_)optional_parameter path (16 bytes, "
        "symbolic pid). Where a count or length is read from the wire the number of produced elements / bytes is asserted "
        "to be bounded by the input length. Three units are not tractable on fully symbolic bytes (measured): "
        "the RTPS ParameterList reader (8 symbolic bytes: 345 s / 5.4 GB, 12 bytes > 10 GB), hence DATA / DATA_FRAG with "
        "inline QoS; FragmentNumberSet (a Vec::with_capacity(256) filled by conditional pushes: 4 symbolic bits > 9 GB); "
        "String::cdr_deserialize (std UTF-8 validation over a symbolic-length buffer). For these the control fields "
        "(length fields, sentinel position, numBits / bitmap pattern, CDR string length, endianness, slice end) are "
        "enumerated concretely over every branch outcome of the parser - well-formed with 0..3 parameters, missing "
        "sentinel, length not a multiple of 4, length beyond the end, truncated header / value, empty region; numBits "
        "0/1/4/32/33/64 (thorough: 255/256); string length 1/3/exact/too long/0xffffffff - and all remaining bytes "
        "(ids, sequence numbers, parameter values, payload, set base) are symbolic; the verdict of every member is "
        "asserted exactly (decodes with the expected count / payload / consumed bytes, or is rejected). "
        "Three genuine defects are recorded as known findings with __known/__rest splits: FragmentNumberSet numBits > 256 "
        "(index out of bounds), FragmentNumberSet base overflow, String CDR length 0 (length - 1 underflow)."),
    bounds="quick: <= 44 symbolic bytes per unit (sizes per obligation in the evidence file), unwind 3..66; thorough: "
           "maximal 256-bit SequenceNumberSet / ACKNACK / GAP (44..60 bytes), INFO_REPLY 60 bytes, remaining flag octets and "
           "swapped endianness of the enumerated families, FragmentNumberSet numBits 255/256, ParameterList on 8 fully "
           "symbolic bytes, discovery get_locator_list on 32 fully symbolic bytes",
    outside="whole-message composition RtpsMessageRead::try_from on arbitrary bytes (not tractable: >1500 s for 36 bytes; the "
            "dispatcher is exercised on encoder-built messages under C06/C08); DATA / DATA_FRAG with the inline-QoS flag set "
            "and *arbitrary* length fields / octetsToInlineQos (only the enumerated family); FragmentNumberSet / NACK_FRAG with "
            "arbitrary bitmaps (concrete patterns only) and numBits in the known-defect region; strings longer than 3 "
            "characters and std's UTF-8 validator (stubbed to accept, trusted); inputs longer than the per-unit byte bounds; "
            "user sample payloads and discovery *values* decoded through the XTypes deserializer / DynamicData (not tractable, "
            "see DESIGN section 6); memory accounting other than the element-count bounds asserted per unit; the DATA flag N and "
            "unused flag bits of DATA/DATA_FRAG (not read by the decoders' control flow) are 0 in the flag-enumerated harnesses",
    level_text="Bounded symbolic execution of the real decoders: every byte string up to the stated length (or every member of "
               "the stated image family with all non-control bytes symbolic) is covered; nothing is sampled. Not a proof for "
               "unbounded inputs.",
    level_note="trusted: Kani/CBMC, harness oracles, std UTF-8 validation (stubbed in the two String harnesses); the three known "
               "findings KF-C07-1..3 are excluded from the __rest obligations by their recorded trigger predicates only",
    technique="Kani/CBMC proof harnesses on the real decoders (rtps_messages::*, dcps::data_representation_builtin_endpoints::rtps_data_representation)",
    assumptions=[
        "NOT trigger KF-C07-1 / KF-C07-2 in the FragmentNumberSet / NACK_FRAG __rest obligations; NOT trigger KF-C07-3 in the String __rest obligation",
        "core::str::from_utf8 stubbed (accepts every byte string) in c07_discovery_string_zero_length__known and c07_cdr_string__rest",
        "control fields of inline-QoS / FragmentNumberSet / String images taken from the enumerated families (listed per obligation)",
    ],
    timeout={"quick": 600, "thorough": 1500},
    mem_gb=10,
)

prop(
    "C08",
    level="other",
    explanation="draft",
    bounds="draft",
    outside="draft",
    level_text="draft",
    level_note="draft",
    technique="Kani/CBMC harnesses on the real encoders/decoders",
    assumptions=[],
)

prop(
    "C06",
    level="other",
    explanation="draft",
    bounds="draft",
    outside="draft",
    level_text="draft",
    level_note="draft",
    technique="Kani/CBMC harnesses on the real receiver / reader code",
    assumptions=[],
)
