"""Property table: RTPS message family (C06 datagram robustness, C07 decoder totality, C08 round trip)."""
from ..props import prop

prop(
    "C07",
    ready=True,
    level="other",
    explanation=(
        "Decoder totality is decided per decoding unit by executing the real decoders symbolically (Kani/CBMC; panic, "
        "arithmetic-overflow, index and slice-bounds checks on). Fully symbolic bytes with a symbolic length and both "
        "endiannesses are used for: the submessage header (8 bytes); ACKNACK (32), GAP (36), HEARTBEAT, HEARTBEAT_FRAG, "
        "INFO_DST, INFO_SRC, INFO_TS, PAD (32), INFO_REPLY (32) with a fully symbolic submessage header; DATA (28) and "
        "DATA_FRAG (40) with the inline-QoS flag clear (flags octet enumerated, submessage_length / octetsToInlineQos / "
        "body symbolic); SequenceNumberSet (28), LocatorList (32); the CDR primitives of the discovery layer (28) and "
        "the discovery ParameterList::new / PidIterator / seek_to_pid / get_(non_)optional_parameter path (16 bytes, "
        "symbolic pid). Where a count or length is read from the wire the number of produced elements / bytes is asserted "
        "to be bounded by the input length. Three units are not tractable on fully symbolic bytes (measured): "
        "the RTPS ParameterList reader (8 symbolic bytes: 345 s / 5.4 GB, 12 bytes > 10 GB), hence DATA / DATA_FRAG with "
        "inline QoS; FragmentNumberSet (a Vec::with_capacity(256) filled by conditional pushes: 4 symbolic bits > 9 GB); "
        "String::cdr_deserialize (std UTF-8 validation over a symbolic-length buffer). For these the control fields "
        "(length fields, sentinel position, numBits / bitmap pattern, CDR string length, endianness, slice end) are "
        "enumerated concretely over every branch outcome of the parser - well-formed with 0..3 parameters, missing "
        "sentinel, length not a multiple of 4, length beyond the end, truncated header / value, empty region; numBits "
        "0/1/4/32/33/64 (thorough: 255/256); string length 1/3/exact/too long/0xffffffff - and all remaining bytes "
        "(ids, sequence numbers, parameter values, payload, set base) are symbolic; the verdict of every member is "
        "asserted exactly (decodes with the expected count / payload / consumed bytes, or is rejected). "
        "Three genuine defects are recorded as known findings with __known/__rest splits: FragmentNumberSet numBits > 256 "
        "(index out of bounds), FragmentNumberSet base overflow, String CDR length 0 (length - 1 underflow)."),
    bounds="quick: <= 44 symbolic bytes per unit (sizes per obligation in the evidence file), unwind 3..66; thorough: "
           "maximal 256-bit SequenceNumberSet / ACKNACK / GAP (44..60 bytes), INFO_REPLY 60 bytes, remaining flag octets and "
           "swapped endianness of the enumerated families, FragmentNumberSet numBits 255/256, ParameterList on 8 fully "
           "symbolic bytes, discovery get_locator_list on 32 fully symbolic bytes",
    outside="whole-message composition RtpsMessageRead::try_from on arbitrary bytes (not tractable: >1500 s for 36 bytes; the "
            "dispatcher is exercised on encoder-built messages under C06/C08); DATA / DATA_FRAG with the inline-QoS flag set "
            "and *arbitrary* length fields / octetsToInlineQos (only the enumerated family); FragmentNumberSet / NACK_FRAG with "
            "arbitrary bitmaps (concrete patterns only) and numBits in the known-defect region; strings longer than 3 "
            "characters and std's UTF-8 validator (stubbed to accept, trusted); inputs longer than the per-unit byte bounds; "
            "user sample payloads and discovery *values* decoded through the XTypes deserializer / DynamicData (not tractable, "
            "see DESIGN section 6); memory accounting other than the element-count bounds asserted per unit; the DATA flag N and "
            "unused flag bits of DATA/DATA_FRAG (not read by the decoders' control flow) are 0 in the flag-enumerated harnesses",
    level_text="Bounded symbolic execution of the real decoders: every byte string up to the stated length (or every member of "
               "the stated image family with all non-control bytes symbolic) is covered; nothing is sampled. Not a proof for "
               "unbounded inputs.",
    level_note="trusted: Kani/CBMC, harness oracles, std UTF-8 validation (stubbed in the two String harnesses); the three known "
               "findings KF-C07-1..3 are excluded from the __rest obligations by their recorded trigger predicates only",
    technique="Kani/CBMC proof harnesses on the real decoders (rtps_messages::*, dcps::data_representation_builtin_endpoints::rtps_data_representation)",
    assumptions=[
        "NOT trigger KF-C07-1 / KF-C07-2 in the FragmentNumberSet / NACK_FRAG __rest obligations; NOT trigger KF-C07-3 in the String __rest obligation",
        "core::str::from_utf8 stubbed (accepts every byte string) in c07_discovery_string_zero_length__known and c07_cdr_string__rest",
        "control fields of inline-QoS / FragmentNumberSet / String images taken from the enumerated families (listed per obligation)",
    ],
    timeout={"quick": 600, "thorough": 1500},
    mem_gb=12,
)

prop(
    "C08",
    ready=True,
    level="other",
    explanation=(
        "Per submessage kind (ACKNACK, GAP, HEARTBEAT, HEARTBEAT_FRAG, NACK_FRAG, INFO_TS, INFO_DST, INFO_SRC, PAD, DATA, "
        "DATA_FRAG) a value with symbolic fields is built, encoded by the real container RtpsMessageWrite::new "
        "(Cursor<Vec<u8>>, write_submessage_into_bytes with the back-patched octetsToNextHeader) and decoded again by the "
        "real decoders; asserted: the RTPS header bytes, the submessage id, the little-endian flag and the other flags, "
        "octetsToNextHeader == number of element bytes that follow, and equality of every field (sequence numbers over "
        "the full i64 range, set base full range with a symbolic bitmap, counts full i32, fragment fields full u16/u32, "
        "payload and parameter bytes). HEARTBEAT goes through the whole parser RtpsMessageRead::try_from; for the other "
        "kinds the two calls of the dispatcher arm (SubmessageHeaderRead::try_read_from_bytes + the kind's "
        "try_from_bytes) are applied to the encoded message, because a harness that reaches all twelve decoders spends "
        "minutes in result processing. Big-endian decode: HEARTBEAT and ACKNACK images written by a 15-line harness-side "
        "big-endian writer (flag E clear) decode through RtpsMessageRead::try_from to the values they were written from. "
        "Tractability devices, all semantic no-ops: flags are enumerated concretely; the bytes the parser branches on "
        "(protocol id, submessage id, flags, octetsToNextHeader, numBits, parameter length, sentinel) are first asserted "
        "to equal their expected constants and then re-written with those constants in a local copy of the message so "
        "that CBMC sees them as constants (the container's heap Vec is opaque to its constant propagation); "
        "SequenceNumberSet / FragmentNumberSet values are obtained from the real element decoders applied to "
        "harness-written images (bits >= numBits clear, highest bit set - the shape the constructors produce) because "
        "the constructors on a symbolic member list make every encoder length symbolic."),
    bounds="quick (7 obligations): HEARTBEAT (final set) through the whole parser; HEARTBEAT_FRAG, INFO_DST, INFO_SRC, PAD; "
           "ACKNACK with SequenceNumberSet numBits 34 and a symbolic bitmap; NACK_FRAG with the concrete FragmentNumberSet "
           "{1,3,33,34}; DATA with inline QoS (1 parameter of 4 bytes), key and non-standard flags, 4-byte payload; DATA_FRAG "
           "with key flag and 4-byte payload; big-endian HEARTBEAT / ACKNACK decode; messages <= 64 bytes; unwind <= 64. "
           "thorough: GAP (numBits 0/41/64), INFO_TS (both flag values), DATA payload-only (5 bytes) and other DATA shapes "
           "(payload 0/8), remaining HEARTBEAT flag combinations, ACKNACK numBits 0/1/32/64/256, NACK_FRAG base 0xffffff00, "
           "DATA_FRAG with inline QoS",
    outside="payloads / submessages longer than 65 535 bytes: write_submessage_into_bytes truncates with `len as u16` "
            "(overall_structure.rs:273) without a check - not decided here (a 65 536-iteration byte-wise Vec::resize per "
            "message is not tractable); the UDP transport limits the fragment size to 65 000 (C38), so the truncation is only "
            "reachable with another transport whose fragment_size exceeds 65 515; parameter values longer than 32 767 bytes "
            "(`length as i16`) and values whose length is not a multiple of 4 (padded on the wire, decode to the padded "
            "value); a parameter id equal to PID_SENTINEL; messages with more than one submessage (covered for the parser "
            "under C06); INFO_REPLY (never built by dust-dds; its decoder is under C07); FragmentNumberSet with arbitrary "
            "bitmaps (decoder not tractable, see C07); SequenceNumberSet values with stray bits above numBits; big-endian "
            "decode of kinds other than HEARTBEAT / ACKNACK (all decoders share the same four endian-aware primitive "
            "readers, exercised for both byte orders under C07)",
    level_text="Bounded symbolic execution of the real encoder and decoders: all field values over their full machine domain "
               "for the stated shapes (flag combinations, set widths, payload sizes); nothing is sampled.",
    level_note="trusted: Kani/CBMC, the harness-side framing oracle (RTPS 2.x clause 9.4 offsets) and the 15-line big-endian writer",
    technique="Kani/CBMC proof harnesses on rtps_messages::overall_structure::{RtpsMessageWrite, RtpsMessageRead} and the submessage encoders / decoders",
    assumptions=[
        "parameter id != PID_SENTINEL, parameter value length a multiple of 4",
        "SequenceNumberSet / FragmentNumberSet values are those the real element decoders yield for images with bits >= numBits clear and bit numBits-1 set",
        "FragmentNumberSet base <= u32::MAX - 33 (no member overflows u32, cf. KF-C07-2)",
    ],
    timeout={"quick": 900, "thorough": 1800},
    mem_gb=12,
)

prop(
    "C06",
    ready=False,
    level="other",
    explanation=(
        "Decided per stage, because parsing a whole datagram of arbitrary bytes is not tractable (C07). "
        "(1) Dispatcher: a 28-byte datagram with an INFO_REPLY submessage goes through the real parser "
        "RtpsMessageRead::try_from and the real MessageReceiver::next - the pair DcpsDomainParticipant::handle_data runs on "
        "every datagram - and reaches todo!() (KF-C06-1). The sibling obligation (multi-submessage datagrams without "
        "INFO_REPLY: no panic, exactly the entity submessage yielded, interpreter state as carried) is written but did "
        "NOT finish within 900 s (thorough tier, undecided). "
        "(3) Fragment arithmetic: RtpsWriterProxy::push_data_frag + reconstruct_data_from_frag (total_fragments_expected) - "
        "the two calls RtpsStatefulReader::on_data_frag_submessage makes for an accepted fragment - for one DATA_FRAG with "
        "symbolic writerSN, fragmentStartingNum, fragmentsInSubmessage <= 1, fragmentSize >= 1, dataSize: no overflow, no "
        "division by zero, a DATA is only reconstructed from a fragment starting at 1; SequenceNumberSet::set() on sets "
        "decoded from arbitrary bytes (base <= i64::MAX - 256). "
        "(4) Allocation bounds of the element readers are asserted under C07 (numbers of decoded locators / parameters / set "
        "words bounded by the input length). "
        "(2) Per-handler steps on a real participant (INFO_REPLY and GAP through DcpsDomainParticipant::handle_data with a "
        "matched writer proxy on the built-in publications reader) exist as thorough-tier harnesses; they did not finish "
        "within 900 s on the shared machine and are NOT part of the quick verdict. "
        "Datagram-reachable defects recorded as known findings with __known/__rest splits: INFO_REPLY reaches todo!() "
        "(KF-C06-1, decided); DATA_FRAG with fragmentSize 0 divides by zero (KF-C06-3, decided); SequenceNumberSet::set() "
        "overflows for a base near i64::MAX (KF-C06-4, decided); NACK_FRAG numBits > 256 index out of bounds, "
        "FragmentNumberSet base overflow, zero-length CDR string in discovery data (KF-C07-1..3, decided); the GAP handler "
        "loops gapList.base - gapStart times, up to 2^63 (KF-C06-2: established by reading "
        "communication_methods.rs:584, harness in the thorough tier, not yet decided by the solver)."),
    bounds="datagrams of 28..60 bytes with concrete framing (submessage ids, flags, lengths) and symbolic values; writer proxy "
           "in its initial state with one DATA_FRAG (2-byte payload); sets of <= 8 bits; unwind 3..30",
    outside="arbitrary (not well-framed) datagram bytes through the whole parser (per-unit totality: C07); every handler of "
            "DcpsDomainParticipant::handle_data on a real participant (GAP, HEARTBEAT, ACKNACK, NACK_FRAG, HEARTBEAT_FRAG, DATA, "
            "DATA_FRAG with matched user readers / writers): the participant-level harnesses need > 900 s each on the shared "
            "machine, the protocol steps of these handlers are the subject of C01/C05; sequences of datagrams and pre-states "
            "other than the initial one; liveness of the API afterwards (follows from no panic / termination in the single "
            "worker; stated, not checked); discovery payload decoding and type-object assignability (execute the XTypes "
            "deserializer / DynamicData, not tractable); locator-to-socket-address conversion (needs the std UDP transport "
            "feature); total memory accounting",
    level_text="Bounded symbolic execution of the real receive-path units for the stated datagram shapes; not a proof for "
               "arbitrary datagrams and not a whole-participant result.",
    level_note="trusted: Kani/CBMC, the harness-side little-endian datagram writer (RTPS 2.x clause 9.4 offsets; that the real "
               "encoder produces these layouts is C08)",
    technique="Kani/CBMC proof harnesses on rtps_messages::overall_structure::RtpsMessageRead, rtps::message_receiver, rtps::writer_proxy (thorough: DcpsDomainParticipant::handle_data)",
    assumptions=[
        "NOT trigger KF-C06-3 / KF-C06-4 in the respective __rest obligations (the __rest sibling of KF-C06-1 is in the thorough tier, undecided)",
        "thorough tier only: critical_section::acquire/release stubbed; RtpsWriterProxy::irrelevant_change_set replaced by a call counter in c06_gap_range_loop__known",
    ],
    timeout={"quick": 900, "thorough": 1800},
    mem_gb=12,
)
