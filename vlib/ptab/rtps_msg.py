"""Property table: RTPS message family (C06 datagram robustness, C07 decoder totality, C08 round trip)."""
from ..props import prop

prop(
    "C07",
    level="other",
    explanation="draft",
    bounds="draft",
    outside="draft",
    level_text="draft",
    level_note="draft",
    technique="Kani/CBMC harnesses on the real decoders",
    assumptions=[],
)

prop(
    "C08",
    level="other",
    explanation="draft",
    bounds="draft",
    outside="draft",
    level_text="draft",
    level_note="draft",
    technique="Kani/CBMC harnesses on the real encoders/decoders",
    assumptions=[],
)

prop(
    "C06",
    level="other",
    explanation="draft",
    bounds="draft",
    outside="draft",
    level_text="draft",
    level_note="draft",
    technique="Kani/CBMC harnesses on the real receiver / reader code",
    assumptions=[],
)
