"""Property table: RTPS message family (C06 datagram robustness, C07 decoder totality, C08 round trip)."""
from ..props import prop

prop(
    "C07",
    ready=True,
    level="other",
    explanation=(
        "Decoder totality is decided per decoding unit by executing the real decoders symbolically (Kani/CBMC; panic, "
        "arithmetic-overflow, index and slice-bounds checks on). Fully symbolic bytes with a symbolic length and both "
        "endiannesses are used for: the submessage header (8 bytes); ACKNACK (32), GAP (36), HEARTBEAT, HEARTBEAT_FRAG, "
        "INFO_DST, INFO_SRC, INFO_TS, PAD (32), INFO_REPLY (32) with a fully symbolic submessage header; DATA (28) and "
        "DATA_FRAG (40) with the inline-QoS flag clear (flags octet enumerated, submessage_length / octetsToInlineQos / "
        "body symbolic); SequenceNumberSet (28), LocatorList (32); the CDR primitives of the discovery layer (28) and "
        "the discovery ParameterList::new / PidIterator / seek_to_pid / get_(non_)optional_parameter path (16 bytes, "
        "symbolic pid). Where a count or length is read from the wire the number of produced elements / bytes is asserted "
        "to be bounded by the input length. Three units are not tractable on fully symbolic bytes (measured): "
        "the RTPS ParameterList reader (8 symbolic bytes: 345 s / 5.4 GB, 12 bytes > 10 GB), hence DATA / DATA_FRAG with "
        "inline QoS; FragmentNumberSet (a Vec::with_capacity(256) filled by conditional pushes: 4 symbolic bits > 9 GB); "
        "String::cdr_deserialize (std UTF-8 validation over a symbolic-length buffer). For these the control fields "
        "(length fields, sentinel position, numBits / bitmap pattern, CDR string length, endianness, slice end) are "
        "enumerated concretely over every branch outcome of the parser - well-formed with 0..3 parameters, missing "
        "sentinel, length not a multiple of 4, length beyond the end, truncated header / value, empty region; numBits "
        "0/1/4/32/33/64 (thorough: 255/256); string length 0/1/3/exact/too long/0xffffffff - and all remaining bytes "
        "(ids, sequence numbers, parameter values, payload, set base) are symbolic; the verdict of every member is "
        "asserted exactly (decodes with the expected count / payload / consumed bytes, or is rejected). "
        "These checks found three defects - FragmentNumberSet numBits > 256 (index out of bounds), FragmentNumberSet base "
        "overflow, CDR string length 0 (length - 1 underflow) - and, through C06, the SequenceNumberSet member overflow and "
        "DATA_FRAG fragmentSize 0; all are repaired in /repo. The former trigger scenarios are now must-pass obligations "
        "asserting the rejection (Err), and the remaining obligations carry no negated-trigger assumption: nothing is suppressed."),
    bounds="quick: <= 44 symbolic bytes per unit (sizes per obligation in the evidence file), unwind 3..66; thorough: "
           "maximal 256-bit SequenceNumberSet / ACKNACK / GAP (44..60 bytes), INFO_REPLY 60 bytes, remaining flag octets and "
           "swapped endianness of the enumerated families, FragmentNumberSet numBits 255/256, ParameterList on 8 fully "
           "symbolic bytes, discovery get_locator_list on 32 fully symbolic bytes",
    outside="whole-message composition RtpsMessageRead::try_from on arbitrary bytes (not tractable: >1500 s for 36 bytes; the "
            "dispatcher is exercised on encoder-built messages under C06/C08); DATA / DATA_FRAG with the inline-QoS flag set "
            "and *arbitrary* length fields / octetsToInlineQos (only the enumerated family); FragmentNumberSet / NACK_FRAG with "
            "arbitrary bitmaps (concrete patterns only) and symbolic numBits; strings longer than 3 "
            "characters and std's UTF-8 validator (stubbed to accept, trusted); inputs longer than the per-unit byte bounds; "
            "user sample payloads and discovery *values* decoded through the XTypes deserializer / DynamicData (not tractable, "
            "see DESIGN section 6); memory accounting other than the element-count bounds asserted per unit; the DATA flag N and "
            "unused flag bits of DATA/DATA_FRAG (not read by the decoders' control flow) are 0 in the flag-enumerated harnesses",
    level_text="Bounded symbolic execution of the real decoders: every byte string up to the stated length (or every member of "
               "the stated image family with all non-control bytes symbolic) is covered; nothing is sampled. Not a proof for "
               "unbounded inputs.",
    level_note="trusted: Kani/CBMC, harness oracles, std UTF-8 validation (stubbed in the two String harnesses)",
    technique="Kani/CBMC proof harnesses on the real decoders (rtps_messages::*, dcps::data_representation_builtin_endpoints::rtps_data_representation)",
    assumptions=[
        "core::str::from_utf8 stubbed (accepts every byte string) in c07_discovery_string_zero_length_rejected and c07_cdr_string",
        "control fields of inline-QoS / FragmentNumberSet / String images taken from the enumerated families (listed per obligation)",
    ],
    timeout={"quick": 600, "thorough": 1500},
    mem_gb=12,
)

prop(
    "C08",
    ready=True,
    level="other",
    explanation=(
        "Per submessage kind (ACKNACK, GAP, HEARTBEAT, HEARTBEAT_FRAG, NACK_FRAG, INFO_TS, INFO_DST, INFO_SRC, PAD, DATA, "
        "DATA_FRAG) a value with symbolic fields is built, encoded by the real container RtpsMessageWrite::new "
        "(Cursor<Vec<u8>>, write_submessage_into_bytes with the back-patched octetsToNextHeader) and decoded again by the "
        "real decoders; asserted: the RTPS header bytes, the submessage id, the little-endian flag and the other flags, "
        "octetsToNextHeader == number of element bytes that follow, and equality of every field (sequence numbers over "
        "the full i64 range, sets with a symbolic bitmap at representative bases (i64::MIN, a base whose members cross the high/low word boundary, the largest admissible base), counts full i32, fragment fields full u16/u32 (fragmentSize >= 1), "
        "payload and parameter bytes). HEARTBEAT goes through the whole parser RtpsMessageRead::try_from; for the other "
        "kinds the two calls of the dispatcher arm (SubmessageHeaderRead::try_read_from_bytes + the kind's "
        "try_from_bytes) are applied to the encoded message, because a harness that reaches all twelve decoders spends "
        "minutes in result processing. Big-endian decode: HEARTBEAT and ACKNACK images written by a 15-line harness-side "
        "big-endian writer (flag E clear) decode through RtpsMessageRead::try_from to the values they were written from. "
        "Tractability devices, all semantic no-ops: flags are enumerated concretely; the bytes the parser branches on "
        "(protocol id, submessage id, flags, octetsToNextHeader, numBits, parameter length, sentinel) are first asserted "
        "to equal their expected constants and then re-written with those constants in a local copy of the message so "
        "that CBMC sees them as constants (the container's heap Vec is opaque to its constant propagation); "
        "SequenceNumberSet / FragmentNumberSet values are obtained from the real element decoders applied to "
        "harness-written images (bits >= numBits clear, highest bit set - the shape the constructors produce) because "
        "the constructors on a symbolic member list make every encoder length symbolic; the set base is concrete because "
        "the repaired decoder rejects sets reaching beyond i64::MAX and a symbolic base would merge that error path into "
        "the constructed value (numBits becomes symbolic for CBMC: > 12 GB)."),
    bounds="quick (10 obligations): HEARTBEAT (final set) through the whole parser; HEARTBEAT_FRAG, INFO_DST, INFO_SRC, PAD; "
           "INFO_TS (both flag values); ACKNACK with SequenceNumberSet numBits 34, symbolic bitmap, three bases; GAP numBits 41; "
           "NACK_FRAG with the concrete FragmentNumberSet {1,3,33,34}; DATA payload-only (5 bytes) and DATA with inline QoS "
           "(1 parameter of 4 bytes), key and non-standard flags, 4-byte payload; DATA_FRAG with key flag and 4-byte payload; "
           "big-endian HEARTBEAT / ACKNACK decode; messages <= 64 bytes; unwind <= 64. thorough: other DATA shapes (payload "
           "0/8), remaining HEARTBEAT flag combinations, ACKNACK numBits 0/1/32/64/256, GAP numBits 0/64, NACK_FRAG base "
           "0xffffff00, DATA_FRAG with inline QoS",
    outside="payloads / submessages longer than 65 535 bytes: write_submessage_into_bytes truncates with `len as u16` "
            "(overall_structure.rs:273) without a check - not decided here (a 65 536-iteration byte-wise Vec::resize per "
            "message is not tractable); the UDP transport limits the fragment size to 65 000 (C38), so the truncation is only "
            "reachable with another transport whose fragment_size exceeds 65 515; parameter values longer than 32 767 bytes "
            "(`length as i16`) and values whose length is not a multiple of 4 (padded on the wire, decode to the padded "
            "value); a parameter id equal to PID_SENTINEL; messages with more than one submessage (covered for the parser "
            "under C06); INFO_REPLY (never built by dust-dds; its decoder is under C07); FragmentNumberSet with arbitrary "
            "bitmaps (decoder not tractable, see C07); SequenceNumberSet values with stray bits above numBits; big-endian "
            "decode of kinds other than HEARTBEAT / ACKNACK (all decoders share the same four endian-aware primitive "
            "readers, exercised for both byte orders under C07)",
    level_text="Bounded symbolic execution of the real encoder and decoders: all field values over their full machine domain "
               "for the stated shapes (flag combinations, set widths, payload sizes); nothing is sampled.",
    level_note="trusted: Kani/CBMC, the harness-side framing oracle (RTPS 2.x clause 9.4 offsets) and the 15-line big-endian writer",
    technique="Kani/CBMC proof harnesses on rtps_messages::overall_structure::{RtpsMessageWrite, RtpsMessageRead} and the submessage encoders / decoders",
    assumptions=[
        "parameter id != PID_SENTINEL, parameter value length a multiple of 4",
        "SequenceNumberSet values are those the real element decoder yields for images with bits >= numBits clear and bit numBits-1 set, at concrete representative bases",
        "DATA_FRAG fragmentSize != 0 and set members within the number range (values outside are rejected by the decoders, C07)",
    ],
    timeout={"quick": 900, "thorough": 1800},
    mem_gb=12,
)

prop(
    "C06",
    ready=True,
    level="other",
    explanation=(
        "Decided per stage, because parsing a whole datagram of arbitrary bytes is not tractable (C07). "
        "(1) Dispatcher: well-formed datagrams [INFO_REPLY, HEARTBEAT_FRAG] and [INFO_SRC, INFO_REPLY] (datagrams starting with "
        "INFO_TS are undecided: the solver runs out of memory; those harnesses are kept in the file but parked, i.e. not run) "
        "with symbolic field values go through the real parser RtpsMessageRead::try_from and the real MessageReceiver "
        "until exhaustion - the pair DcpsDomainParticipant::handle_data runs on every datagram: no panic, exactly the "
        "entity submessage is yielded (also after an INFO_REPLY), the interpreter state (source prefix) is the "
        "one the submessages carry. "
        "(2) Per-handler steps: the operation handle_gap_submessage performs on the looked-up writer proxy "
        "(RtpsWriterProxy::irrelevant_change_range) for gapStart and gapList.base over the FULL i64 range, from the initial "
        "and from a symbolic pre-state: returns within the unwinding bound (no loop over the range any more), no panic, "
        "available_changes_max is base - 1 exactly when the range covers the next expected sequence number; the proxy "
        "arithmetic of the HEARTBEAT step (lost_changes_update / missing_changes_update / available_changes_max) for any "
        "lastSN and any firstSN > i64::MIN. The same steps through DcpsDomainParticipant::handle_data on a real participant "
        "(INFO_REPLY datagram, GAP from a matched writer) are written (thorough tier) but NOT decided: MessageReceiver "
        "yields a reference into a heap Vec, CBMC cannot resolve the submessage kind and explores every handler arm of "
        "handle_data (DATA, ACKNACK, ... with reply-message construction) on a symbolic submessage: > 900 s. A crate-visible "
        "wrapper for the private handle_gap_submessage / handle_heartbeat_submessage would make them decidable. "
        "(3) Number ranges and fragment arithmetic: SequenceNumberSet decoded from arbitrary bytes is rejected when its "
        "last member would exceed i64::MAX and set() iterates accepted sets without overflow; DATA_FRAG with "
        "fragmentSize 0 is rejected by the decoder; RtpsWriterProxy::push_data_frag + reconstruct_data_from_frag "
        "(total_fragments_expected) - the two calls on_data_frag_submessage makes for an accepted fragment - for one "
        "DATA_FRAG with symbolic writerSN, fragmentStartingNum, fragmentsInSubmessage <= 1, fragmentSize >= 1, dataSize: "
        "no overflow, no division by zero. "
        "(4) Allocation bounds of the element readers are asserted under C07. "
        "These checks found seven datagram-reachable defects (INFO_REPLY reaching todo!(), GAP loop of up to 2^63 "
        "iterations, DATA_FRAG fragmentSize 0 division by zero, SequenceNumberSet member overflow, NACK_FRAG numBits > 256 "
        "index out of bounds, FragmentNumberSet base overflow, zero-length CDR string in discovery data); all are "
        "repaired in /repo and the former trigger scenarios are now must-pass obligations - nothing is suppressed. One "
        "further defect is open and recorded with a __known/__rest split (KF-C06-5): a HEARTBEAT with firstSN = i64::MIN makes "
        "available_changes_max() compute first_available_seq_num - 1 (overflow panic in builds with overflow checks)."),
    bounds="datagrams of 52..60 bytes with concrete framing (submessage ids, flags, non-zero lengths) and symbolic values; "
           "one writer proxy; one datagram / step per "
           "obligation; sets of <= 8 bits for iteration; unwind 4..14 (participant harnesses: 4 plus the per-loop bounds below)",
    outside="arbitrary (not well-framed) datagram bytes through the whole parser (per-unit totality: C07); the HEARTBEAT, "
            "ACKNACK, NACK_FRAG, DATA and DATA_FRAG handlers on a participant with matched readers / writers (they build "
            "reply messages in the heap container and walk change lists; their protocol steps are the subject of C01/C05); "
            "sequences of datagrams and pre-states other than the initial one - in particular sequence numbers at i64::MAX "
            "reached through earlier datagrams (available_changes_max() + 1); zero-length submessages and datagrams "
            "longer than 60 bytes in the dispatcher obligations; liveness of the API afterwards (follows from no panic / "
            "termination in the single worker; stated, not checked); discovery payload decoding and type-object "
            "assignability (XTypes deserializer / DynamicData, not tractable); locator-to-socket-address conversion "
            "(needs the std UDP transport feature); total memory accounting",
    level_text="Bounded symbolic execution of the real receive path for the stated datagram shapes; termination is decided as "
               "'no unwinding assertion fails'. Not a proof for arbitrary datagrams.",
    level_note="trusted: Kani/CBMC, the harness-side little-endian datagram writer (RTPS 2.x clause 9.4 offsets; that the real "
               "encoder produces these layouts is C08), critical-section stubs in the participant harnesses",
    technique="Kani/CBMC proof harnesses on the parser + MessageReceiver pair that DcpsDomainParticipant::handle_data runs, rtps_messages::overall_structure::RtpsMessageRead, rtps::message_receiver, rtps::writer_proxy",
    assumptions=[
        "NOT trigger KF-C06-5 (firstSN > i64::MIN) in c06_heartbeat_arithmetic__rest; pre-state numbers within +-2^62 in c06_gap_range_proxy",
        "fragment_size != 0 in c06_data_frag_arithmetic (decoder invariant, asserted separately)",
        "thorough tier only: critical_section::acquire/release stubbed in the participant harnesses",
    ],
    timeout={"quick": 900, "thorough": 1800},
    mem_gb=12,
    cbmc_args=["--unwindset", "memcmp.0:17"],
    unwind_patterns=[
        (r"StatusMask as std::iter::FromIterator", 14),   # DcpsStatusCondition::default(): 13 status kinds
        (r"overflowing_pow", 8),
        (r"slice_contains|SliceContains", 8),
        (r"c06_datagrams::put_header", 14),                # harness-side 12-byte prefix copy
        (r"DcpsDomainParticipant::handle_", 7),              # handler loops over the 5 built-in stateful readers
    ],
)
