"""Property table: QoS matching / QoS validation / transport configuration / discovery framing (C13, C15, C37, C38)."""
from ..props import prop

prop(
    "C38",
    ready=True,
    level="other",
    explanation=(
        "Kani executes the real RtpsUdpTransportParticipantFactory::default(), set_fragment_size(a), set_fragment_size(b), "
        "fragment_size() with a and b symbolic over the full usize domain (the factory is a plain struct, no socket is "
        "opened before create_participant; the code is loop-free, so there is no unwinding bound). Oracle = the documented "
        "contract: Ok iff 8 <= argument <= 65000; Err is BadParameter and leaves fragment_size() unchanged; Ok stores the "
        "argument. The previous setting is 'any setting reachable by one earlier call'; the harness also asserts the "
        "representation invariant (stored value inside 8..=65000) before and after the step, which closes histories of any length."),
    bounds="none on values (a, b: full usize domain); histories: default() followed by at most two set_fragment_size calls",
    outside="create_participant (sockets, network interfaces) and the effect of the fragment size on the messages actually sent "
            "(covered by the fragmentation properties); histories longer than two calls are covered through the asserted invariant "
            "(stored setting in 8..=65000), which both calls re-establish",
    level_text="Loop-free integer code decided by Kani/CBMC over the full usize domain of both arguments; reported as level "
               "'other' (bounded model checker, history length 2).",
    level_note="trusted: Kani/CBMC. The defect found by this check (range test applied to the stored value) was repaired by "
               "fix commit b57fe17 and is recorded as 'fixed:' in known_findings.json; nothing is suppressed.",
    technique="Kani/CBMC symbolic execution of the real factory methods, full usize domain",
    assumptions=[],
    timeout={"quick": 300, "thorough": 600},
    mem_gb=8,
)

prop(
    "C15",
    level="other",
    explanation="(in progress)", bounds="", outside="", level_text="", level_note="", technique="", assumptions=[],
    timeout={"quick": 600, "thorough": 1200},
    mem_gb=8,
)

prop(
    "C37",
    level="other",
    explanation="(in progress)", bounds="", outside="", level_text="", level_note="", technique="", assumptions=[],
    timeout={"quick": 600, "thorough": 1200},
    mem_gb=8,
)

prop(
    "C13",
    level="other",
    explanation="(in progress)", bounds="", outside="", level_text="", level_note="", technique="", assumptions=[],
    timeout={"quick": 600, "thorough": 1200},
    mem_gb=8,
)
