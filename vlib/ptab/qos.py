"""Property table: QoS matching / QoS validation / transport configuration / discovery framing (C13, C15, C37, C38)."""
from ..props import prop

prop(
    "C38",
    ready=True,
    level="other",
    explanation=(
        "Kani executes the real RtpsUdpTransportParticipantFactory::default(), set_fragment_size(a), set_fragment_size(b), "
        "fragment_size() with a and b symbolic over the full usize domain (the factory is a plain struct, no socket is "
        "opened before create_participant; the code is loop-free, so there is no unwinding bound). Oracle = the documented "
        "contract: Ok iff 8 <= argument <= 65000; Err is BadParameter and leaves fragment_size() unchanged; Ok stores the "
        "argument. The previous setting is 'any setting reachable by one earlier call'; the harness also asserts the "
        "representation invariant (stored value inside 8..=65000) before and after the step, which closes histories of any length."),
    bounds="none on values (a, b: full usize domain); histories: default() followed by at most two set_fragment_size calls",
    outside="create_participant (sockets, network interfaces) and the effect of the fragment size on the messages actually sent "
            "(covered by the fragmentation properties); histories longer than two calls are covered through the asserted invariant "
            "(stored setting in 8..=65000), which both calls re-establish",
    level_text="Loop-free integer code decided by Kani/CBMC over the full usize domain of both arguments; reported as level "
               "'other' (bounded model checker, history length 2).",
    level_note="trusted: Kani/CBMC. The defect found by this check (range test applied to the stored value) was repaired by "
               "fix commit b57fe17 and is recorded as 'fixed:' in known_findings.json; nothing is suppressed.",
    technique="Kani/CBMC symbolic execution of the real factory methods, full usize domain",
    assumptions=[],
    timeout={"quick": 300, "thorough": 600},
    mem_gb=8,
)

prop(
    "C15",
    ready=True,
    level="other",
    explanation=(
        "Differential check of the two real compatibility functions get_discovered_reader_incompatible_qos_policy_list "
        "(writer side) and get_discovered_writer_incompatible_qos_policy_list (reader side), reached through the guarded "
        "crate-visible wrappers, against a reference table written from DDS 1.4 2.2.3 / XTypes 1.3 7.6.3.1: Kani executes both "
        "functions on the SAME symbolic (writer QoS, publisher QoS, reader QoS, subscriber QoS) and asserts (a) incompatible per "
        "the table <=> non-empty list, the list names exactly the offending policy ids, no foreign id, no duplicate; (b) both "
        "sides return the same verdict and the same id set. The nine request/offered policies are covered in four quick groups "
        "that are symbolic together (durability+deadline+latency budget; liveliness kind+lease with presentation "
        "scope/coherent/ordered; reliability+destination order+ownership; data representation lists with length pairs "
        "(0,0),(1,0),(0,1),(1,2),(2,1) - the other four pairs of 0..2 x 0..2 in the thorough tier) and two thorough cross-group "
        "obligations with four policies at once. The full oracle is asserted everywhere; two focused regression obligations "
        "(c15_liveliness_lease, c15_presentation_flags) additionally cover the regions of the two defects these checks found."),
    bounds="no bound on scalar domains: all kinds of every policy on both sides; deadline, latency budget, liveliness lease = Infinite or "
           "Finite(any i32 sec, any nanosec < 10^9) on both sides; representation lists of length 0..2 with any u16 ids; at most 4 policies "
           "symbolic in one obligation (the rest at their defaults); unwind 10 (result list of at most 9 ids)",
    outside="topic-name / type-name equality, type assignability (DynamicType / TypeInformation comparison) and partition matching "
            "(fnmatch_to_regex output is interpreted by the regex crate: loops over input, not encodable) - i.e. the 'if and only if' of the "
            "property is decided for the RxO-QoS conjunct only; all nine policies symbolic at once (measured: > 16 GB in CBMC, every symbolic "
            "policy adds a conditional Vec::push whose realloc path stays feasible) - the functions test each policy in an independent `if`, "
            "groups of 3-4 are covered; the matched / incompatible-QoS status bookkeeping (C16/C33); durations with nanosec >= 10^9 "
            "(unreachable through Duration::new)",
    level_text="Bounded model checking (Kani/CBMC) of the real matching functions against a reference table; scalar domains are complete, "
               "the bound is the grouping of policies and list length <= 2; level 'other'.",
    level_note="trusted: Kani/CBMC, the 20-line reference table in c15_matching.rs (cites the DDS clauses). These checks found two defects, "
               "both repaired in /repo and recorded as 'fixed:' in known_findings.json: KF-C15-1 (liveliness lease compared through the derived "
               "lexicographic PartialOrd; fix 396d539) and KF-C15-2 (presentation coherent/ordered compared with !=; fix 2511071). Nothing is "
               "suppressed: every obligation asserts the complete table.",
    technique="Kani/CBMC symbolic execution of both real compatibility functions on one symbolic QoS quadruple, compared with a DDS-table oracle",
    assumptions=["nanosec < 10^9 for finite durations (Duration::new normalizes)",
                 "policies outside the symbolic group of an obligation are at their default values"],
    timeout={"quick": 900, "thorough": 2400},
    mem_gb=8,
)

prop(
    "C37",
    ready=True,
    level="other",
    explanation=(
        "(K) The real DataWriterQos / DataReaderQos / TopicQos::is_consistent are executed with every scalar policy symbolic and "
        "compared with the DDS 1.4 2.2.3 consistency rules (max_samples >= max_samples_per_instance, KEEP_LAST depth <= "
        "max_samples_per_instance, LENGTH_UNLIMITED above every limit, reader deadline >= time-based-filter minimum_separation, "
        "a writer offers at most one data representation): Ok exactly for consistent values, otherwise Err(InconsistentPolicy); "
        "totality (no panic) over the full i32 range of the limits. The real DataWriterQos / DataReaderQos / "
        "SubscriberQos / PublisherQos::check_immutability are executed on two arbitrary QoS values: ImmutablePolicy whenever a Changeable=NO "
        "policy differs, Ok when only changeable policies differ. (A) On a real DcpsDomainParticipant (real constructor, real "
        "create_topic / create_user_defined_publisher / create_user_defined_subscriber) one real set_topic_qos / set_subscriber_qos / "
        "set_publisher_qos / set_default_topic_qos / create_topic with symbolic QoS and symbolic enabled flag: Ok exactly when the "
        "reference model accepts; Err is InconsistentPolicy / ImmutablePolicy and the stored QoS is the previous one; Ok stores the "
        "argument; get_topic_qos returns the stored QoS for any stored scalar policies. create_topic: Ok exactly for a consistent "
        "specific QoS, otherwise InconsistentPolicy and no topic is created."),
    bounds="QoS scalars complete (all kinds, durations Infinite / Finite(any i32, nanosec < 10^9), history KEEP_ALL / KEEP_LAST(any u32), limits "
           "Unlimited / Limited(any i32 >= 0) for the exact oracle and any i32 for totality); representation lists 0..2 in the kernels, empty in "
           "the participant obligations; one participant with one topic / publisher / subscriber; one set/create operation per obligation "
           "from the default previous QoS (two arbitrary QoS values in the check_immutability kernels); unwind 18",
    outside="set_data_writer_qos / set_data_reader_qos (and writer/reader creation) on a participant: any access to the writer/reader entity "
            "stored in the vector inside the heap-allocated publisher/subscriber entity exhausts 10 GB in CBMC even with concrete inputs "
            "(measured; create_data_writer additionally recurses through TopicKind::from: > 800 s) - their ingredients is_consistent and "
            "check_immutability are decided as kernels, the 6-line glue (order of the checks, assignment after them) is not executed; "
            "get_publisher_qos / get_subscriber_qos with symbolic stored QoS (clone of partition Vec<String> out of the heap entity: > 8 GB) - "
            "the setters are observed through the stored field; 'announced to remote participants' (XTypes serializer / DynamicData); "
            "sequence-valued policies (user/topic/group data, partition names); meaning of negative Limited(n) limits (not defined by DDS; "
            "dust-dds treats Limited(-1) as a huge bound in the depth rule but as -1 in the max_samples rule - observation, not asserted); "
            "whether DATA_REPRESENTATION / TYPE_CONSISTENCY_ENFORCEMENT are immutable (XTypes says Changeable=NO, dust-dds accepts the "
            "change on enabled readers/writers; the oracle leaves it free)",
    level_text="Bounded model checking (Kani/CBMC): loop-free validation kernels over complete scalar domains plus one real operation on a "
               "real participant aggregate; level 'other'.",
    level_note="trusted: Kani/CBMC; reference model in support_qos.rs (DDS 2.2.3 rules, Changeable column); stubs TypeInformation::from and "
               "alloc::fmt::format in the topic obligations (values not read by the QoS operations). These checks found two defects, both "
               "repaired in /repo and recorded as 'fixed:' in known_findings.json: KF-C37-1 (set_publisher_qos had no immutability check for "
               "PRESENTATION; fix 304fddb) and KF-C37-2 (create_topic did not check the consistency of a specific QoS; fix f1ee1de); nothing "
               "is suppressed. The claim covers topics, publishers, subscribers and the validation kernels; writer/reader setters are outside (measured reason).",
    technique="Kani/CBMC symbolic execution of the real QoS validation functions and of one real set_qos/create operation on a real participant",
    assumptions=["Limited(n) resource limits have n >= 0 for the exact consistency oracle",
                 "enabled flag (and previous presentation for publisher/subscriber) written directly into the entity before the operation",
                 "stubs: TypeInformation::from(DynamicType) returns a fixed value; alloc::fmt::format returns an empty string (topic obligations)",
                 "critical-section acquire/release are no-ops (sequential execution)"],
    timeout={"quick": 900, "thorough": 2400},
    mem_gb=8,
    cbmc_args=["--unwindset", "memcmp.0:17"],
    unwind_patterns=[
        (r"StatusMask as std::iter::FromIterator", 14),   # DcpsStatusCondition::default(): 13 status kinds
        (r"overflowing_pow", 8),
        (r"slice_contains|SliceContains", 8),
    ],
)

prop(
    "C13",
    ready=True,
    level="other",
    explanation=(
        "Reduced obligation: the FRAMING layer of the discovery parameter lists only. The real encoder "
        "ParameterListSerializer::{write_header, write_cdr_parameter(pid, &[u8]), write_sentinel} - the call in which "
        "write_xcdr1_parameter / write_xcdr2_parameter end - is executed with symbolic parameter ids and value bytes and its output is "
        "compared byte for byte with RTPS 2.4 9.4.2.11 (header 00 03 00 00; id LE; length LE = value length rounded up to 4; value; zero "
        "padding; sentinel 01 00 00 00) for every value length 0..8 and a list of three parameters; the produced bytes are then read by "
        "the real decoder ParameterList::{new, get_optional_parameter, get_non_optional_parameter} (seek_to_pid / PidIterator) for ANY "
        "looked-up id: the first parameter with that id is returned with exactly its bytes plus padding, parameters with other ids "
        "(unknown, PID_PAD, vendor-specific) before and after it are skipped, an absent id yields the default / PidNotFound. A hand-built "
        "big-endian list is decoded for ANY written and looked-up id, including PID_PARTICIPANT_LEASE_DURATION = 0x0002, the value "
        "the big-endian encapsulation header would read as (the defect found here, KF-C13-2, is repaired)."),
    bounds="value lengths 0..8 bytes (concrete per case), bytes symbolic; ids any i16 except 1 (sentinel); lists of 1 parameter (length 3) and 3 "
           "parameters (lengths 0,3,8; thorough also 6,4,1 and the empty list) for the decoder; looked-up id any i16 except 1; "
           "unwind 5..11",
    outside="ALL values: QoS, locators, type information, strings and octet sequences are serialized through DynamicData / the XTypes "
            "serializer, which CBMC cannot execute (DESIGN.md section 2) - the property's 'decodes back to the data that was announced' is "
            "NOT claimed, only that the framing layer carries raw value bytes unchanged; values longer than 8 bytes and in particular the "
            "> 65535-byte case named by the property (CBMC crashes / exceeds 600 s on a 64 KiB buffer, measured). Observation from code reading, "
            "NOT decided by any check: write_cdr_parameter stores `(padded value length) as u16` "
            "(rtps_data_representation_serialization.rs:47), so a value longer than 65532 bytes would be announced with a wrapped length "
            "field; symbolic value lengths (make every later write's realloc path feasible: 1.4 M steps, > 10 GB for two parameters); "
            "get_locator_list",
    level_text="Bounded model checking (Kani/CBMC) of the real parameter-list encoder against the real decoder at framing level; "
               "a deliberately reduced claim; level 'other'.",
    level_note="trusted: Kani/CBMC and the RTPS 9.4.2.11 layout written in c13_framing.rs. This is the framing-only obligation announced in "
               "DESIGN.md section 5; it does not establish the value round trip of C13. These checks found KF-C13-2 (PidIterator parsed the "
               "encapsulation header as a parameter, so big-endian lists lost PID_PARTICIPANT_LEASE_DURATION), repaired in /repo (fix d2848ed) "
               "and recorded as 'fixed:' in known_findings.json; nothing is suppressed.",
    technique="Kani/CBMC symbolic execution of the real ParameterListSerializer feeding the real ParameterList/PidIterator",
    assumptions=["output buffer created with capacity 64 (no reallocation while writing; capacity is not observable by the serializer)",
                 "value lengths are concrete per case (0..8)"],
    timeout={"quick": 900, "thorough": 2400},
    mem_gb=8,
)
