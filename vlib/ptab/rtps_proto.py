"""Property table: RTPS reliability protocol family (C01, C02, C04, C05). Texts are finalised below."""
from ..props import prop

_TECH = ("Kani/CBMC symbolic execution of the real RTPS objects (RtpsStatefulWriter, RtpsReaderProxy, "
         "RtpsStatefulReader, RtpsWriterProxy, CacheChange fragmenting, RtpsMessageRead::try_from, MessageReceiver): "
         "one real step from a symbolic pre-state, or one writer->datagrams->reader round")

# Per-loop unwinding bounds for two library loops whose trip count is a byte count, not a protocol bound:
#  * memcmp.0 - CBMC's builtin memcmp ([u8;12] GuidPrefix / [u8;16] key hash equality): 16 bytes + exit test,
#  * Vec<u8>::extend_with - Vec::resize in rtps_messages::overall_structure::Cursor::write_all (largest chunk:
#    4-byte submessage header gap + 12-byte prefix of INFO_DST = 16 bytes).
# The harness attribute #[kani::unwind(n)] bounds every other loop by the protocol-level sizes stated in @bounds.
# Unwinding assertions stay on for all loops: if a label no longer matches, the run is reported as inconclusive.
_EXTEND_WITH = "_RNvMs4_NtCs6xMQmN1AWUs_5alloc3vecINtB5_3VechE11extend_withCs36Lg0Iv5OGD_8dust_dds.0"
_POW = "_RNvMs7_NtCs8xvirJzNMvV_4core3numy15overflowing_powCs36Lg0Iv5OGD_8dust_dds"
# Loops of RtpsReaderProxy::write_message_reliable<Sent, FixedClock> (dds/src/rtps/stateful_writer.rs): .0 = the
# per-fragment loop (line 461), .1 = `while let Some(next_unsent_change)` (line 425), .2 = `while let
# Some(next_requested_change)` (line 575). The writer history lives in a Vec heap buffer, so their trip counts are
# opaque to symbolic execution and each unwinding multiplies the dozen datagram construction sites of that function;
# they are bounded by the protocol-level sizes of the harnesses (no fragmented change in the writer-repair/durability
# harnesses, <= 2 unsent changes, <= 3 requested changes). Unwinding assertions stay on.
_WMR = ("_RINvMs_NtNtCs36Lg0Iv5OGD_8dust_dds4rtps15stateful_writerNtNtB7_12reader_proxy15RtpsReaderProxy22write_message_reliable"
        "NtNtNtB9_26s2e_systems_dust_dds_verif12support_rtps4SentNtB1U_10FixedClockEB9_")
def _cbmc(frag, unsent, requested):
    return ["--unwindset", "memcmp.0:17,%s:18,%s.0:7,%s.1:7,%s.0:%d,%s.1:%d,%s.2:%d"
            % (_EXTEND_WITH, _POW, _POW, _WMR, frag, _WMR, unsent, _WMR, requested)]


_CBMC = _cbmc(1, 3, 4)
_CBMC_C04 = _cbmc(1, 2, 1)  # one retained change, nothing requested: 1 unsent iteration, requested loop not entered

prop("C01", level="other", explanation="placeholder", bounds="", outside="", level_text="", level_note="",
     technique=_TECH, assumptions=[], cbmc_args=_CBMC)
prop("C02", level="other", explanation="placeholder", bounds="", outside="", level_text="", level_note="",
     technique=_TECH, assumptions=[], cbmc_args=_CBMC)
prop("C04", level="other", explanation="placeholder", bounds="", outside="", level_text="", level_note="",
     technique=_TECH, assumptions=[], cbmc_args=_CBMC_C04)
prop("C05", level="other", explanation="placeholder", bounds="", outside="", level_text="", level_note="",
     technique=_TECH, assumptions=[], cbmc_args=_CBMC)
