"""Property table: RTPS reliability protocol family (C01, C02, C04, C05). Texts are finalised below."""
import os
import re

from ..common import REPO
from ..props import prop

_TECH = ("Kani/CBMC symbolic execution of the real RTPS objects (RtpsStatefulWriter, RtpsReaderProxy, "
         "RtpsStatefulReader, RtpsWriterProxy, CacheChange fragmenting, RtpsMessageRead::try_from, MessageReceiver): "
         "one real step from a symbolic pre-state, or one writer->datagrams->reader round")

# Per-loop unwinding bounds for two library loops whose trip count is a byte count, not a protocol bound:
#  * memcmp.0 - CBMC's builtin memcmp ([u8;12] GuidPrefix / [u8;16] key hash equality): 16 bytes + exit test,
#  * Vec<u8>::extend_with - Vec::resize in rtps_messages::overall_structure::Cursor::write_all (largest chunk:
#    4-byte submessage header gap + 12-byte prefix of INFO_DST = 16 bytes).
# The harness attribute #[kani::unwind(n)] bounds every other loop by the protocol-level sizes stated in @bounds.
# Unwinding assertions stay on for all loops: if a label no longer matches, the run is reported as inconclusive.
_EXTEND_WITH = "_RNvMs4_NtCs6xMQmN1AWUs_5alloc3vecINtB5_3VechE11extend_withCs36Lg0Iv5OGD_8dust_dds.0"
_POW = "_RNvMs7_NtCs8xvirJzNMvV_4core3numy15overflowing_powCs36Lg0Iv5OGD_8dust_dds"
# Loops of RtpsReaderProxy::write_message_reliable<Sent, FixedClock> (dds/src/rtps/stateful_writer.rs): .0 = the
# per-fragment loop (line 461), .1 = `while let Some(next_unsent_change)` (line 425), .2 = `while let
# Some(next_requested_change)` (line 575). The writer history lives in a Vec heap buffer, so their trip counts are
# opaque to symbolic execution and each unwinding multiplies the dozen datagram construction sites of that function;
# they are bounded by the protocol-level sizes of the harnesses (no fragmented change in the writer-repair/durability
# harnesses, <= 2 unsent changes, <= 3 requested changes). Unwinding assertions stay on.
_WMR = ("_RINvMs_NtNtCs36Lg0Iv5OGD_8dust_dds4rtps15stateful_writerNtNtB7_12reader_proxy15RtpsReaderProxy22write_message_reliable"
        "NtNtNtB9_26s2e_systems_dust_dds_verif12support_rtps4SentNtB1U_10FixedClockEB9_")
# The two loops of write_message_best_effort<Sent>: the harnesses of this family only match RELIABLE reader proxies to a
# writer, but `match self.reliability()` reads the proxy from a Vec heap buffer and symbolic execution explores both arms.
# Bound 1 = "loop body must be unreachable" (checked by the unwinding assertion, which is on).
_WMB = ("_RINvMs_NtNtCs36Lg0Iv5OGD_8dust_dds4rtps15stateful_writerNtNtB7_12reader_proxy15RtpsReaderProxy25write_message_best_effort"
        "NtNtNtB9_26s2e_systems_dust_dds_verif12support_rtps4SentEB9_")


def _cbmc(frag, unsent, requested):
    return ["--unwindset", "memcmp.0:17,%s:18,%s.0:7,%s.1:7,%s.0:%d,%s.1:%d,%s.2:%d,%s.0:1,%s.1:1"
            % (_EXTEND_WITH, _POW, _POW, _WMR, frag, _WMR, unsent, _WMR, requested, _WMB, _WMB)]


_TMO = {"quick": 1500, "thorough": 2400}  # per harness; measured 30-640 s each on the shared, loaded machine
_CBMC = _cbmc(1, 3, 4)
_CBMC_C04 = _cbmc(1, 2, 1)  # one retained change, nothing requested: 1 unsent iteration, requested loop not entered


# ---- source guard: support_rtps::glue_* replicate private glue of communication_methods.rs ----------------------------
_CM = "dds/src/dcps/dcps_domain_participant/communication_methods.rs"
_HB_NEEDLES = [
    "ifwriter_proxy.last_received_heartbeat_count()<heartbeat_submessage.count(){",
    "writer_proxy.set_last_received_heartbeat_count(heartbeat_submessage.count());",
    "writer_proxy.missing_changes_update(heartbeat_submessage.last_sn());",
    "writer_proxy.lost_changes_update(heartbeat_submessage.first_sn());",
    "letmust_send_acknacks=!heartbeat_submessage.final_flag()||(!heartbeat_submessage.liveliness_flag()&&writer_proxy.missing_changes().count()>0);",
    "writer_proxy.set_must_send_acknacks(must_send_acknacks);",
    "writer_proxy.write_message(&reader_guid,self.transport.message_writer.as_ref());",
]
_GAP_NEEDLES = [
    "forseq_numingap_submessage.gap_start()..gap_submessage.gap_list().base(){writer_proxy.irrelevant_change_set(seq_num)}",
    "forseq_numingap_submessage.gap_list().set(){writer_proxy.irrelevant_change_set(seq_num)}",
]


def _fn_text(src, name):
    m = re.search(r"fn %s\b" % name, src)
    if not m:
        return None
    i = src.index("{", m.end())
    depth, j = 0, i
    while j < len(src):
        if src[j] == "{":
            depth += 1
        elif src[j] == "}":
            depth -= 1
            if depth == 0:
                break
        j += 1
    return re.sub(r"\s+", "", src[i:j + 1])


def _glue_guard():
    """The statements support_rtps::glue_heartbeat_proxy / glue_gap_proxy replicate must still be the statements the
    private functions handle_heartbeat_submessage / handle_gap_submessage execute on a writer proxy, in this order, and
    those functions must not touch the writer proxy in any other way."""
    try:
        with open(os.path.join(REPO, _CM)) as f:
            src = f.read()
    except OSError as e:
        return False, "cannot read %s: %s" % (_CM, e)
    hb = _fn_text(src, "handle_heartbeat_submessage")
    gap = _fn_text(src, "handle_gap_submessage")
    if hb is None or gap is None:
        return False, "handle_heartbeat_submessage / handle_gap_submessage not found in %s" % _CM
    # the heartbeat glue appears twice (user readers, built-in readers): both copies must match
    pos = 0
    for rep in range(2):
        for n in _HB_NEEDLES:
            k = hb.find(n, pos)
            if k < 0:
                return False, "handle_heartbeat_submessage: statement %r (copy %d) not found in order" % (n, rep + 1)
            pos = k + len(n)
    if hb.count("writer_proxy.") != 2 * 7:
        return False, "handle_heartbeat_submessage uses writer_proxy %d times, the replica covers 14" % hb.count("writer_proxy.")
    pos = 0
    for n in _GAP_NEEDLES:
        k = gap.find(n, pos)
        if k < 0:
            return False, "handle_gap_submessage: statement %r not found in order" % n
        pos = k + len(n)
    if gap.count("writer_proxy.") != 2:
        return False, "handle_gap_submessage uses writer_proxy %d times, the replica covers 2" % gap.count("writer_proxy.")
    return True, "glue statements of %s match support_rtps::glue_heartbeat_proxy / glue_gap_proxy" % _CM


prop("C01", level="other", explanation="placeholder", bounds="", outside="", level_text="", level_note="",
     technique=_TECH, assumptions=[], cbmc_args=_CBMC, timeout=_TMO, guards=[_glue_guard])
prop("C02", level="other", explanation="placeholder", bounds="", outside="", level_text="", level_note="",
     technique=_TECH, assumptions=[], cbmc_args=_CBMC, timeout=_TMO, guards=[_glue_guard])
prop("C04", level="other", explanation="placeholder", bounds="", outside="", level_text="", level_note="",
     technique=_TECH, assumptions=[], cbmc_args=_CBMC_C04, timeout=_TMO, guards=[_glue_guard])
prop("C05", level="other", explanation="placeholder", bounds="", outside="", level_text="", level_note="",
     technique=_TECH, assumptions=[], cbmc_args=_CBMC, timeout=_TMO, guards=[_glue_guard])
