"""Property table: RTPS reliability protocol family (C01, C02, C04, C05)."""
import os
import re

from ..common import REPO
from ..props import prop

_TECH = ("Kani/CBMC symbolic execution of the real RTPS objects (RtpsStatefulReader, RtpsWriterProxy, RtpsStatefulWriter, "
         "CacheChange fragmenting, the real submessage encoders): one real operation from a symbolic pre-state, property as "
         "assert!, decided for all values within the stated bounds")

_COMMON_NOTE = ("trusted: Kani 0.68/CBMC 6.11; harness pre-state constructors (public operations of the objects only); for harnesses "
                "that look at emitted datagrams: support_rtps::from_submessages_staged replaces the datagram container "
                "RtpsMessageWrite::from_submessages (Cursor<Vec<u8>> with length back-patching, C08's subject) by a fixed-capacity "
                "staging buffer - the per-submessage header and element encoders executed are the real ones - and fields are read "
                "at their RTPS 2.4 clause 9.4.5 wire offsets (short reference oracle); critical-section acquire/release no-op stubs; "
                "per-loop unwinding bounds (--unwindset) for byte-count library loops, unwinding assertions on everywhere. "
                "Measured limits that shaped the scope: reader/writer proxies live in Vec heap buffers whose contents are opaque to "
                "CBMC's constant propagation, so every loop over history / fragment buffer is unrolled to the bound and every "
                "datagram construction site is explored: RtpsReaderProxy::write_message_reliable (12 construction sites) needs "
                "590 s of symbolic execution and then exceeds 12 GB; fragment reassembly (reconstruct_data_from_frag, symbolic-size "
                "Vec<u8>/Arc<[u8]> copies) exceeds 12 GB after 100-185 s even for one concrete 2-fragment scenario.")


# Per-loop unwinding bounds for two library loops whose trip count is a byte count, not a protocol bound:
#  * memcmp.0 - CBMC's builtin memcmp ([u8;12] GuidPrefix / [u8;16] key hash equality): 16 bytes + exit test,
#  * Vec<u8>::extend_with - Vec::resize in rtps_messages::overall_structure::Cursor::write_all (largest chunk:
#    4-byte submessage header gap + 12-byte prefix of INFO_DST = 16 bytes).
# The harness attribute #[kani::unwind(n)] bounds every other loop by the protocol-level sizes stated in @bounds.
# Unwinding assertions stay on for all loops: if a label no longer matches, the run is reported as inconclusive.
_EXTEND_WITH = "_RNvMs4_NtCs6xMQmN1AWUs_5alloc3vecINtB5_3VechE11extend_withCs36Lg0Iv5OGD_8dust_dds.0"
_POW = "_RNvMs7_NtCs8xvirJzNMvV_4core3numy15overflowing_powCs36Lg0Iv5OGD_8dust_dds"
# Loops of RtpsReaderProxy::write_message_reliable<Sent, FixedClock> (dds/src/rtps/stateful_writer.rs): .0 = the
# per-fragment loop (line 461), .1 = `while let Some(next_unsent_change)` (line 425), .2 = `while let
# Some(next_requested_change)` (line 575). The writer history lives in a Vec heap buffer, so their trip counts are
# opaque to symbolic execution and each unwinding multiplies the dozen datagram construction sites of that function;
# they are bounded by the protocol-level sizes of the harnesses (no fragmented change in the writer-repair/durability
# harnesses, <= 2 unsent changes, <= 3 requested changes). Unwinding assertions stay on.
_WMR = ("_RINvMs_NtNtCs36Lg0Iv5OGD_8dust_dds4rtps15stateful_writerNtNtB7_12reader_proxy15RtpsReaderProxy22write_message_reliable"
        "NtNtNtB9_26s2e_systems_dust_dds_verif12support_rtps4SentNtB1U_10FixedClockEB9_")
# The two loops of write_message_best_effort<Sent>: the harnesses of this family only match RELIABLE reader proxies to a
# writer, but `match self.reliability()` reads the proxy from a Vec heap buffer and symbolic execution explores both arms.
# Bound 1 = "loop body must be unreachable" (checked by the unwinding assertion, which is on).
_WMB = ("_RINvMs_NtNtCs36Lg0Iv5OGD_8dust_dds4rtps15stateful_writerNtNtB7_12reader_proxy15RtpsReaderProxy25write_message_best_effort"
        "NtNtNtB9_26s2e_systems_dust_dds_verif12support_rtps4SentEB9_")


# drop_glue::<[Parameter]>: dropping a DataFragSubmessage (Vec::retain on frag_buffer) drops its inline-QoS parameter
# list, whose length is opaque in a heap buffer. Every fragment the harnesses buffer is produced by
# CacheChange::as_data_frag_submessage, which attaches an EMPTY list; bound 2 allows one parameter and the
# unwinding assertion reports anything longer.
_DROP_PARAMS = "_RINvNtCs8xvirJzNMvV_4core3ptr9drop_glueSNtNtNtCs36Lg0Iv5OGD_8dust_dds13rtps_messages19submessage_elements9ParameterEBI_.0"


def _cbmc(frag, unsent, requested):
    return ["--unwindset", "memcmp.0:17,%s:18,%s.0:7,%s.1:7,%s.0:%d,%s.1:%d,%s.2:%d,%s.0:1,%s.1:1,%s:2"
            % (_EXTEND_WITH, _POW, _POW, _WMR, frag, _WMR, unsent, _WMR, requested, _WMB, _WMB, _DROP_PARAMS)]


_TMO = {"quick": 1500, "thorough": 2400}  # per harness; measured 4-220 s each (load avg ~13), 3-5x more when the machine is saturated
_CBMC = _cbmc(1, 3, 4)
_CBMC_C04 = _cbmc(1, 2, 1)  # one retained change, nothing requested: 1 unsent iteration, requested loop not entered


# ---- source guard: support_rtps::glue_* replicate private glue of communication_methods.rs ----------------------------
_CM = "dds/src/dcps/dcps_domain_participant/communication_methods.rs"
_HB_NEEDLES = [
    "ifwriter_proxy.last_received_heartbeat_count()<heartbeat_submessage.count(){",
    "writer_proxy.set_last_received_heartbeat_count(heartbeat_submessage.count());",
    "writer_proxy.missing_changes_update(heartbeat_submessage.last_sn());",
    "writer_proxy.lost_changes_update(heartbeat_submessage.first_sn());",
    "letmust_send_acknacks=!heartbeat_submessage.final_flag()||(!heartbeat_submessage.liveliness_flag()&&writer_proxy.missing_changes().count()>0);",
    "writer_proxy.set_must_send_acknacks(must_send_acknacks);",
    "writer_proxy.write_message(&reader_guid,self.transport.message_writer.as_ref());",
]
_GAP_NEEDLES = [
    "writer_proxy.irrelevant_change_range(gap_submessage.gap_start(),gap_submessage.gap_list().base(),);",
    "forseq_numingap_submessage.gap_list().set(){writer_proxy.irrelevant_change_set(seq_num)}",
]


def _fn_text(src, name):
    m = re.search(r"fn %s\b" % name, src)
    if not m:
        return None
    i = src.index("{", m.end())
    depth, j = 0, i
    while j < len(src):
        if src[j] == "{":
            depth += 1
        elif src[j] == "}":
            depth -= 1
            if depth == 0:
                break
        j += 1
    return re.sub(r"\s+", "", src[i:j + 1])


def _glue_guard():
    """The statements support_rtps::glue_heartbeat_proxy / glue_gap_proxy replicate must still be the statements the
    private functions handle_heartbeat_submessage / handle_gap_submessage execute on a writer proxy, in this order, and
    those functions must not touch the writer proxy in any other way."""
    try:
        with open(os.path.join(REPO, _CM)) as f:
            src = f.read()
    except OSError as e:
        return False, "cannot read %s: %s" % (_CM, e)
    hb = _fn_text(src, "handle_heartbeat_submessage")
    gap = _fn_text(src, "handle_gap_submessage")
    if hb is None or gap is None:
        return False, "handle_heartbeat_submessage / handle_gap_submessage not found in %s" % _CM
    # the heartbeat glue appears twice (user readers, built-in readers): both copies must match
    pos = 0
    for rep in range(2):
        for n in _HB_NEEDLES:
            k = hb.find(n, pos)
            if k < 0:
                return False, "handle_heartbeat_submessage: statement %r (copy %d) not found in order" % (n, rep + 1)
            pos = k + len(n)
    if hb.count("writer_proxy.") != 2 * 7:
        return False, "handle_heartbeat_submessage uses writer_proxy %d times, the replica covers 14" % hb.count("writer_proxy.")
    pos = 0
    for n in _GAP_NEEDLES:
        k = gap.find(n, pos)
        if k < 0:
            return False, "handle_gap_submessage: statement %r not found in order" % n
        pos = k + len(n)
    if gap.count("writer_proxy.") != 2:
        return False, "handle_gap_submessage uses writer_proxy %d times, the replica covers 2" % gap.count("writer_proxy.")
    return True, "glue statements of %s match support_rtps::glue_heartbeat_proxy / glue_gap_proxy" % _CM


prop("C01", ready=True, level="other",
     explanation=(
         "Assume/guarantee chain of one-step obligations on the real reader-side objects, each decided by Kani for all values in its "
         "bounds: (1) safety step - for every writer-proxy state and EVERY incoming DATA sequence number (full i64) a reliable "
         "RtpsStatefulReader appends a change iff it is the next expected one from the matched writer, intact (sn, writer, kind, key "
         "hash, payload), and nothing otherwise - by induction exactly-once, in order, intact under any loss/duplication/reordering; "
         "(2) kernel - missing_changes()/available_changes_max() are exactly max(first,highest+1)..=last / max(first-1,highest) over "
         "full i64; (3) request step - after a fresh HEARTBEAT the emitted ACKNACK has base = available_changes_max+1 and names exactly "
         "the missing sequence numbers (numBits, bitmap, ids, count checked on the bytes of the real encoder), stale HEARTBEATs are "
         "ignored, no ACKNACK where RTPS requires none; (4) the same step with a buffered fragment: the ACKNACK set is cut below a "
         "partially received sample and a NACK_FRAG with the 1-based missing fragment numbers and a count > 0 is appended; a fragment "
         "whose sample stopped being missing (firstSN moved past it; GAPped: thorough tier) hides nothing; (5) GAP step (ranges of any "
         "length, optional bitmap bit) - a GAP adjacent to the received "
         "prefix extends available_changes_max exactly to the end of the gap, a GAP that starts beyond the next expected change leaves "
         "the earlier changes missing (they are named by the next ACKNACK). Four defects were found by these checks and repaired in /repo "
         "(recorded as fixed, nothing suppressed): a stale buffered fragment emptied every later ACKNACK (fix 1d5179c); NACK_FRAG count "
         "never incremented (fix d91489d); NACK_FRAG fragment numbers used as 0-based indices (fix 6b815dc); a GAP beyond the next "
         "expected change raised the received-watermark over still-missing changes, which were then acknowledged and never presented "
         "(fix 1d4869a). The two reading notes of the design were checked: `!missing_changes().count() == 0` is "
         "a dead disjunct (ACKNACKs are driven by must_send_acknacks, set correctly by the HEARTBEAT glue) and is NOT a violation; the GAP "
         "branch of write_message_reliable advancing highest_sent over the first post-gap change could not be executed (writer side out "
         "of reach) - by code reading the skipped change is announced by the HEARTBEAT sent in the same datagram and requested by the next "
         "ACKNACK, i.e. it heals in one round and is not a violation of the statement."),
     bounds=("safety step and kernel: sequence numbers over full i64 (below i64::MAX-16), payload 0..=3 symbolic bytes, optional 16-byte key "
             "hash; request and GAP steps: sequence numbers <= 1000, <= 4 missing changes (<= 2 with a buffered fragment), GAP ranges of any length up "
             "to sn 3000 with an empty or one-bit bitmap, <= 1 buffered fragment of a 2-fragment sample, counts full i32; one matched writer per reader"),
     outside=("writer side: RtpsStatefulWriter::on_acknack_submessage_received / write_message_reliable (repair step: DATA or GAP for every "
              "requested sn, highest_acked, stale ACKNACK counts) and therefore the composed progress/ranking round HEARTBEAT->ACKNACK->repair"
              "->reader could NOT be decided: measured 590 s symbolic execution then out of memory (12 GB) for ONE retained change with every "
              "loop bounded to its minimum - the eventual-delivery half of the statement is not claimed; more than one matched writer; "
              "HEARTBEAT timing (C31); reassembly of fragmented samples (C05, also out of reach); sequence numbers within 16 of i64::MAX"),
     level_text=("Bounded symbolic checking of the real reader-side code: each obligation is decided by CBMC for every value of its symbolic "
                 "inputs within the stated bounds (full 64-bit sequence-number domain for the safety step); not sampling. Level 'other' "
                 "because the sizes (payload, number of missing changes, one fragment) are bounded and the writer-side half of the "
                 "statement is outside."),
     level_note=_COMMON_NOTE,
     technique=_TECH,
     assumptions=["writer-proxy representation invariant first_available >= 1, highest_received >= 0, last_available >= 0 (re-asserted by the steps)",
                  "HEARTBEAT validity (RTPS 8.3.7.5): firstSN >= 1, lastSN >= firstSN - 1",
                  "support_rtps::glue_heartbeat_proxy / glue_gap_proxy replicate the statements of the private handle_heartbeat_submessage / "
                  "handle_gap_submessage (source guard fails the check when they change)"],
     cbmc_args=_CBMC, timeout=_TMO, guards=[_glue_guard], mem_gb=16)

prop("C02", ready=True, level="other",
     explanation=(
         "One-step obligation on the real RtpsStatefulReader with ReliabilityKind::BestEffort, DATA path: for every writer-proxy state "
         "and EVERY incoming sequence number (full i64) a change is appended iff it comes from the matched writer and its sn is above "
         "the floor available_changes_max; then exactly one change is appended with the submessage's sn, writer, kind, key hash and "
         "payload bytes and the floor becomes that sn (it never decreases) - by induction over deliveries the presented samples are a "
         "strictly increasing subsequence of the published ones, each at most once, byte-identical, whatever is lost, duplicated or "
         "reordered. Reassembled fragmented samples enter the cache through this same on_data_submessage step (stateful_reader.rs:143-146), "
         "so the no-duplicate / no-reorder part holds for them too; their byte-identity does not follow (see outside)."),
     bounds=("sequence numbers and proxy state over full i64 (below i64::MAX-16), payload 0..=3 symbolic bytes, optional 16-byte key hash; "
             "one matched writer"),
     outside=("the DATA_FRAG path of a best-effort reader (on_data_frag_submessage: buffering rule sn >= expected, reconstruct_data_from_frag) could "
              "NOT be decided: c02_besteffort_frag_step (one fragment, empty buffer) and c05_reassembly_step_besteffort (kept in the harness "
              "files, not indexed) run out of 12 GB - byte-identity of fragmented samples is not claimed; the best-effort writer path "
              "(write_message_best_effort: by code reading its GAP branch skips the first change after a sequence gap without sending it, "
              "which is a loss - allowed by this statement, not a duplicate/reorder); DDS-level presentation after the RTPS cache (C20)"),
     level_text=("Bounded symbolic checking of the real reader code: decided by CBMC for every incoming sequence number over the full 64-bit "
                 "domain and every proxy state; bounded payload sizes; not sampling."),
     level_note=_COMMON_NOTE,
     technique=_TECH,
     assumptions=["writer-proxy representation invariant first_available >= 1, highest_received >= 0", "no sequence number within 16 of i64::MAX"],
     cbmc_args=_CBMC, timeout=_TMO, guards=[_glue_guard])

prop("C04", ready=True, level="other",
     explanation=(
         "Only the reader-side completion predicate of the statement is decided: RtpsWriterProxy::is_historical_data_received (and "
         "RtpsStatefulReader::is_historical_data_received with one matched writer) is false before the first accepted HEARTBEAT whatever "
         "was received, and after it true iff no sequence number in max(firstSN,highest+1)..=lastSN is missing (full i64 kernel + a step "
         "through the real HEARTBEAT glue); receiving - or being told by GAP to skip - the last missing change makes it true. "
         "wait_for_historical_data therefore cannot complete while an announced change is still missing, and completes with the "
         "HEARTBEAT/DATA that closes the gap."),
     bounds="kernel: full i64 state; step: sequence numbers <= 1000, <= 3 missing changes, HEARTBEAT count full i32, one matched writer",
     outside=("the writer side of the statement - add_matched_reader's first_relevant_sample_seq_num (VOLATILE: max sn at match, "
              "TRANSIENT_LOCAL: 0) and write_message_reliable sending GAP instead of DATA for sn <= first_relevant - could NOT be decided: "
              "harness c04_late_joiner_push (kept in c04_durability.rs, not indexed) needs 590 s of symbolic execution and then exceeds "
              "12 GB for one retained change with every loop bounded to its minimum; so 'a VOLATILE reader never presents a pre-match sample' "
              "and 'a TRANSIENT_LOCAL reader is sent the retained history' are NOT claimed; KEEP_LAST trimming of the writer history (C27); "
              "the DDS-level notification wait_for_historical_data_notification.drain (participant aggregate)"),
     level_text=("Bounded symbolic checking of the reader-side predicate only (full 64-bit domain for the kernel). The writer-side half of "
                 "the statement was attempted and is out of reach of this technique on this machine; it is listed as outside, not claimed."),
     level_note=_COMMON_NOTE,
     technique=_TECH,
     assumptions=["writer-proxy representation invariant", "HEARTBEAT validity firstSN >= 1, lastSN >= firstSN - 1",
                  "a first HEARTBEAT carries count >= 1 (dust-dds writers start at 1; a count-0 HEARTBEAT is ignored by the glue)"],
     cbmc_args=_CBMC_C04, timeout=_TMO, guards=[_glue_guard])

prop("C05", ready=True, level="other",
     explanation=(
         "(1) Slicing kernel: for every payload length 1..=7, fragment size 1..=3 and fragment index, "
         "CacheChange::as_data_frag_submessage yields fragment_starting_num = index+1, the exact byte slice "
         "[k*f, min((k+1)*f, L)), data_size L, fragment_size f - the fragments tile the payload. (2) NACK_FRAG contract, reader side: a "
         "partially received missing sample is requested with NACK_FRAG(writerSN, exactly the missing fragment numbers, 1-based, count > 0 "
         "= above the writer's initial last-received count), cut correctly against the ACKNACK set. (3) NACK_FRAG contract, writer side: stale counts "
         "are ignored; every datagram emitted is INFO_DST+INFO_TS+DATA_FRAG of the requested sample with correct geometry and exactly the "
         "bytes of its own fragment number, and the set of fragment numbers resent is exactly the numbers the NACK_FRAG names (base "
         "included) that exist in the sample - duplicates allowed. Two genuine defects were found by these checks and repaired in /repo "
         "(recorded as fixed, nothing suppressed): nack_frag_count was never incremented, so every NACK_FRAG carried 0 and was ignored by "
         "the writer (fix d91489d); the writer used the requested 1-based numbers as 0-based indices - a request for {1} resent fragment "
         "2, a request for the last fragment resent nothing (fix 6b815dc)."),
     bounds=("slicing: L 1..=7, f 1..=3 (k*f-1, k*f, k*f+1 for k <= 2), sn full i64; NACK_FRAG: 3-byte sample in 2 fragments of size 2, requested "
             "set any non-empty subset of {1,2,3} (3 is beyond the sample) with base 1 or min, counts full i32, sequence numbers <= 1000"),
     outside=("REASSEMBLY (RtpsWriterProxy::reconstruct_data_from_frag through on_data_frag_submessage: exactly one change, byte-identical, only "
              "when the last missing fragment arrives, under reordering/duplication/interleaving) could NOT be decided: harnesses "
              "c05_reassembly_step_reliable/_besteffort/c05_reassembly_orders (kept in c05_frag.rs, not indexed) exceed 12 GB (symbolic execution "
              "100-185 s, then out of memory in propositional reduction; even one concrete 2-fragment scenario does) - the byte-identity half "
              "of the statement for the receive side is not claimed; total_fragments_expected arithmetic over full u32 x u16 (private fn; "
              "fragment_size == 0 from the wire makes data_size / fragment_size panic in reconstruct_data_from_frag and div_ceil panic in "
              "write_message - not an 'accepted fragment size', reported to C06); more than 3 fragments; HEARTBEAT_FRAG"),
     level_text=("Bounded symbolic checking of the real fragmenting and NACK_FRAG code: decided by CBMC for all values within the bounds; "
                 "not sampling. Level 'other' because sizes are bounded and receive-side reassembly is outside."),
     level_note=_COMMON_NOTE,
     technique=_TECH,
     assumptions=["a reliable reader buffers a fragment only for the sequence number it expects when the fragment arrives",
                  "glue replicas guarded by the source guard"],
     cbmc_args=_CBMC, timeout=_TMO, guards=[_glue_guard])
