"""Property table: RTPS reliability protocol family (C01, C02, C04, C05). Texts are finalised below."""
from ..props import prop

_TECH = ("Kani/CBMC symbolic execution of the real RTPS objects (RtpsStatefulWriter, RtpsReaderProxy, "
         "RtpsStatefulReader, RtpsWriterProxy, CacheChange fragmenting, RtpsMessageRead::try_from, MessageReceiver): "
         "one real step from a symbolic pre-state, or one writer->datagrams->reader round")

prop("C01", level="other", explanation="placeholder", bounds="", outside="", level_text="", level_note="",
     technique=_TECH, assumptions=[])
prop("C02", level="other", explanation="placeholder", bounds="", outside="", level_text="", level_note="",
     technique=_TECH, assumptions=[])
prop("C04", level="other", explanation="placeholder", bounds="", outside="", level_text="", level_note="",
     technique=_TECH, assumptions=[])
prop("C05", level="other", explanation="placeholder", bounds="", outside="", level_text="", level_note="",
     technique=_TECH, assumptions=[])
