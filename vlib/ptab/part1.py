"""Property table: participant-level discovery / entity-tree properties (C17, C36, C16, C03) - family part1."""
from ..props import prop

# Per-loop bounds for library/constructor loops whose trip count is a constant of the code, not a bound of the check
# (unwinding assertions stay on for every loop: a label that no longer matches makes the run inconclusive, never a pass):
#  * memcmp.0            - CBMC's builtin memcmp ([u8;16] handle / [u8;12] prefix / String equality): 16 bytes + exit test,
#  * the loops listed in _PATTERNS below.
# The harness attribute #[kani::unwind(n)] bounds every other loop (entity / proxy / participant lists of <= n-1 elements).
#  * drop glue of xtypes::type_object::TypeIdentifier (recursive through Box for sequence/array/map identifiers): every
#    SubscriptionBuiltinTopicData / PublicationBuiltinTopicData / TopicEntity that the code under test drops carries an
#    Option<TypeInformation>; the harness values hold no type information or the TkNone identifiers of
#    type_information_stub, so the drop glue is entered but never recurses. Recursion bound 1 = "no nested identifier is
#    dropped", CHECKED by the recursion unwinding assertion (measured: without it symbolic execution of a single
#    Vec::remove of a matched-endpoint entry does not finish in 900 s; with it 30 s).
_DROP_TI = "_RINvNtCs8xvirJzNMvV_4core3ptr9drop_glueNtNtNtCs36Lg0Iv5OGD_8dust_dds6xtypes11type_object14TypeIdentifierEBH_"
_CBMC = ["--unwindset", "memcmp.0:17,%s:1" % _DROP_TI]    # C36: TopicEntity (TkNone identifiers of the stub) is dropped
_CBMC0 = ["--unwindset", "memcmp.0:17,%s:0" % _DROP_TI]   # no TypeIdentifier is ever dropped (type_information: None)
# Loops bounded by function-name pattern (resolved against the goto binaries of each run by vlib/kani.py):
_PATTERNS = [
    (r"StatusMask as std::iter::FromIterator", 14),   # DcpsStatusCondition::default(): 13 status kinds
    (r"overflowing_pow", 8),                          # 10^9 constants of the time arithmetic
    (r"slice_contains|SliceContains", 8),             # BUILT_IN_TOPIC_NAME_LIST (6 names)
    # RtpsReaderProxy::write_message_reliable / _best_effort are entered from on_acknack_submessage_received; the harnesses
    # of this family keep the writer history empty and send ACKNACKs with an empty bitmap, so none of their loops
    # (fragments, unsent changes, requested changes) may be entered: bound 1 = "body unreachable", CHECKED by the
    # unwinding assertion. Without it every iteration of the global bound multiplies the datagram construction sites.
    (r"write_message_reliable", 1),
    (r"write_message_best_effort", 1),
]

_TECH = ("Kani/CBMC symbolic execution of the real DcpsDomainParticipant / UserDefinedDataReader / RtpsStatefulWriter code: one "
         "real operation from a directly constructed pre-state with symbolic scalars")
_STUBS_COMMON = [
    "critical_section::acquire/release are no-ops (sequential schedules only)",
    "tracing LevelFilter::current() returns OFF (process without a tracing subscriber) on the participant-level harnesses",
    "listener tasks are never spawned and the participant is not enabled unless a harness says so (enabling announces through XTypes)",
]
_TMO = {"quick": 600, "thorough": 1800}

prop(
    "C17",
    ready=True,
    level="other",
    explanation=(
        "Two Kani harnesses on a real DcpsDomainParticipant (its own constructor; clock, transport and spawner replaced through "
        "the repository's traits). (a) remove_stale_participants(now) with one directly installed DiscoveredParticipantInfo whose "
        "lease_duration, last_communication_timestamp and `now` are symbolic over the whole normalized domain: the entry is "
        "removed IF AND ONLY IF now - last > lease (oracle written without the repository's Sub/Ord and without multiplication), "
        "nothing else is added or removed, and time_until_stale_participant(now) is negative exactly then and never larger than "
        "the lease - together with C31 (the worker sleeps at most min(50 ms, that value)) the removal happens no earlier than the "
        "lease and no later than lease + one worker period. (b) ignore_participant on a participant that is not enabled: "
        "NotEnabled, discovered list and ignore set unchanged. The lease-expiry sentence of the property is what is claimed; "
        "the domain id / tag predicate and the ignore behaviour are NOT decided (see outside)."),
    bounds="one discovered participant; lease/last/now over i32 x [0,10^9) with 0 <= last <= now, lease >= 0; global unwind 2 "
           "plus the per-loop bounds of vlib/ptab/part1.py",
    outside="NOT DECIDED (measured): add_discovered_participant (domain id / domain tag / ignored / already-discovered predicate) "
            "and ignore_participant followed by a re-announcement: with two announced SEDP endpoints CBMC ran out of 10 GB after "
            "126-157 s, with all ten ~20 GB; a reduced shape announcing no endpoint (kept parked in c17_discovery.rs) still ran out "
            "of 10 GB after 68-85 s. By reading (discovery_methods.rs:2553-2636) the predicate is `id absent or equal` && tags equal && "
            "!discovered && !ignored, and ignore_participant inserts into ignored_participants before removing. Also outside: "
            "eventual discovery under announcement loss and everything that decodes / encodes SPDP data (ParameterList + "
            "DynamicData); two or more discovered participants (parked harness, not measured with the per-loop bounds; with a "
            "global unwind of 15: no answer in 900 s); timing across more than one worker iteration; negative clock readings",
    level_text="bounded model checking of the real participant code (Kani/CBMC): one real operation from a constructed pre-state, "
               "lease / timestamps symbolic over their full normalized domains; one discovered participant.",
    level_note="trusted: Kani/CBMC, the pre-state constructor support_part1::discovered (field by field what "
               "add_discovered_participant stores). Unwinding assertions are on for every loop.",
    technique=_TECH,
    assumptions=_STUBS_COMMON + [
        "clock readings are non-negative and non-decreasing; lease_duration >= 0; Durations/Times normalized (C14)",
    ],
    timeout=_TMO,
    mem_gb=10,
    cbmc_args=_CBMC0,
    unwind_patterns=_PATTERNS,
)

prop(
    "C36",
    level="other",
    explanation=(
        "Kani harnesses on a real DcpsDomainParticipant with a small entity tree (topic through the real create_topic / "
        "create_content_filtered_topic; publisher / subscriber / writer / reader installed directly, bottom-up, with the state "
        "the create calls give them). delete_user_defined_topic: PreconditionNotMet iff the participant handle is foreign or a "
        "writer (resp. reader) still uses the topic, AlreadyDeleted iff the topic is unknown, every error leaves the topic list "
        "unchanged, Ok removes the topic and a second delete is AlreadyDeleted. delete_participant_contained_entities on a "
        "participant with a publisher (0-1 writer) and a subscriber (0-1 reader): not empty before, Ok, both lists empty and "
        "is_participant_empty() (the factory's deletion precondition) afterwards; the same with a user topic. OBSERVATION FROM "
        "CODE READING (not confirmed by a completed run, not a registered finding): once a content-filtered topic was created the "
        "participant is never empty again (delete_content_filtered_topic is a no-op returning Ok, delete_contained_entities does "
        "not clear content_filtered_topic_list, is_empty() requires it empty) - a harness restricted to that trigger and a "
        "sibling without it are written. NOT READY: the quick tier did not complete within the caps "
        "when it was last measured (first two harnesses still running after 580 s at 5-7 GB); see the family report."),
    bounds="one topic, one publisher with 0-1 writer, one subscriber with 0-1 reader, 0-1 content-filtered topic; handles / "
           "names chosen among {valid, unknown}; global unwind 2 plus the per-loop bounds of vlib/ptab/part1.py",
    outside="NOT DECIDED: delete_user_defined_publisher, delete_user_defined_subscriber, delete_data_writer, delete_data_reader "
            "and DcpsParticipantFactory::delete_participant: all remove the entity with Vec::remove(i), i from "
            "Iterator::position; for symbolic execution i is symbolic, the tail move becomes a memmove of symbolic size over "
            "0.4-1.7 KB elements and the SAT encoding exhausts 10 GB (measured on 456-byte elements, list of ONE element). "
            "Also outside: the SEDP dispose announcements of deleted endpoints (DynamicData; stubbed), listeners, "
            "create_data_writer / create_data_reader themselves (do not fit, HARNESS_GUIDE), histories longer than one delete",
    level_text="bounded model checking of the real participant code (Kani/CBMC): one real delete operation on a constructed tree "
               "of at most one entity per kind, shape and arguments symbolic.",
    level_note="trusted: Kani/CBMC, the bottom-up fixtures of support_part1.rs (entities constructed with the constructor "
               "arguments of publisher_methods.rs / subscriber_methods.rs / participant_methods.rs). No finding is registered for this property (the content-filtered-topic observation is unconfirmed).",
    technique=_TECH,
    assumptions=_STUBS_COMMON + [
        "stub: TypeInformation::from(DynamicType) returns fixed TkNone identifiers (MD5 over XTypes-serialized type objects)",
        "stub: alloc::fmt::format returns an empty String (error message texts are in no claim)",
        "stub: announce_deleted_data_writer / announce_deleted_data_reader (SEDP dispose through DynamicData) are no-ops that forget the entity",
        "publishers / subscribers / writers / readers are installed directly with the state create_* (+ enable for endpoints) give them",
    ],
    timeout=_TMO,
    mem_gb=10,
    cbmc_args=_CBMC,
    unwind_patterns=_PATTERNS,
)

prop(
    "C16",
    ready=True,
    level="other",
    explanation=(
        "Kernel harnesses on the real entity functions. (a) The status reads PublicationMatchedStatus::get (what "
        "get_publication_matched_status returns) and UserDefinedDataReader::get_subscription_matched_status on ANY counter "
        "values: the snapshot equals the stored counters (the change fields are the difference since the previous read), "
        "both change fields are reset, current_count / total_count are kept, a second read reports no change. (b) "
        "UserDefinedDataReader::add_matched_publication with one matched writer and any consistent counters, for both "
        "kinds of announcement its caller produces: a NEW writer is appended, current_count == list length, "
        "current_count_change / total_count / total_count_change grow by exactly 1; a re-announcement of an ALREADY matched "
        "writer (QoS update; process_discovered_writers skips only announcements identical to the stored one) replaces the "
        "stored data and leaves the list length and all three counters unchanged. This check FOUND the defect that a "
        "re-announcement incremented the three counters again (total_count counted one match twice); it was repaired in /repo "
        "(reader side and the writer-side twin in process_discovered_readers) and is recorded as fixed in "
        "known_findings.json - the single harness now must pass for both cases. Only these "
        "two sentences of the property (change fields = difference since last read; total_count counts each distinct match "
        "once on the reader side) are claimed; every removal path is NOT decided (see outside)."),
    bounds="one matched publication before the step; counters: total_count in [1, 10^6), total_count_change in [0,total], "
           "current_count_change in (-10^6, 10^6) (status read: full i32); global unwind 2",
    outside="NOT DECIDED (measured): (1) the SEDP disposal path (remove_discovered_reader / remove_discovered_writer -> "
            "remove_matched_subscription / remove_matched_publication): Vec::remove(i) with i out of Iterator::position is a "
            "memmove of SYMBOLIC size over 456-byte entries; 78 k SSA steps but the SAT encoding exhausts 10 GB with ONE matched "
            "entry. (2) remove_discovered_participant on a participant with one matched reader / writer (parked harnesses in "
            "c16_matched.rs): CBMC out of memory at 10 GB after 100-245 s. By READING the repository (not decided here): "
            "remove_discovered_participant prunes matched_subscription_list and deletes the RTPS reader proxies but never updates "
            "publication_matched_status (discovery_methods.rs:2666-2682), and on the reader side deletes the RTPS writer proxies "
            "but leaves matched_publication_list and subscription_matched_status untouched (:2647-2664); remove_discovered_reader "
            "updates the counters but never calls delete_matched_reader, so the RTPS proxy of a deleted reader stays. Also "
            "outside: the additions inside process_discovered_readers / process_discovered_writers (partition regex, type "
            "compatibility on DynamicType), 'QoS becomes incompatible => counts drop', two or more matched endpoints, listener / "
            "status-condition notifications (C33); the repaired writer-side twin of the counting code is inline in "
            "process_discovered_readers and not executed here",
    level_text="bounded model checking of the real entity functions (Kani/CBMC) from constructed pre-states with symbolic status "
               "counters; one matched endpoint.",
    level_note="trusted: Kani/CBMC. The defect found by this check (KF-C16-4, double counting on re-announcement) was repaired in "
               "/repo and is recorded as fixed; nothing is suppressed.",
    technique=_TECH,
    assumptions=[
        "critical_section::acquire/release are no-ops (sequential schedules only)",
        "counter pre-states: any values with current_count == list length, 0 <= total_count_change <= total_count < 10^6, |current_count_change| < 10^6",
    ],
    timeout=_TMO,
    mem_gb=10,
    cbmc_args=_CBMC0,
    unwind_patterns=_PATTERNS,
)

prop(
    "C03",
    ready=True,
    level="other",
    explanation=(
        "Soundness side of the property ('a success never precedes delivery'). (a) RtpsStatefulWriter with ONE matched reader "
        "proxy (symbolic reliability) receives two arbitrary ACKNACKs (source prefix of the proxy / another participant / "
        "foreign, reader and writer ids right or wrong, base >= 1 and count symbolic): on_acknack_submessage_received accepts one "
        "iff it names this writer and the matched RELIABLE proxy and its count is fresh, returning base-1; with the ghost level "
        "= max accepted base-1, is_change_acknowledged(sn) holds iff the proxy is best-effort or level >= sn, for every sn. (b) "
        "Three proxies of symbolic reliability, nothing acknowledged: is_change_acknowledged(sn) iff sn <= 0 or no proxy is "
        "reliable (every reliable reader blocks, best-effort ones never). (c) notify_acknowledgments - the participant-side half "
        "of DataWriter::wait_for_acknowledgments - on a real participant whose writer wrote `last` samples and is matched with "
        "one reader that acknowledged nothing: the waiter is parked (no success reported) iff the reader is RELIABLE; otherwise "
        "it is answered at once. The completion side ('eventually completes, including after the reader departs') is NOT "
        "decided (see outside)."),
    bounds="1 reader proxy x 2 ACKNACKs; 3 proxies x 0 ACKNACKs; base in [1, i64::MAX], count full i32, sn / last full i64 "
           "(last >= 1); empty writer history (is_change_acknowledged does not read it); one writer with one matched reader at "
           "participant level; global unwind 2-5 plus the per-loop bounds of vlib/ptab/part1.py",
    outside="NOT DECIDED (measured): completion after departure - remove_discovered_participant with a matched writer and a parked "
            "waiter (parked harnesses c03_departure_* in c03_acks.rs): CBMC out of memory at 10 GB after 260-290 s; departure by "
            "SEDP disposal (remove_discovered_reader): Vec::remove with a symbolic index, see C16. By READING (not decided "
            "here): wait_for_acknowledgments_notification is drained only by the ACKNACK handler "
            "(communication_methods.rs:473-482); remove_discovered_participant deletes the reader proxy but does not complete "
            "parked waiters, and remove_discovered_reader does not even delete the proxy, so a wait_for_acknowledgments would "
            "never complete after a matched reliable reader is deleted. Also outside: two or more proxies combined with ACKNACK "
            "deliveries (2 proxies x 2 ACKNACKs exhausted 10 GB: the proxy is then selected through a symbolic pointer); the "
            "async / blocking wrapper and real time; delivery of the ACKNACK through handle_data (whole-datagram parsing); that a "
            "reader's ACKNACK base-1 is what it really received (C01); ACKNACK base <= 0 (base = i64::MIN makes `base - 1` "
            "overflow: panic in the dev profile, wrap to i64::MAX = everything acknowledged in release - malformed input, not a "
            "fault of the loss/reorder model)",
    level_text="bounded model checking (Kani/CBMC) of the real RtpsStatefulWriter acknowledgement functions for all states of one "
               "proxy reachable by two ACKNACKs and for three unacknowledging proxies, and of one participant-level registration "
               "step from a constructed pre-state.",
    level_note="trusted: Kani/CBMC; support_part1 fixtures (writer / match installed bottom-up with the statements of "
               "publisher_methods.rs and of the success branch of process_discovered_readers).",
    technique=_TECH,
    assumptions=_STUBS_COMMON + [
        "ACKNACK readerSNState.base >= 1 and an empty bitmap",
        "publisher / writer of c03_wait_registration installed directly with the state create_* + enable + `last` writes give them",
    ],
    timeout=_TMO,
    mem_gb=10,
    cbmc_args=_CBMC0,
    unwind_patterns=_PATTERNS,
)
