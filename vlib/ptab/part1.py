"""Property table: participant-level discovery / entity-tree properties (C17, C36, C16; C03 texts)."""
from ..props import prop

# Per-loop bounds for library/constructor loops whose trip count is a constant of the code, not a bound of the check
# (unwinding assertions stay on for every loop: a label that no longer matches makes the run inconclusive, never a pass):
#  * memcmp.0            - CBMC's builtin memcmp ([u8;16] handle / [u8;12] prefix / String equality): 16 bytes + exit test,
#  * StatusMask::from_iter over the 13 StatusKinds in DcpsStatusCondition::default() (every entity constructor),
#  * u64::overflowing_pow (10^9 constants of the time arithmetic).
# The harness attribute #[kani::unwind(n)] bounds every other loop (entity / proxy / participant lists of <= n-1 elements).
_FROM_ITER = ("_RINvXs_NtNtCs36Lg0Iv5OGD_8dust_dds4dcps11status_maskNtB5_10StatusMaskINtNtNtNtCs8xvirJzNMvV_4core4iter6traits7collect"
              "12FromIteratorRNtNtNtB7_14infrastructure6status10StatusKindE9from_iterINtNtNtB1e_5slice4iter4IterB26_EEB9_.0")
_POW = "_RNvMs7_NtCs8xvirJzNMvV_4core3numy15overflowing_powCs36Lg0Iv5OGD_8dust_dds"
#  * drop glue of xtypes::type_object::TypeIdentifier (recursive through Box for sequence/array/map identifiers): every
#    SubscriptionBuiltinTopicData / PublicationBuiltinTopicData / TopicEntity that the code under test drops carries an
#    Option<TypeInformation>; the harness values hold no type information or the TkNone identifiers of
#    type_information_stub, so the drop glue is entered but never recurses. Recursion bound 1 = "no nested identifier is
#    dropped", CHECKED by the recursion unwinding assertion (measured: without it symbolic execution of a single
#    Vec::remove of a matched-endpoint entry does not finish in 900 s; with it 30 s).
_DROP_TI = "_RINvNtCs8xvirJzNMvV_4core3ptr9drop_glueNtNtNtCs36Lg0Iv5OGD_8dust_dds6xtypes11type_object14TypeIdentifierEBH_"
_CBMC = ["--unwindset", "memcmp.0:17,%s:15,%s.0:7,%s.1:7,%s:1" % (_FROM_ITER, _POW, _POW, _DROP_TI)]

prop(
    "C17",
    level="other",
    explanation="(in progress)", bounds="", outside="", level_text="", level_note="", technique="", assumptions=[],
    timeout={"quick": 600, "thorough": 1800},
    mem_gb=10,
    cbmc_args=_CBMC,
)

prop(
    "C36",
    level="other",
    explanation="(in progress)", bounds="", outside="", level_text="", level_note="", technique="", assumptions=[],
    timeout={"quick": 600, "thorough": 1800},
    mem_gb=10,
    cbmc_args=_CBMC,
)

prop(
    "C16",
    level="other",
    explanation="(in progress)", bounds="", outside="", level_text="", level_note="", technique="", assumptions=[],
    timeout={"quick": 600, "thorough": 1800},
    mem_gb=10,
    cbmc_args=_CBMC,
)

prop(
    "C03",
    level="other",
    explanation="(in progress)", bounds="", outside="", level_text="", level_note="", technique="", assumptions=[],
    timeout={"quick": 600, "thorough": 1800},
    mem_gb=10,
    cbmc_args=_CBMC,
)
