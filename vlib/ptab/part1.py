"""Property table: participant-level discovery / entity-tree properties (C17, C36, C16; C03 texts)."""
from ..props import prop

# Per-loop bounds for library/constructor loops whose trip count is a constant of the code, not a bound of the check
# (unwinding assertions stay on for every loop: a label that no longer matches makes the run inconclusive, never a pass):
#  * memcmp.0            - CBMC's builtin memcmp ([u8;16] handle / [u8;12] prefix / String equality): 16 bytes + exit test,
#  * the loops listed in _PATTERNS below.
# The harness attribute #[kani::unwind(n)] bounds every other loop (entity / proxy / participant lists of <= n-1 elements).
#  * drop glue of xtypes::type_object::TypeIdentifier (recursive through Box for sequence/array/map identifiers): every
#    SubscriptionBuiltinTopicData / PublicationBuiltinTopicData / TopicEntity that the code under test drops carries an
#    Option<TypeInformation>; the harness values hold no type information or the TkNone identifiers of
#    type_information_stub, so the drop glue is entered but never recurses. Recursion bound 1 = "no nested identifier is
#    dropped", CHECKED by the recursion unwinding assertion (measured: without it symbolic execution of a single
#    Vec::remove of a matched-endpoint entry does not finish in 900 s; with it 30 s).
_DROP_TI = "_RINvNtCs8xvirJzNMvV_4core3ptr9drop_glueNtNtNtCs36Lg0Iv5OGD_8dust_dds6xtypes11type_object14TypeIdentifierEBH_"
_CBMC = ["--unwindset", "memcmp.0:17,%s:1" % _DROP_TI]    # C36: TopicEntity (TkNone identifiers of the stub) is dropped
_CBMC0 = ["--unwindset", "memcmp.0:17,%s:0" % _DROP_TI]   # no TypeIdentifier is ever dropped (type_information: None)
# Loops bounded by function-name pattern (resolved against the goto binaries of each run by vlib/kani.py):
_PATTERNS = [
    (r"StatusMask as std::iter::FromIterator", 14),   # DcpsStatusCondition::default(): 13 status kinds
    (r"overflowing_pow", 8),                          # 10^9 constants of the time arithmetic
    (r"slice_contains|SliceContains", 8),             # BUILT_IN_TOPIC_NAME_LIST (6 names)
    # RtpsReaderProxy::write_message_reliable / _best_effort are entered from on_acknack_submessage_received; the harnesses
    # of this family keep the writer history empty and send ACKNACKs with an empty bitmap, so none of their loops
    # (fragments, unsent changes, requested changes) may be entered: bound 1 = "body unreachable", CHECKED by the
    # unwinding assertion. Without it every iteration of the global bound multiplies the datagram construction sites.
    (r"write_message_reliable", 1),
    (r"write_message_best_effort", 1),
]

prop(
    "C17",
    level="other",
    explanation="(in progress)", bounds="", outside="", level_text="", level_note="", technique="", assumptions=[],
    timeout={"quick": 420, "thorough": 1800},
    mem_gb=10,
    cbmc_args=_CBMC0,
    unwind_patterns=_PATTERNS,
)

prop(
    "C36",
    level="other",
    explanation="(in progress)", bounds="", outside="", level_text="", level_note="", technique="", assumptions=[],
    timeout={"quick": 420, "thorough": 1800},
    mem_gb=10,
    cbmc_args=_CBMC,
    unwind_patterns=_PATTERNS,
)

prop(
    "C16",
    level="other",
    explanation="(in progress)", bounds="", outside="", level_text="", level_note="", technique="", assumptions=[],
    timeout={"quick": 420, "thorough": 1800},
    mem_gb=10,
    cbmc_args=_CBMC0,
    unwind_patterns=_PATTERNS,
)

prop(
    "C03",
    level="other",
    explanation="(in progress)", bounds="", outside="", level_text="", level_note="", technique="", assumptions=[],
    timeout={"quick": 420, "thorough": 1800},
    mem_gb=10,
    cbmc_args=_CBMC0,
    unwind_patterns=_PATTERNS,
)
