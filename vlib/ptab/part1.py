"""Property table: participant-level discovery / entity-tree properties (C17, C36, C16; C03 texts)."""
from ..props import prop

prop(
    "C17",
    level="other",
    explanation="(in progress)", bounds="", outside="", level_text="", level_note="", technique="", assumptions=[],
    timeout={"quick": 900, "thorough": 1800},
    mem_gb=10,
    cbmc_args=["--unwindset", "memcmp.0:17"],
)

prop(
    "C36",
    level="other",
    explanation="(in progress)", bounds="", outside="", level_text="", level_note="", technique="", assumptions=[],
    timeout={"quick": 900, "thorough": 1800},
    mem_gb=10,
    cbmc_args=["--unwindset", "memcmp.0:17"],
)

prop(
    "C16",
    level="other",
    explanation="(in progress)", bounds="", outside="", level_text="", level_note="", technique="", assumptions=[],
    timeout={"quick": 900, "thorough": 1800},
    mem_gb=10,
    cbmc_args=["--unwindset", "memcmp.0:17"],
)
