"""Property table: participant-level discovery / entity-tree properties (C17, C36, C16, C03) - family part1."""
from ..props import prop

# Per-loop bounds for library/constructor loops whose trip count is a constant of the code, not a bound of the check
# (unwinding assertions stay on for every loop: a label that no longer matches makes the run inconclusive, never a pass):
#  * memcmp.0            - CBMC's builtin memcmp ([u8;16] handle / [u8;12] prefix / String equality): 16 bytes + exit test,
#  * the loops listed in _PATTERNS below.
# The harness attribute #[kani::unwind(n)] bounds every other loop (entity / proxy / participant lists of <= n-1 elements).
#  * drop glue of xtypes::type_object::TypeIdentifier (recursive through Box for sequence/array/map identifiers): every
#    SubscriptionBuiltinTopicData / PublicationBuiltinTopicData / TopicEntity that the code under test drops carries an
#    Option<TypeInformation>; the harness values hold no type information or the TkNone identifiers of
#    type_information_stub, so the drop glue is entered but never recurses. Recursion bound 1 = "no nested identifier is
#    dropped", CHECKED by the recursion unwinding assertion (measured: without it symbolic execution of a single
#    Vec::remove of a matched-endpoint entry does not finish in 900 s; with it 30 s).
_DROP_TI = "_RINvNtCs8xvirJzNMvV_4core3ptr9drop_glueNtNtNtCs36Lg0Iv5OGD_8dust_dds6xtypes11type_object14TypeIdentifierEBH_"
_CBMC = ["--unwindset", "memcmp.0:17,%s:1" % _DROP_TI]    # C36: TopicEntity (TkNone identifiers of the stub) is dropped
_CBMC0 = ["--unwindset", "memcmp.0:17,%s:0" % _DROP_TI]   # no TypeIdentifier is ever dropped (type_information: None)
# Loops bounded by function-name pattern (resolved against the goto binaries of each run by vlib/kani.py):
_PATTERNS = [
    (r"StatusMask as std::iter::FromIterator", 14),   # DcpsStatusCondition::default(): 13 status kinds
    (r"overflowing_pow", 8),                          # 10^9 constants of the time arithmetic
    (r"slice_contains|SliceContains", 8),             # BUILT_IN_TOPIC_NAME_LIST (6 names)
    # RtpsReaderProxy::write_message_reliable / _best_effort are entered from on_acknack_submessage_received; the harnesses
    # of this family keep the writer history empty and send ACKNACKs with an empty bitmap, so none of their loops
    # (fragments, unsent changes, requested changes) may be entered: bound 1 = "body unreachable", CHECKED by the
    # unwinding assertion. Without it every iteration of the global bound multiplies the datagram construction sites.
    (r"write_message_reliable", 1),
    (r"write_message_best_effort", 1),
]

_TECH = ("Kani/CBMC symbolic execution of the real DcpsDomainParticipant / UserDefinedDataReader / RtpsStatefulWriter code: one "
         "real operation from a directly constructed pre-state with symbolic scalars")
_STUBS_COMMON = [
    "critical_section::acquire/release are no-ops (sequential schedules only)",
    "tracing LevelFilter::current() returns OFF (process without a tracing subscriber) on the participant-level harnesses",
    "listener tasks are never spawned and the participant is not enabled unless a harness says so (enabling announces through XTypes)",
]
_TMO = {"quick": 600, "thorough": 1800}

prop(
    "C17",
    level="other",
    explanation=(
        "Four quick Kani harnesses on a real DcpsDomainParticipant (its own constructor; clock, transport and spawner replaced "
        "through the repository's traits). (a) remove_stale_participants(now) with one directly installed DiscoveredParticipantInfo "
        "whose lease_duration, last_communication_timestamp and `now` are symbolic over the whole normalized domain: the entry is "
        "removed IF AND ONLY IF now - last > lease (oracle written without the repository's Sub/Ord), and "
        "time_until_stale_participant(now) is negative exactly then and never larger than the lease - with C31 (worker sleeps at "
        "most min(50 ms, that value)) the removal happens no earlier than the lease and no later than lease + one worker period. "
        "(b) add_discovered_participant, reached through the guarded hook verif_add_discovered_participant with a directly "
        "constructed SpdpDiscoveredParticipantData: symbolic local domain id, announced id None / Some(any i32), equal / unequal "
        "domain tag, ignored or not, already discovered or not: added (entry with the announced lease and the clock reading, "
        "announced SEDP endpoints matched) iff ids match and tags are equal and it is neither ignored nor known; otherwise the "
        "discovered list and the builtin endpoints are unchanged. (c) ignore_participant on an enabled participant: removed from "
        "the discovered list, others stay, and a following matching SPDP announcement of it is NOT re-added and matches no "
        "endpoint. (d) ignore_participant on a participant that is not enabled: NotEnabled, nothing changes. Thorough adds (a) "
        "with two participants (each removed iff ITS lease is exceeded, order kept)."),
    bounds="discovered list of 1 entry (thorough: 2), ignore set of 0-1 entries; lease/last/now over i32 x [0,10^9) with "
           "0 <= last <= now, lease >= 0; domain ids full i32; tags \"\" / \"t\"; the remote participant announces two SEDP "
           "endpoints (publications detector, subscriptions announcer); empty locator lists; global unwind 2-3 plus the per-loop "
           "bounds of vlib/ptab/part1.py",
    outside="eventual discovery under announcement loss and everything that decodes / encodes SPDP data "
            "(SpdpDiscoveredParticipantData::from_bytes / into_bytes run through ParameterList + DynamicData: the announcement "
            "VALUE is constructed directly); the other eight builtin endpoint kinds of add_discovered_participant (same code shape "
            "behind the same guard; with all ten announced the harness needed ~20 GB); timing across more than one worker "
            "iteration (C31 gives the sleep bound); negative clock readings; the listener / status side of discovery",
    level_text="bounded model checking of the real participant code (Kani/CBMC): one real operation from a constructed pre-state, "
               "all scalar inputs symbolic over their full domains; list sizes bounded as stated.",
    level_note="trusted: Kani/CBMC, the pre-state constructors in support_part1.rs (discovered entries / SPDP value built "
               "field by field), the guarded hook in discovery_methods.rs (a one-line forwarder). Unwinding assertions are on for "
               "every loop and for the TypeIdentifier drop-glue recursion bound.",
    technique=_TECH,
    assumptions=_STUBS_COMMON + [
        "c17_spdp_ignored: `enabled` set directly; stub: announce_participant (SPDP self-announcement through the XTypes serializer) is a no-op",
        "clock readings are non-negative and non-decreasing; lease_duration >= 0; Durations/Times normalized (C14)",
    ],
    timeout=_TMO,
    mem_gb=10,
    cbmc_args=_CBMC0,
    unwind_patterns=_PATTERNS,
)

prop(
    "C36",
    level="other",
    explanation=(
        "Kani harnesses on a real DcpsDomainParticipant with a small entity tree (topic through the real create_topic / "
        "create_content_filtered_topic; publisher / subscriber / writer / reader installed directly, bottom-up, with the state "
        "the create calls give them). delete_user_defined_topic: PreconditionNotMet iff the participant handle is foreign or a "
        "writer (resp. reader) still uses the topic, AlreadyDeleted iff the topic is unknown, every error leaves the topic list "
        "unchanged, Ok removes the topic and a second delete is AlreadyDeleted. delete_participant_contained_entities on a "
        "participant with a publisher (0-1 writer) and a subscriber (0-1 reader): not empty before, Ok, both lists empty and "
        "is_participant_empty() (the factory's deletion precondition) afterwards; the same with a user topic. KNOWN FINDING "
        "KF-C36-1: once a content-filtered topic was created the participant is never empty again (delete_content_filtered_topic "
        "is a no-op returning Ok, delete_contained_entities does not clear content_filtered_topic_list) - kept as a __known "
        "harness restricted to that trigger with a __rest sibling."),
    bounds="one topic, one publisher with 0-1 writer, one subscriber with 0-1 reader, 0-1 content-filtered topic; handles / "
           "names chosen among {valid, unknown}; global unwind 2 plus the per-loop bounds of vlib/ptab/part1.py",
    outside="NOT DECIDED: delete_user_defined_publisher, delete_user_defined_subscriber, delete_data_writer, delete_data_reader "
            "and DcpsParticipantFactory::delete_participant: all remove the entity with Vec::remove(i), i from "
            "Iterator::position; for symbolic execution i is symbolic, the tail move becomes a memmove of symbolic size over "
            "0.4-1.7 KB elements and the SAT encoding exhausts 10 GB (measured on 456-byte elements, list of ONE element). "
            "Also outside: the SEDP dispose announcements of deleted endpoints (DynamicData; stubbed), listeners, "
            "create_data_writer / create_data_reader themselves (do not fit, HARNESS_GUIDE), histories longer than one delete",
    level_text="bounded model checking of the real participant code (Kani/CBMC): one real delete operation on a constructed tree "
               "of at most one entity per kind, shape and arguments symbolic.",
    level_note="trusted: Kani/CBMC, the bottom-up fixtures of support_part1.rs (entities constructed with the constructor "
               "arguments of publisher_methods.rs / subscriber_methods.rs / participant_methods.rs). One open finding (KF-C36-1) "
               "is reported on every run, not suppressed.",
    technique=_TECH,
    assumptions=_STUBS_COMMON + [
        "stub: TypeInformation::from(DynamicType) returns fixed TkNone identifiers (MD5 over XTypes-serialized type objects)",
        "stub: alloc::fmt::format returns an empty String (error message texts are in no claim)",
        "stub: announce_deleted_data_writer / announce_deleted_data_reader (SEDP dispose through DynamicData) are no-ops that forget the entity",
        "publishers / subscribers / writers / readers are installed directly with the state create_* (+ enable for endpoints) give them",
    ],
    timeout=_TMO,
    mem_gb=10,
    cbmc_args=_CBMC,
    unwind_patterns=_PATTERNS,
)

prop(
    "C16",
    level="other",
    explanation=(
        "Kernel harnesses on the real entity functions. (a) The status reads PublicationMatchedStatus::get (returned by "
        "get_publication_matched_status) and UserDefinedDataReader::get_subscription_matched_status on ANY counter values: the "
        "snapshot equals the stored counters, both change fields are reset, current_count / total_count are kept, a second read "
        "reports no change. (b) UserDefinedDataReader::add_matched_publication with one matched writer and any consistent "
        "counters: a NEW writer is appended, current_count == list length, current_count_change / total_count / "
        "total_count_change grow by exactly 1 (__rest); KNOWN FINDING KF-C16-4: a re-announcement of an ALREADY matched writer "
        "(QoS update) replaces the entry but increments the three counters again (__known). Thorough tier: "
        "remove_discovered_participant on a real participant with one matched reader / writer - KNOWN FINDINGS KF-C16-1 "
        "(writer side: list pruned, RTPS proxy deleted, counters never updated) and KF-C16-2 (reader side: RTPS proxy deleted, "
        "matched list and counters untouched), each with a __rest sibling (a participant without matched endpoints departs: "
        "nothing changes)."),
    bounds="one matched endpoint per local writer / reader; counters: total_count in [len, 10^6), total_count_change in "
           "[0,total], current_count_change in (-10^6, 10^6) (status read: full i32); global unwind 2",
    outside="NOT DECIDED: the SEDP disposal path (remove_discovered_reader / remove_discovered_writer -> "
            "remove_matched_subscription / remove_matched_publication: Vec::remove(i) with a symbolic index = memmove of symbolic "
            "size over 456-byte entries, SAT encoding exhausts 10 GB with ONE matched entry) - by reading, that path updates the "
            "counters but never calls delete_matched_reader, so the RTPS reader proxy of a deleted reader stays (data / "
            "heartbeats still addressed to it); the additions inside process_discovered_readers / process_discovered_writers "
            "(partition regex, type compatibility on DynamicType) - in particular 'QoS becomes incompatible => counts drop' "
            "(by reading: the incompatible branch never removes an existing match); lists of two or more matched endpoints "
            "(every access then goes through a symbolic pointer into the list buffer: out of memory); listener / status "
            "condition notifications (C33)",
    level_text="bounded model checking of the real entity / participant functions (Kani/CBMC) from constructed pre-states with "
               "symbolic status counters; one matched endpoint.",
    level_note="trusted: Kani/CBMC; the match fixtures replicate the statements of the success branch of "
               "process_discovered_readers (support_part1::match_reader) resp. call the real add_matched_publication. Open "
               "findings KF-C16-4 (quick tier), KF-C16-1 / KF-C16-2 (thorough tier) are reported on every run.",
    technique=_TECH,
    assumptions=_STUBS_COMMON + [
        "counter pre-states: any values with current_count == list length, 0 <= total_count_change <= total_count < 10^6, |current_count_change| < 10^6",
    ],
    timeout=_TMO,
    mem_gb=10,
    cbmc_args=_CBMC0,
    unwind_patterns=_PATTERNS,
)

prop(
    "C03",
    level="other",
    explanation=(
        "Soundness side. (a) RtpsStatefulWriter with ONE matched reader proxy (symbolic reliability) receives two arbitrary "
        "ACKNACKs (source prefix of the proxy / another participant / foreign, reader and writer ids right or wrong, base >= 1 "
        "and count symbolic): on_acknack_submessage_received accepts one iff it names this writer and the matched RELIABLE "
        "proxy and its count is fresh, returning base-1; with the ghost level = max accepted base-1, is_change_acknowledged(sn) "
        "holds iff the proxy is best-effort or level >= sn, for every sn. (b) Three proxies of symbolic reliability, nothing "
        "acknowledged: is_change_acknowledged(sn) iff sn <= 0 or no proxy is reliable (every reliable reader blocks, best-effort "
        "ones never). (c) notify_acknowledgments - the participant-side half of DataWriter::wait_for_acknowledgments - on a real "
        "participant whose writer wrote `last` samples and is matched with one reader that acknowledged nothing: the waiter is "
        "parked (no success) iff the reader is RELIABLE. Completion side (thorough tier): removal of the unacknowledging "
        "reader's participant (remove_discovered_participant) deletes the RTPS proxy so is_change_acknowledged(last) becomes "
        "true (__rest: a later wait is answered at once); KNOWN FINDING KF-C03-1: a waiter parked BEFORE the removal is never "
        "completed (__known)."),
    bounds="1 reader proxy x 2 ACKNACKs, 3 proxies x 0 ACKNACKs (thorough: 2 proxies x 1 ACKNACK); base in [1, i64::MAX], count "
           "full i32, sn / last full positive i64; empty writer history (is_change_acknowledged does not read it); one writer, "
           "one matched reader at participant level",
    outside="the async / blocking wrapper (DataWriterAsync::wait_for_acknowledgments, block_timeout) and real time; delivery of "
            "the ACKNACK through handle_data (whole-datagram parsing; the drain in communication_methods.rs:473-482 is read, not "
            "executed); that a reader's ACKNACK base-1 is what it really received (C01); NOT DECIDED: departure of the reader "
            "through SEDP disposal (remove_discovered_reader: Vec::remove with a symbolic index, see C16) - by reading, that path "
            "leaves the RTPS reader proxy, so is_change_acknowledged stays false and wait_for_acknowledgments can never complete "
            "after a matched reliable reader is deleted; ACKNACK base <= 0 (base = i64::MIN makes `base - 1` overflow: panic in the "
            "dev profile, wrap to i64::MAX = everything acknowledged in release) - a malformed-input matter, not a fault of the "
            "loss/reorder model; two or more proxies combined with ACKNACK deliveries beyond the thorough bound",
    level_text="bounded model checking (Kani/CBMC) of the real RtpsStatefulWriter acknowledgement functions for all proxy states "
               "reachable by two ACKNACKs, and of one participant-level step from a constructed pre-state.",
    level_note="trusted: Kani/CBMC; support_part1 fixtures. Open finding KF-C03-1 (thorough tier) is reported on every run.",
    technique=_TECH,
    assumptions=_STUBS_COMMON + [
        "ACKNACK readerSNState.base >= 1 and an empty bitmap",
        "the parked waiter of the departure harnesses is installed directly (the state notify_acknowledgments leaves, decided by c03_wait_registration)",
    ],
    timeout=_TMO,
    mem_gb=10,
    cbmc_args=_CBMC0,
    unwind_patterns=_PATTERNS,
)
