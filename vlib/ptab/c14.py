"""Property table: scope text per claimed property (level, bounds, what is outside the claim)."""
from ..props import prop

prop(
    "C14",
    ready=True,
    level="other",
    smt=True,
    explanation=(
        "Kani harnesses decide normalisation and monotonicity of Duration/Time arithmetic over the full i32 x u32 "
        "domain (no loops, so no unwinding bound). The wire round trip nanosec->fraction->nanosec (64-bit multiply / "
        "divide by constants, on which CBMC's bit-blasting does not terminate) is decided by translating the MIR of "
        "the real functions to SMT-LIB and discharging 'exists ns<10^9: roundtrip(ns)!=ns' and all MIR panic asserts "
        "with cvc5 (--solve-bv-as-int) and z3 (integer encoding); both must answer unsat."),
    bounds="none on values: every obligation quantifies over the full machine domain of its inputs (loop-free code)",
    outside="saturation at |sec| = i32::MAX (DDS infinite encoding) for monotonicity; non-normalised inputs (nanosec >= 10^9) for arithmetic",
    level_text="Loop-free arithmetic kernels decided over their full machine domain: no value bound, no unwinding bound. "
               "Reported as level 'other' because one evidence file mixes SMT obligations (MIR translation of the real functions, "
               "two encodings, two solvers, translator validated against the native code on every run) with Kani obligations; "
               "neither is sampling.",
    level_note="trusted: rustc MIR, /verif/mirsmt translator (validated per run against native code), z3+cvc5, Kani/CBMC; "
               "monotonicity claimed only off the i32 saturation corner (|sec| < 2^30)",
    technique="MIR->SMT-LIB translation of the real functions decided by cvc5+z3 (bit-vector and integer encodings) plus Kani/CBMC harnesses",
    assumptions=["time values satisfy the documented validity predicate nanosec < 10^9 where stated per obligation"],
)
