"""Property table: participant-level timing/status properties (C27, C28, C29, C30, C33)."""
from ..props import prop

_CBMC = ["--unwindset", "memcmp.0:17"]
# The harness attribute #[kani::unwind(n)] bounds entity/instance/change lists (<= n-1 elements); the few library /
# constructor loops whose trip count is a constant of the code get their own bound, looked up by function-name pattern in the
# goto binaries of the run (unwinding assertions stay on for every loop).
_UNWIND = [
    (r"StatusMask as std::iter::FromIterator", 14),   # DcpsStatusCondition::default(): 13 status kinds
    (r"overflowing_pow", 8),
    (r"retain_mut", 3),                                  # Vec::retain over 2 changes (+ exit test)
    (r"c29_lifespan::(remove_stale|time_until|history_fixture)", 4),  # the harness's own constant-bound loops (N <= 3)
]

_DIRECT = ("entities are installed DIRECTLY into the participant's pub entity lists (support_part2.rs) in the state the real "
           "create_topic / create_user_defined_publisher / create_data_writer (+ enable) calls give them: the real create_data_writer "
           "does not fit the solver budget (HARNESS_GUIDE) and is not code under test here; the TopicEntity is a struct literal whose "
           "type_information is a placeholder value (TypeInformation::from(DynamicType) runs MD5 over XTypes-serialized type objects) "
           "that no function driven here reads")
_GRID = ("time values range over the grid seconds 0..=7 x nanoseconds {0, 1, 5*10^8, 10^9-1} (every ordering, equality and "
         "nanosecond carry/borrow; a full-range nanosecond turns the check into the 64-bit divide-by-10^9 equivalence CBMC cannot "
         "decide - the arithmetic over the full domain is C14's subject)")
_ENV = ("environment: VRuntime clock returns the symbolic `now`, capturing transport, listener tasks never spawned, "
        "critical_section::acquire/release are no-ops (sequential execution)")

prop(
    "C29",
    ready=True,
    level="other",
    explanation=(
        "dust-dds implements lifespan on the writer side in two places, both executed for real by Kani: (1) "
        "DataWriterEntity::write_w_timestamp (expired-at-write branch) on a writer entity over a recording RtpsWriter, with symbolic "
        "source timestamp, clock reading and lifespan (finite or infinite): the change is handed to the RTPS writer when "
        "timestamp + lifespan > now or lifespan is infinite, and is never handed over when timestamp + lifespan < now; (2) "
        "DcpsDomainParticipant::remove_stale_writer_samples(now) on a real participant whose RtpsStatefulWriter history holds two "
        "changes with symbolic source timestamps (or none): afterwards every change whose timestamp + lifespan lies in the past is "
        "gone from `changes` - the one list first transmissions, ACKNACK repairs (write_message_reliable) and late-joiner history are "
        "all served from - every unexpired or untimestamped change is still there, unmodified and in order, and nothing else is; "
        "(3) time_until_stale_writer_sample(now) equals the minimum over the timestamped changes of (timestamp + lifespan - now), "
        "i.e. the worker (C31) is woken no later than the first expiry. At exact equality (timestamp + lifespan == now) either "
        "behaviour is accepted (the code treats it as expired at both places; the property says 'lies in the past')."),
    bounds="one writer; expired-at-write: one call, no instance registered before; history harnesses: exactly 2 changes (quick) / "
           "3 changes for time_until (thorough), one publisher, one writer; time values on the grid seconds 0..=7 x nanoseconds "
           "{0, 1, 5*10^8, 10^9-1}; per-loop bound 3 on Vec::retain's loops, unwinding assertions on",
    outside="samples already delivered into a reader cache (dust-dds has no reader-side expiry mechanism: a sample received before its "
            "expiry stays readable afterwards - not checked, stated); datagrams already handed to the transport; that the worker calls "
            "remove_stale_writer_samples in time (C31 decides the sleep bound from time_until_stale_writer_sample); histories of more "
            "than 2 changes for the removal step (3 changes with the retain loops bounded by 5 took > 14 min / 38 M clauses; "
            "Vec::retain treats every element alike); writers with several publishers/writers (list lengths > 1); the serialize / "
            "key-extraction prefix of the user-level write (DynamicData); full-range nanoseconds (C14)",
    level_text="Bounded model checking (Kani/CBMC) of the real expired-at-write branch on a writer entity and of the real "
               "remove_stale_writer_samples / time_until_stale_writer_sample on a real DcpsDomainParticipant, for every point of a small "
               "time grid and a 2-change writer history; not a proof for all history lengths or time values.",
    level_note="trusted: Kani/CBMC; the direct installation of publisher/writer into the participant (support_part2.rs); the recording "
               "RtpsWriter of the entity-level harness; oracle arithmetic uses the crate's own Time + Duration (C14)",
    technique="Kani/CBMC symbolic execution of DataWriterEntity::write_w_timestamp, DcpsDomainParticipant::remove_stale_writer_samples "
              "and time_until_stale_writer_sample (pattern S on the entity, pattern A on a real participant)",
    assumptions=[_DIRECT, _GRID, _ENV,
                 "writer history filled through RtpsStatefulWriter::changes_mut().push (what add_change stores when no reader is matched)"],
    timeout={"quick": 900, "thorough": 1500},
    mem_gb=12,
    cbmc_args=_CBMC,
    unwind_patterns=_UNWIND,
)

prop(
    "C28",
    ready=True,
    level="other",
    explanation=(
        "Reduced scope (DESIGN.md): of the writer instance-management contract only the parts that are reachable without traversing a "
        "DynamicData value are decided. (1) Entity level: DataWriterEntity::register_w_timestamp / unregister_w_timestamp / "
        "dispose_w_timestamp on a not-enabled writer (symbolic bookkeeping state) return NotEnabled, hand nothing to the RTPS writer "
        "and change nothing. (2) Participant level, real DcpsDomainParticipant: register_instance, unregister_instance, "
        "dispose_w_timestamp, lookup_instance and write_w_timestamp addressed to an existing, not-enabled writer fail with NotEnabled "
        "(the write through its reply oneshot), send no datagram, store nothing and leave no write pending. (3) The same five "
        "operations addressed to a (publisher, writer) handle pair of which at least one does not exist (both handles symbolic 16-byte "
        "values) fail with AlreadyDeleted and leave the existing writer untouched. 'Before touching its argument' is a checked "
        "obligation: the two entry points through which these operations read their sample (KeyHolderData::from_dynamic_data, "
        "data_writer_entity::serialize) are replaced by functions that fail the proof when reached."),
    bounds="one topic, one publisher, one writer; sample argument = empty DynamicData of a keyless type; handles: any 16 bytes; "
           "timestamps on the small grid; entity-level writer with 0 or 1 registered instance and any sequence counter",
    outside="everything behind key extraction from a DynamicData value: register_instance idempotence and 'returns the handle of the "
            "sample's key', lookup_instance for registered / unregistered instances, BadParameter for dispose/unregister of an unknown "
            "instance, IllegalOperation for keyless types (KeyHolderData::from_dynamic_data + serialize_final_without_header run the "
            "XTypes serializer over DynamicData: no answer in 400-900 s even for 1-member types, DESIGN.md P-i); the user-facing "
            "DataWriterAsync wrappers (mail round trip through the worker); operations other than the five listed (get_* status "
            "reads and listener/QoS setters do not return NotEnabled on a disabled writer, which DDS 1.4 2.2.2.1.1.7 allows)",
    level_text="Bounded model checking (Kani/CBMC) of the NotEnabled / AlreadyDeleted paths of the writer's instance-management and "
               "write operations on a real DataWriterEntity and a real DcpsDomainParticipant; the keyed-instance part of the contract "
               "is NOT decided (needs DynamicData).",
    level_note="trusted: Kani/CBMC; direct installation of topic/publisher/writer (support_part2.rs); the two failing stubs make "
               "'argument untouched' an obligation rather than an assumption; Waker::wake/wake_by_ref/drop are stubbed by the no-ops of "
               "Waker::noop(), the only waker the harness creates",
    technique="Kani/CBMC symbolic execution of DataWriterEntity::{register,unregister,dispose}_w_timestamp and of "
              "DcpsDomainParticipant::{register_instance, unregister_instance, dispose_w_timestamp, lookup_instance, write_w_timestamp}",
    assumptions=[_DIRECT, _ENV],
    timeout={"quick": 900, "thorough": 1500},
    mem_gb=12,
    cbmc_args=_CBMC,
    unwind_patterns=_UNWIND,
)

prop(
    "C27",
    level="other",
    explanation=(
        "NOT CLAIMED. The blocking decision of writer_methods::write_w_timestamp and its retry process_pending_write_samples sit behind "
        "serialize(dynamic_data) / KeyHolderData::from_dynamic_data (DynamicData: not encodable, DESIGN.md P-i). The reduced obligation "
        "planned in DESIGN.md - check_pending_writer_sample_timeout(now) on a directly installed PendingWriteSample - was built "
        "(c27_pending_timeout.rs: c27_timeout_finite / _infinite, parked) and does not run: the function drops the PendingWriteSample "
        "after sending Timeout, i.e. runs the drop glue of DynamicData { BTreeMap<u32, DataStorage> }; the (empty) map is read back from "
        "a heap-stored writer, so its emptiness is unknown to symbolic execution, which explores BTreeMap's dying iterator and the "
        "mutually recursive DataStorage/DynamicData drop glue: > 400 s of symbolic execution alone with bound 1 on every btree/drop-glue "
        "loop, > 600 s with bound 3. Drop glue / generic trait impls cannot be stubbed in Kani 0.68 and the drop is inside the code under "
        "test. What does run: time_until_pending_writer_sample_timeout(now) == max(0, expiration - now) for a blocked write with finite "
        "max_blocking_time, None for an infinite one or when nothing is blocked (3 harnesses, 20 s each) - too thin to claim C27."),
    bounds="time_until_pending_writer_sample_timeout only: one writer with one blocked write; time grid as C29",
    outside="the whole property statement (blocking instead of dropping, Timeout without storing, depth bound)",
    level_text="not claimed", level_note="not claimed",
    technique="Kani/CBMC (attempted)", assumptions=[_DIRECT, _GRID, _ENV],
    timeout={"quick": 600, "thorough": 900},
    mem_gb=12,
    cbmc_args=_CBMC,
    unwind_patterns=_UNWIND,
)

prop(
    "C30",
    level="other",
    explanation=(
        "NOT CLAIMED. check_missed_writer_deadline / check_missed_reader_deadline are monolithic methods of DcpsDomainParticipant: three "
        "nested loops (writers of a publisher, instances of a writer, missed handles) around a listener-dispatch body (async handle "
        "construction, topic lookup by name, three mask tests / mpsc sends, status condition update). The entity lists live in heap "
        "buffers whose headers sit inside other heap-allocated entities (> 64 bytes: not field-sensitive in CBMC), so their lengths are "
        "never constant-folded and every loop runs one extra pass over unconstrained memory; the passes multiply around the body. "
        "Measured on the cheapest variant (c30_onecall.rs: ONE call, one writer, one instance, MpscSender::send / "
        "DcpsStatusCondition::add_communication_state / String::clone replaced by recorders): symbolic execution 105 s, then the SAT "
        "encoding runs out of 12 GB (CaDiCaL and MiniSat, also without pointer checks); with the real mpsc channel and status condition: "
        "no answer in 900 s; re-run with Kani's assertion reachability checks switched off (the framework default since): 237 s, MiniSat out of memory at 12 GB. The same binary with the loops cut after the real elements (unsound: unwinding assertions fail) needs "
        "27 s / < 2 GB, i.e. the real code is cheap and the extra passes are the whole cost; they cannot be avoided: Iterator::next of "
        "slice/vec iterators is a generic trait impl (not stubbable in Kani 0.68), --max-field-sensitivity-array-size 256..2048 stalls "
        "symbolic execution (> 400 s without reaching the first loop). The two-call harnesses that state the property "
        "(c30_deadline.rs, incl. the __known/__rest pair for finding candidate KF-C30-1) are kept parked."),
    bounds="-", outside="the whole property statement",
    level_text="not claimed", level_note="not claimed",
    technique="Kani/CBMC (attempted)", assumptions=[_DIRECT, _GRID, _ENV],
    timeout={"quick": 600, "thorough": 900},
    mem_gb=12,
    cbmc_args=_CBMC,
    unwind_patterns=_UNWIND,
)

prop(
    "C33",
    level="other",
    explanation=(
        "NOT CLAIMED. Every status-raising site that is reachable without XTypes (requested/offered deadline missed in "
        "check_missed_*_deadline; publication/subscription matched on the removal paths of discovery_methods.rs) has the same shape as "
        "C30's functions: nested loops over heap-stored entity lists around the three-level listener chain; the sample-rejected / "
        "data-available sites (communication_methods.rs) are only reached through add_user_defined_cache_change behind the XTypes "
        "deserializer. The measured cost of ONE call of the simplest such function (one entity per list, recorder stubs for the channel "
        "and the status condition) is 105 s of symbolic execution followed by an out-of-memory SAT encoding at 12 GB (see C30); three "
        "real mpsc channels plus three symbolic masks only add to that. No smaller unit contains the precedence chain (it is inline in "
        "the participant methods), and re-implementing it in a harness is not checking the real code."),
    bounds="-", outside="the whole property statement",
    level_text="not claimed", level_note="not claimed",
    technique="Kani/CBMC (attempted)", assumptions=[],
    timeout={"quick": 600, "thorough": 900},
    mem_gb=12,
    cbmc_args=_CBMC,
    unwind_patterns=_UNWIND,
)
