"""Property table: participant-level timing/status properties (C27, C28, C29, C30, C33)."""
from ..props import prop

_CBMC = ["--unwindset", "memcmp.0:17"]
# The harness attribute #[kani::unwind(n)] bounds entity/instance/change lists (<= n-1 elements); the few library /
# constructor loops whose trip count is a constant of the code get their own bound, looked up by function-name pattern in the
# goto binaries of the run (unwinding assertions stay on for every loop).
_UNWIND = [
    (r"StatusMask as std::iter::FromIterator", 14),   # DcpsStatusCondition::default(): 13 status kinds
    (r"overflowing_pow", 8),
    (r"retain_mut", 3),                                  # Vec::retain over 2 changes (+ exit test)
    (r"c29_lifespan::(remove_stale|time_until|history_fixture)", 4),  # the harness's own constant-bound loops (N <= 3)
]

for _pid in ("C30", "C29", "C33", "C27", "C28"):
    prop(
        _pid,
        level="other",
        explanation="(in progress)", bounds="", outside="", level_text="", level_note="", technique="", assumptions=[],
        timeout={"quick": 600, "thorough": 900},
        mem_gb=12,
        cbmc_args=_CBMC,
        unwind_patterns=_UNWIND,
    )
