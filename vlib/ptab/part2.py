"""Property table: participant-level timing/status properties (C27, C28, C29, C30, C33)."""
from ..props import prop

# Per-loop bounds for library/constructor loops whose trip count is a constant of the code, not a bound of the check
# (unwinding assertions stay on for every loop: a label that no longer matches makes the run inconclusive, never a pass):
#  * memcmp.0            - CBMC's builtin memcmp ([u8;16] handle / String equality): 16 bytes + exit test,
#  * StatusMask::from_iter over the 13 StatusKinds in DcpsStatusCondition::default() (every entity constructor),
#  * u64::overflowing_pow (10^9 constants of the time arithmetic).
# The harness attribute #[kani::unwind(n)] bounds every other loop (entity/instance/change lists of <= n-1 elements).
_FROM_ITER = ("_RINvXs_NtNtCs36Lg0Iv5OGD_8dust_dds4dcps11status_maskNtB5_10StatusMaskINtNtNtNtCs8xvirJzNMvV_4core4iter6traits7collect"
              "12FromIteratorRNtNtNtB7_14infrastructure6status10StatusKindE9from_iterINtNtNtB1e_5slice4iter4IterB26_EEB9_.0")
_POW = "_RNvMs7_NtCs8xvirJzNMvV_4core3numy15overflowing_powCs36Lg0Iv5OGD_8dust_dds"
#  * the `registered_notifications.drain(..)` loop of DcpsStatusCondition::add_communication_state: bound 1 = "the loop body
#    must be unreachable" (no WaitSet is attached in these harnesses); checked by the unwinding assertion.
_ACS = "_RNvMs_NtNtCs36Lg0Iv5OGD_8dust_dds4dcps16status_conditionNtB4_19DcpsStatusCondition23add_communication_state.0"
_CBMC = ["--unwindset", "memcmp.0:17,%s:15,%s.0:7,%s.1:7" % (_FROM_ITER, _POW, _POW)]

for _pid in ("C30", "C29", "C33", "C27", "C28"):
    prop(
        _pid,
        level="other",
        explanation="(in progress)", bounds="", outside="", level_text="", level_note="", technique="", assumptions=[],
        timeout={"quick": 600, "thorough": 600},
        mem_gb=8,
        cbmc_args=_CBMC,
    )
