"""Property table: DataReader read/take, instance life cycle, next-instance walk, exclusive ownership (C20, C22, C23, C24)."""
from ..props import prop

for _p in ("C20", "C22", "C23", "C24"):
    prop(_p, level="other", explanation="stub while the harnesses are being built", bounds="", outside="", level_text="",
         level_note="", technique="Kani/CBMC symbolic execution of the real code, one step from a constructed pre-state",
         assumptions=[], timeout={"quick": 600, "thorough": 1500}, mem_gb=8)
