"""Property table: DataReader read/take, instance life cycle, next-instance walk, exclusive ownership (C20, C22, C23, C24)."""
import os
import re

from ..common import REPO
from ..props import prop

_STUBS = (
    "Three library comparison methods are replaced by loop-free equivalents through kani::stub, because their 16-byte "
    "memcmp loop forces the global unwinding bound to 17 and every loop over a vector whose length depends on a symbolic "
    "condition is then unrolled 17 times (measured: no answer in 900 s for a read of one stored sample): "
    "InstanceHandle ==/cmp/partial_cmp -> 128-bit comparisons, [T; N] ==/!= [U; N] -> element-wise. The harnesses "
    "c20_stub_equivalence and c24_stub_equivalence prove, with the real methods and unwind 17, that the replacements "
    "agree with the library on all 2^256 input pairs; they are part of every run of these properties.")

_MEM_NOTE = (
    "Objects stored in a Vec live in byte-array heap objects of the CBMC memory model; values read back from them are "
    "never constant-folded, so the lengths of the vectors that create_sample_collection fills under mask tests are "
    "symbolic even for concrete inputs and its three nested post-processing loops (iterator chains returning element "
    "pointers merged over the iterations) are unrolled to the global bound, each merged-pointer access costing about "
    "10^5 SAT variables.")


# Per-loop unwinding bounds (vlib/kani.py resolve_unwind_patterns; unwinding assertions stay on, so a bound that is too
# small is reported as inconclusive, never silently truncated).  The loops of create_sample_collection that run over the
# collection being built (the `samples` vector and the function's own two post-processing loops) are the expensive ones
# (see _MEM_NOTE); every harness of this family stores at most ONE sample, so 2 iterations suffice for them while the
# global bound of the harness (mask `contains` loops, instance lookups) stays at 3.
_CAPS = [
    (r"SampleInfo\)> as std::iter", 2),
    (r"::create_sample_collection$", 2),
]


def _wrapper_guard():
    """The C23 harness mirrors the two-line wrapper composition; pin the wrapper text in /repo."""
    path = os.path.join(REPO, "dds/src/dcps/dcps_domain_participant/user_defined_data_reader.rs")
    try:
        with open(path) as f:
            src = re.sub(r"\s+", "", f.read())
    except OSError as e:
        return False, "cannot read %s: %s" % (path, e)
    for op in ("read", "take"):
        want = ("pubfn%s_next_instance(&mutself,max_samples:i32,previous_handle:&Option<InstanceHandle>,"
                "sample_states:&[SampleStateKind],view_states:&[ViewStateKind],instance_states:&[InstanceStateKind],)"
                "->DdsResult<SampleList>{if!self.enabled{returnErr(DdsError::NotEnabled);}"
                "matchself.next_instance(previous_handle){Some(next_handle)=>self.%s(max_samples,sample_states,"
                "view_states,instance_states,&Some(next_handle),),None=>Err(DdsError::NoData),}}") % (op, op)
        if want not in src:
            return False, "UserDefinedDataReader::%s_next_instance no longer has the mirrored two-line form" % op
    inner = ("pubfnread(&mutself,max_samples:i32,sample_states:&[SampleStateKind],view_states:&[ViewStateKind],"
             "instance_states:&[InstanceStateKind],specific_instance_handle:&Option<InstanceHandle>,)->DdsResult<SampleList>{"
             "self.status_condition.remove_communication_state(StatusKind::DataAvailable);self.reader.read(max_samples,"
             "sample_states,view_states,instance_states,specific_instance_handle,)}")
    if inner not in src:
        return False, "UserDefinedDataReader::read is no longer a plain delegation to DataReaderEntity::read"
    return True, "user_defined_data_reader.rs: read/take_next_instance = next_instance + read/take of that instance"


prop(
    "C20",
    ready=True,
    level="other",
    explanation=(
        "Kani executes ONE real DataReaderEntity::<()>::read or ::take (thin wrappers around create_sample_collection, where "
        "all the work happens) from a directly constructed symbolic pre-state: the instance table (view state, instance "
        "state, both generation counts, handle bytes) and the stored samples (kind, writer, sample state, generation counts, "
        "timestamp, instance) are symbolic, as are the three masks, max_samples, the optional specific instance handle "
        "(none / known / unknown). Oracle = a reference filter over the stored samples (in the three masks and of the "
        "requested instance, first max_samples in storage order -- with the single stored sample that fits the memory limit: the sample iff it matches) plus the DDS 1.4 definitions of sample_rank, "
        "generation_rank and absolute_generation_rank (2.2.2.5.1.9-11): the returned list is exactly the selected samples "
        "with the SampleInfo states at the time of the call, valid_data, handles, counts; read marks exactly those READ and "
        "keeps everything, take removes exactly those and keeps the others in order; the instances of returned samples "
        "become NOT_NEW and nothing else of any instance changes; NoData iff nothing matches; BadParameter iff the handle "
        "is unknown. The two generation ranks are a recorded open finding (KF-C20-1: computed from transitions inside the "
        "collection instead of the samples' own counts); they are proved correct under the negated trigger. " + _MEM_NOTE +
        " This is why the check stays at one stored sample."),
    bounds="0 or 1 stored sample (all 5 change kinds) over 2 instances, all three masks any non-empty subset, max_samples 1..=4 or "
           "i32::MAX, specific handle none / known / unknown; generation counts 0..10^6; handles with 2 symbolic bytes, writer "
           "guids with 1 symbolic byte; unwind 3 with the loops over the collection being built capped at 2 iterations (per-loop "
           "bounds, unwinding assertions on). Quick tier: read with 1 stored sample and the KF-C20-1 known/rest pair; thorough adds take "
           "with 1 stored sample, read/take on the empty cache and the stub-equivalence proof (no deeper bound exists, see outside)",
    outside="TWO OR MORE STORED SAMPLES: measured, one read of 2 stored samples over 2 instances with unwind 3 exhausts 13 GB in "
            "the SAT conversion (1 sample: 3.5 million variables / 7 GB with a uniform bound 3, about 1.5 million with the collection loops capped at 2), so "
            "the parts of the statement that need two samples -- the cut at max_samples inside a longer matching list, the order "
            "of the returned list, sample_rank > 0, generation_rank relative to a later sample of the collection, take keeping the "
            "order of the remaining samples -- are NOT decided by this check (the harness body is generic in the number of samples "
            "and checks them; it cannot be run within the memory limit); max_samples <= 0; 'grouped by instance' (the "
            "implementation returns storage order; the DDS text allows either); the UserDefinedDataReader wrapper (clears "
            "DATA_AVAILABLE, then delegates) and reader_methods.rs (deserialisation through DynamicData: not executable with this "
            "technique)",
    level_text="Bounded model checking with Kani/CBMC of the real read/take on symbolic reader states with at most ONE stored sample; "
               "reported as level 'other'.",
    level_note="trusted: Kani/CBMC, the pre-state constructors and the reference filter in harness/incrate/c20_read_take.rs. "
               "KF-C20-1 (generation ranks) is open and reported on every run; " + _STUBS,
    technique="Kani/CBMC symbolic execution of the real read/take, one step from a constructed pre-state",
    assumptions=[
        "I1: one InstanceState per handle and every stored sample has its InstanceState (add_reader_change creates it before storing)",
        "I2: a stored sample's generation counts are <= its instance's current counts and do not decrease along the storage order of an instance (BY_RECEPTION_TIMESTAMP)",
    ],
    timeout={"quick": 900, "thorough": 3000},
    mem_gb=10,
    unwind_patterns=_CAPS,
)

prop(
    "C22",
    ready=True,
    level="other",
    explanation=(
        "Kani executes ONE real DataReaderEntity::<()>::add_reader_change (which applies InstanceState::update_state before "
        "and after its filters) from a symbolic instance table -- two known instances with arbitrary view state, instance "
        "state and generation counts, one stored sample, a change of any of the 5 kinds for a known or a never-seen "
        "instance -- and compares the successor with a 15-line reference model of the DDS instance life cycle (DDS 1.4 "
        "2.2.2.5.1.3-5, figure 2.11): dispose -> NOT_ALIVE_DISPOSED, data on a not-alive instance -> ALIVE with the matching "
        "generation count + 1, first sample -> ALIVE/NEW/0/0, view state NEW exactly for a new or reborn instance, everything "
        "else (other instances, stored samples) untouched, the stored sample carries the instance's counts at reception. "
        "Where DDS leaves freedom every allowed outcome is accepted (dispose of a NO_WRITERS instance, ALIVE_FILTERED, a "
        "single writer's unregister of an ALIVE instance). The read/take half (an access makes exactly the accessed "
        "instances NOT_NEW and never changes instance state or counts) is asserted by the C20 read/take harnesses. "
        "'Unregistration by ALL writers' needs two chained calls because the reader records no set of live writers: writer "
        "B writes, writer A unregisters. Two open findings are reported on every run: KF-C22-1 (view state becomes NEW on "
        "dispose/unregister of a viewed instance and stays NOT_NEW on rebirth of a viewed instance) and KF-C22-2 (the "
        "first unregister of one of several writers gives NOT_ALIVE_NO_WRITERS); the property is proved for the negated "
        "triggers (single writer: write then unregister gives NOT_ALIVE_NO_WRITERS)."),
    bounds="one add_reader_change (two for the unregister obligations) on a reader with 2 known instances and 1 stored sample; "
           "generation counts 0..10^6; all 5 change kinds; handles with 2 symbolic bytes, writer guids with 1 symbolic byte; "
           "read/take half: bounds of C20; unwind 4. Quick tier: the one-step pair (KF-C22-1 known/rest); thorough adds the two chained-call "
           "unregister obligations (KF-C22-2 known/rest), take with 1 stored sample (C20 harness) and the stub-equivalence proof",
    outside="histories are covered only through the one-step induction over the symbolic instance state (the state of an instance "
            "is exactly view state, instance state and the two counts); generation counts near i32::MAX (increment overflow needs "
            "2^31 rebirths); reader QoS other than SHARED ownership / KEEP_ALL / unlimited / BY_RECEPTION_TIMESTAMP / no time filter "
            "(a change that is Rejected or filtered still passes the first update_state: not asserted either way, DDS does not "
            "say); EXCLUSIVE ownership is C24; the writer side (autodispose on unregister, data_writer_entity.rs) produces the "
            "change kinds and is not executed; SampleInfo as delivered by read is C20",
    level_text="Bounded model checking with Kani/CBMC of the real add_reader_change against a reference life-cycle model, one "
               "inductive step over a fully symbolic instance state; reported as level 'other'.",
    level_note="trusted: Kani/CBMC, the constructors and the reference model in harness/incrate/c22_lifecycle.rs. KF-C22-1 and "
               "KF-C22-2 are open and reported on every run; " + _STUBS,
    technique="Kani/CBMC symbolic execution of the real add_reader_change, one inductive step (two chained calls for unregister)",
    assumptions=[
        "I1: one InstanceState per handle (asserted again after the step)",
        "reader QoS: SHARED ownership, KEEP_ALL, unlimited resource limits, BY_RECEPTION_TIMESTAMP, minimum_separation 0",
    ],
    timeout={"quick": 900, "thorough": 3000},
    mem_gb=10,
    unwind_patterns=_CAPS,
)

prop(
    "C23",
    ready=True,
    level="other",
    guards=[_wrapper_guard],
    explanation=(
        "UserDefinedDataReader::read_next_instance / take_next_instance are two-line compositions: next_instance(previous) "
        "then read / take of exactly that instance, NoData if there is none (pinned by a source guard; the wrapper type owns "
        "an RtpsStatefulReader and is mirrored on DataReaderEntity<()>). Given C20 (read of a specific instance returns "
        "exactly its matching samples, NoData iff none) the property holds iff next_instance returns the smallest handle "
        "greater than the given one THAT HAS SAMPLES MATCHING THE MASKS whenever such an instance exists. Kani executes the "
        "real DataReaderEntity::next_instance on a symbolic reader (3 instances in any storage order, 2-3 stored samples "
        "with symbolic instance and sample state, symbolic masks, previous handle none or arbitrary) against that oracle; "
        "the mirrored wrapper is additionally run end to end (real next_instance + real read) on 2 "
        "instances / 1 sample. Open finding KF-C23-1, reported on every run: next_instance looks neither at the masks nor "
        "at the stored samples, so an instance without matching samples (e.g. all taken; InstanceState entries are never "
        "removed) is selected, the inner read answers NoData and the walk stops although a later instance has matching "
        "samples. For the negated trigger the property is proved."),
    bounds="next_instance: 3 instances (handles with 2 symbolic bytes: first and last byte of the 16, i.e. both ends of the "
           "lexicographic order), 2 stored samples (quick) / 3 (thorough), masks any non-empty subset, previous handle none or "
           "any 2-symbolic-byte handle, unwind 4; end-to-end wrapper: 2 instances in either storage order, 1 stored sample, the "
           "singleton masks matching it, max_samples 1, previous handle none, unwind 3 with the collection loops capped at 2. "
           "Quick tier: next_instance known/rest pair with 2 stored samples (unwind 4 with the comparison stubs); thorough adds 3 "
           "stored samples, the end-to-end wrapper pair and the stub-equivalence proof",
    outside="more than 3 instances; 'repeated calls visit every instance exactly once' is implied by the single-call statement "
            "(each call returns an instance strictly greater than the previous one) and not executed as a sequence; "
            "take_next_instance end to end (same composition with take; the take path of create_sample_collection is C20); the "
            "DATA_AVAILABLE status bit cleared by the wrapper; reader_methods.rs (deserialisation)",
    level_text="Bounded model checking with Kani/CBMC of the real next_instance (and of the mirrored wrapper with the real "
               "read); reported as level 'other'.",
    level_note="trusted: Kani/CBMC, the oracle in harness/incrate/c23_next_instance.rs, the mirrored wrapper (source guard), C20 for "
               "the inner read. KF-C23-1 is open and reported on every run; " + _STUBS,
    technique="Kani/CBMC symbolic execution of the real next_instance; mirrored two-line wrapper; source guard",
    assumptions=[
        "I1: one InstanceState per handle and every stored sample has its InstanceState",
        "the wrapper UserDefinedDataReader::{read,take}_next_instance is mirrored, not executed (source guard on its text)",
    ],
    timeout={"quick": 900, "thorough": 3000},
    mem_gb=10,
    unwind_patterns=_CAPS,
)

prop(
    "C24",
    ready=True,
    level="other",
    explanation=(
        "Kani executes ONE real DataReaderEntity::<()>::add_reader_change on a reader with EXCLUSIVE ownership: one instance "
        "with symbolic state, two matched writers with ownership strengths over the full i32 range, an ownership record "
        "naming one of them, and a change of any kind from either writer. Demanded: a change from the owner or a stronger "
        "writer is accepted and, for data, its writer is the owner afterwards; a weaker writer's change is NotAdded and has "
        "no effect at all (stored samples, owner, view/instance state, generation counts); for equal strengths either "
        "outcome is accepted, and on two independent readers the two writers cannot both take the instance from each other "
        "(no flip-flop; the implementation keeps the first owner); a dispose keeps the owner, an unregister must release "
        "the instance, an instance without record is taken by any matched writer; never more than one record per instance. "
        "Three open findings are reported on every run: KF-C24-1 (update_state runs before the ownership test: a weaker "
        "writer's dispose/unregister/write changes the instance state although NotAdded), KF-C24-2 (the owner's unregister "
        "does not release the instance: the record removed at line 419 is re-created at the end of the function) and "
        "KF-C24-3 (an owner that is no longer matched keeps the instance: every change is NotAdded). For the negated "
        "triggers the step property is proved."),
    bounds="one add_reader_change; 1 instance (fully symbolic view/instance state, counts 0..10^6), 2 matched writers (guids "
           "with 1 symbolic byte, strengths full i32), owner either of them, change of any of the 5 kinds from either writer; "
           "tie obligation: 2 readers x 1 call; unwind 4. Quick tier (the symbolic-kind step needs 5 GB): the same step with a concrete "
           "kind -- data (ALIVE) from either writer [main obligation], NOT_ALIVE_DISPOSED from the weaker non-owner [KF-C24-1], "
           "NOT_ALIVE_UNREGISTERED from the owner [KF-C24-2] -- and the unmatched-owner step [KF-C24-3]; thorough: all 5 kinds "
           "symbolic with the full triggers and their negations, the tie obligation, the free-instance step, both stub-equivalence proofs",
    outside="ownership release on a missed deadline (DcpsDomainParticipant::check_missed_reader_deadline, a one-line retain on "
            "instance_ownership inside the participant-level timer path: needs the whole participant aggregate) and the deadline "
            "timestamp side of KF-C24-1 (a non-owner's change refreshes last_received_time_stamp); more than two writers / one "
            "instance; sequences of changes beyond the single step (hand-over is split into 'unregister releases' + 'free "
            "instance is taken'); liveliness loss of the owner; the agreement of several readers on the tie winner (the "
            "first-owner rule depends on arrival order; only determinism and no flip-flop are demanded)",
    level_text="Bounded model checking with Kani/CBMC of the real add_reader_change under EXCLUSIVE ownership, one step from a "
               "symbolic state; reported as level 'other'.",
    level_note="trusted: Kani/CBMC, the fixture and oracle in harness/incrate/c24_ownership.rs. KF-C24-1, KF-C24-2, KF-C24-3 are "
               "open and reported on every run; " + _STUBS,
    technique="Kani/CBMC symbolic execution of the real add_reader_change, one step from a constructed pre-state",
    assumptions=[
        "I: at most one ownership record per instance (asserted again after the step); except in c24_owner_unmatched__known the recorded owner is a matched writer",
        "reader QoS: EXCLUSIVE ownership, KEEP_ALL, unlimited resource limits, BY_RECEPTION_TIMESTAMP, minimum_separation 0",
    ],
    timeout={"quick": 900, "thorough": 3000},
    mem_gb=10,
)
