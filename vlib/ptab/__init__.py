"""Property table: one file per family, each calling props.prop(<id>, ...)."""
import importlib
import os
import pkgutil

for _m in sorted(pkgutil.iter_modules([os.path.dirname(__file__)]), key=lambda m: m.name):
    importlib.import_module(__name__ + "." + _m.name)
