"""Minimal MIR (rustc -Zunpretty=mir) parser and symbolic executor for loop-free integer functions.

Supported: integer/bool locals, tuples, structs (as positional tuples), references to locals
(aliases), IntToInt casts, checked/unchecked arithmetic, comparisons, shifts, Not/Neg,
switchInt, assert (-> panic outcome), goto, return, calls to other functions of the dump (inlined
path-wise) and to a small table of core intrinsics.  Anything else raises Unsupported: the
obligation is then reported inconclusive, never as a pass.

Two term languages (class BVOps / IntOps): fixed-width bit-vectors, and mathematical integers
kept canonical in [0, 2^w) with explicit mod at every wrapping point.
"""
import re


class Unsupported(Exception):
    pass


# ------------------------------------------------------------------------------------------------
# parsing


class Function:
    def __init__(self, name, params, ret):
        self.name = name
        self.params = params  # [(local, type)]
        self.ret = ret
        self.locals = {}
        self.blocks = {}  # bb -> [lines]
        self.src_line = None


HDR = re.compile(r"^fn (.+?)\((.*)\) -> (.+?) \{$")
LET = re.compile(r"^\s*let (?:mut )?(_\d+): (.+);$")
BB = re.compile(r"^\s*(bb\d+)(?: \(cleanup\))?: \{$")


def split_top(s, sep=","):
    out, depth, cur = [], 0, ""
    i = 0
    in_str = False
    while i < len(s):
        c = s[i]
        if in_str:
            cur += c
            if c == "\\":
                cur += s[i + 1]
                i += 1
            elif c == '"':
                in_str = False
        elif c == '"':
            in_str = True
            cur += c
        elif c in "([{<":
            depth += 1
            cur += c
        elif c in ")]}>":
            # '->' and '>' in comparisons do not occur inside operand lists we split
            depth -= 1
            cur += c
        elif c == sep and depth == 0:
            out.append(cur.strip())
            cur = ""
        else:
            cur += c
        i += 1
    if cur.strip():
        out.append(cur.strip())
    return out


CONST_ITEM = re.compile(r"^const ([A-Za-z_][A-Za-z0-9_]*): ([iu](?:8|16|32|64|128|size)) = const (.+);$")
# simple integer const items of the crate: bare name -> set of (type, value) (the MIR dump prints them without
# their module path, so a name defined twice with different values is ambiguous and refused)
CONST_ITEMS = {}


def _const_item_value(ty, txt):
    txt = txt.strip()
    m = re.match(r"^(-?\d+)_" + ty + "$", txt)
    if m:
        return int(m.group(1))
    w, sg = INT_T[ty]
    if txt == ty + "::MAX":
        return (1 << (w - 1)) - 1 if sg else (1 << w) - 1
    if txt == ty + "::MIN":
        return -(1 << (w - 1)) if sg else 0
    return None


def parse_mir(text):
    fns = {}
    cur = None
    bb = None
    CONST_ITEMS.clear()
    for line in text.splitlines():
        if cur is None:
            mc = CONST_ITEM.match(line)
            if mc:
                v = _const_item_value(mc.group(2), mc.group(3))
                if v is not None:
                    CONST_ITEMS.setdefault(mc.group(1), set()).add((mc.group(2), v))
                continue
            m = HDR.match(line)
            if m:
                params = []
                for p in split_top(m.group(2)):
                    n, _, t = p.partition(": ")
                    params.append((n.strip(), t.strip()))
                cur = Function(m.group(1), params, m.group(3))
                for n, t in params:
                    cur.locals[n] = t
                cur.locals["_0"] = m.group(3)
            continue
        if line == "}":
            fns.setdefault(cur.name, cur)  # first definition wins (const/runtime twins are identical)
            cur = None
            bb = None
            continue
        m = LET.match(line)
        if m and bb is None:
            cur.locals[m.group(1)] = m.group(2)
            continue
        m = BB.match(line)
        if m:
            bb = m.group(1)
            cur.blocks[bb] = []
            continue
        if bb is not None:
            s = line.strip()
            if s == "}":
                bb = None
            elif s:
                cur.blocks[bb].append(s)
    return fns


# ------------------------------------------------------------------------------------------------
# types

INT_T = {"u8": (8, False), "u16": (16, False), "u32": (32, False), "u64": (64, False), "u128": (128, False),
         "usize": (64, False), "i8": (8, True), "i16": (16, True), "i32": (32, True), "i64": (64, True),
         "i128": (128, True), "isize": (64, True)}


def int_type(t):
    t = t.strip()
    if t in INT_T:
        return INT_T[t]
    return None


# ------------------------------------------------------------------------------------------------
# values


class V:
    pass


class Int(V):
    def __init__(self, term, w, signed):
        self.term, self.w, self.signed = term, w, signed


class Bool(V):
    def __init__(self, term):
        self.term = term


class Tup(V):
    def __init__(self, items):
        self.items = list(items)


class Ref(V):
    def __init__(self, frame, place):
        self.frame, self.place = frame, place


class Unit(V):
    pass


# ------------------------------------------------------------------------------------------------
# term languages


class BVOps:
    name = "bv"

    def sort(self, w):
        return "(_ BitVec %d)" % w

    def const(self, v, w):
        return "(_ bv%d %d)" % (v % (1 << w), w)

    def input_constraints(self, term, w):
        return []

    def add(self, a, b, w):
        return "(bvadd %s %s)" % (a, b)

    def sub(self, a, b, w):
        return "(bvsub %s %s)" % (a, b)

    def mul(self, a, b, w):
        return "(bvmul %s %s)" % (a, b)

    def udiv(self, a, b, w):
        return "(bvudiv %s %s)" % (a, b)

    def urem(self, a, b, w):
        return "(bvurem %s %s)" % (a, b)

    def sdiv(self, a, b, w):
        return "(bvsdiv %s %s)" % (a, b)

    def srem(self, a, b, w):
        return "(bvsrem %s %s)" % (a, b)

    def band(self, a, b, w):
        return "(bvand %s %s)" % (a, b)

    def bor(self, a, b, w):
        return "(bvor %s %s)" % (a, b)

    def bxor(self, a, b, w):
        return "(bvxor %s %s)" % (a, b)

    def bnot(self, a, w):
        return "(bvnot %s)" % a

    def neg(self, a, w):
        return "(bvneg %s)" % a

    def shl(self, a, b, w):
        return "(bvshl %s %s)" % (a, b)

    def lshr(self, a, b, w):
        return "(bvlshr %s %s)" % (a, b)

    def ashr(self, a, b, w):
        return "(bvashr %s %s)" % (a, b)

    def eq(self, a, b):
        return "(= %s %s)" % (a, b)

    def ult(self, a, b, w):
        return "(bvult %s %s)" % (a, b)

    def ule(self, a, b, w):
        return "(bvule %s %s)" % (a, b)

    def slt(self, a, b, w):
        return "(bvslt %s %s)" % (a, b)

    def sle(self, a, b, w):
        return "(bvsle %s %s)" % (a, b)

    def zext(self, a, w, w2):
        return a if w2 == w else "((_ zero_extend %d) %s)" % (w2 - w, a)

    def sext(self, a, w, w2):
        return a if w2 == w else "((_ sign_extend %d) %s)" % (w2 - w, a)

    def trunc(self, a, w, w2):
        return a if w2 == w else "((_ extract %d 0) %s)" % (w2 - 1, a)

    def ite(self, c, a, b):
        return "(ite %s %s %s)" % (c, a, b)

    # overflow predicates
    def uadd_ovf(self, a, b, w):
        return "(bvult (bvadd %s %s) %s)" % (a, b, a)

    def usub_ovf(self, a, b, w):
        return "(bvult %s %s)" % (a, b)

    def umul_ovf(self, a, b, w):
        return "(not (= ((_ extract %d %d) (bvmul ((_ zero_extend %d) %s) ((_ zero_extend %d) %s))) (_ bv0 %d)))" % (
            2 * w - 1, w, w, a, w, b, w)

    def sadd_ovf(self, a, b, w):
        e = "(bvadd ((_ sign_extend 1) %s) ((_ sign_extend 1) %s))" % (a, b)
        return "(not (= ((_ sign_extend 1) ((_ extract %d 0) %s)) %s))" % (w - 1, e, e)

    def ssub_ovf(self, a, b, w):
        e = "(bvsub ((_ sign_extend 1) %s) ((_ sign_extend 1) %s))" % (a, b)
        return "(not (= ((_ sign_extend 1) ((_ extract %d 0) %s)) %s))" % (w - 1, e, e)

    def smul_ovf(self, a, b, w):
        e = "(bvmul ((_ sign_extend %d) %s) ((_ sign_extend %d) %s))" % (w, a, w, b)
        return "(not (= ((_ sign_extend %d) ((_ extract %d 0) %s)) %s))" % (w, w - 1, e, e)

    def ssat(self, kind, a, b, w):
        op = "bvadd" if kind == "add" else "bvsub"
        e = "(%s ((_ sign_extend 1) %s) ((_ sign_extend 1) %s))" % (op, a, b)
        mx = "(_ bv%d %d)" % ((1 << (w - 1)) - 1, w + 1)
        mn = "(_ bv%d %d)" % ((1 << (w + 1)) - (1 << (w - 1)), w + 1)
        cl = "(ite (bvsgt %s %s) %s (ite (bvslt %s %s) %s %s))" % (e, mx, mx, e, mn, mn, e)
        return "((_ extract %d 0) %s)" % (w - 1, cl)

    def usat(self, kind, a, b, w):
        if kind == "add":
            return "(ite %s %s (bvadd %s %s))" % (self.uadd_ovf(a, b, w), self.const((1 << w) - 1, w), a, b)
        return "(ite (bvult %s %s) %s (bvsub %s %s))" % (a, b, self.const(0, w), a, b)


class IntOps:
    """Mathematical integers; every value is kept in [0, 2^w) (two's complement image)."""
    name = "int"

    def sort(self, w):
        return "Int"

    def const(self, v, w):
        return str(v % (1 << w))

    def input_constraints(self, term, w):
        return ["(>= %s 0)" % term, "(< %s %d)" % (term, 1 << w)]

    def _m(self, e, w):
        return "(mod %s %d)" % (e, 1 << w)

    def s(self, a, w):  # signed interpretation
        return "(ite (>= %s %d) (- %s %d) %s)" % (a, 1 << (w - 1), a, 1 << w, a)

    def add(self, a, b, w):
        return self._m("(+ %s %s)" % (a, b), w)

    def sub(self, a, b, w):
        return self._m("(- %s %s)" % (a, b), w)

    def mul(self, a, b, w):
        return self._m("(* %s %s)" % (a, b), w)

    def udiv(self, a, b, w):
        return "(div %s %s)" % (a, b)

    def urem(self, a, b, w):
        return "(mod %s %s)" % (a, b)

    def sdiv(self, a, b, w):
        raise Unsupported("signed division in integer encoding")

    srem = sdiv

    def band(self, a, b, w):
        raise Unsupported("bitwise op in integer encoding")

    bor = bxor = band

    def bnot(self, a, w):
        return "(- %d %s)" % ((1 << w) - 1, a)

    def neg(self, a, w):
        return self._m("(- 0 %s)" % a, w)

    def _shamt(self, b):
        try:
            return int(b)
        except ValueError:
            raise Unsupported("symbolic shift amount in integer encoding")

    def shl(self, a, b, w):
        return self._m("(* %s %d)" % (a, 1 << self._shamt(b)), w)

    def lshr(self, a, b, w):
        return "(div %s %d)" % (a, 1 << self._shamt(b))

    def ashr(self, a, b, w):
        return self._m("(div %s %d)" % (self.s(a, w), 1 << self._shamt(b)), w)

    def eq(self, a, b):
        return "(= %s %s)" % (a, b)

    def ult(self, a, b, w):
        return "(< %s %s)" % (a, b)

    def ule(self, a, b, w):
        return "(<= %s %s)" % (a, b)

    def slt(self, a, b, w):
        return "(< %s %s)" % (self.s(a, w), self.s(b, w))

    def sle(self, a, b, w):
        return "(<= %s %s)" % (self.s(a, w), self.s(b, w))

    def zext(self, a, w, w2):
        return a

    def sext(self, a, w, w2):
        return a if w2 == w else self._m(self.s(a, w), w2)

    def trunc(self, a, w, w2):
        return a if w2 == w else self._m(a, w2)

    def ite(self, c, a, b):
        return "(ite %s %s %s)" % (c, a, b)

    def uadd_ovf(self, a, b, w):
        return "(>= (+ %s %s) %d)" % (a, b, 1 << w)

    def usub_ovf(self, a, b, w):
        return "(< %s %s)" % (a, b)

    def umul_ovf(self, a, b, w):
        return "(>= (* %s %s) %d)" % (a, b, 1 << w)

    @staticmethod
    def lit(v):
        return str(v) if v >= 0 else "(- %d)" % (-v)

    def _srange(self, e, w):
        return "(or (< %s %s) (> %s %d))" % (e, self.lit(-(1 << (w - 1))), e, (1 << (w - 1)) - 1)

    def sadd_ovf(self, a, b, w):
        return self._srange("(+ %s %s)" % (self.s(a, w), self.s(b, w)), w)

    def ssub_ovf(self, a, b, w):
        return self._srange("(- %s %s)" % (self.s(a, w), self.s(b, w)), w)

    def smul_ovf(self, a, b, w):
        return self._srange("(* %s %s)" % (self.s(a, w), self.s(b, w)), w)

    def ssat(self, kind, a, b, w):
        e = "(%s %s %s)" % ("+" if kind == "add" else "-", self.s(a, w), self.s(b, w))
        mx, mn = (1 << (w - 1)) - 1, -(1 << (w - 1))
        cl = "(ite (> %s %d) %d (ite (< %s %s) %s %s))" % (e, mx, mx, e, self.lit(mn), self.lit(mn), e)
        return self._m(cl, w)

    def usat(self, kind, a, b, w):
        if kind == "add":
            return "(ite %s %d (+ %s %s))" % (self.uadd_ovf(a, b, w), (1 << w) - 1, a, b)
        return "(ite (< %s %s) 0 (- %s %s))" % (a, b, a, b)


# ------------------------------------------------------------------------------------------------
# symbolic execution

CONST = re.compile(r"^const (-?\d+)_([iu](?:8|16|32|64|128|size))$")


class Outcome:
    def __init__(self, pc, kind, value=None, msg=None):
        self.pc, self.kind, self.value, self.msg = pc, kind, value, msg  # kind: 'ret' | 'panic'


class Exec:
    def __init__(self, fns, ops, max_paths=4096):
        self.fns = fns
        self.ops = ops
        self.defs = []  # (name, sort, expr)
        self.n = 0
        self.decls = []  # (name, sort)
        self.input_cons = []
        self.max_paths = max_paths
        self.paths = 0
        self.encoded = set()

    # -- term bookkeeping
    def name_term(self, expr, sort):
        self.n += 1
        nm = "t%d" % self.n
        self.defs.append((nm, sort, expr))
        return nm

    def fresh_int(self, label, w, signed):
        nm = "in_%s" % label
        self.decls.append((nm, self.ops.sort(w)))
        self.input_cons += self.ops.input_constraints(nm, w)
        return Int(nm, w, signed)

    def mk_int(self, expr, w, signed):
        return Int(self.name_term(expr, self.ops.sort(w)), w, signed)

    def mk_bool(self, expr):
        return Bool(self.name_term(expr, "Bool"))

    def const_int(self, v, w, signed):
        return Int(self.ops.const(v, w), w, signed)

    # -- lookup
    def find(self, name, nargs=None):
        if name in self.fns:
            return self.fns[name]
        # call sites print `path::Type::method`, definitions `path::<impl at file:l:c: l:c>::method`
        m = re.match(r"^(.*)::([A-Za-z0-9_]+)::([a-z_0-9]+)$", name)
        if m:
            mod, ty, meth = m.groups()
            full_ty = mod + "::" + ty
            cands = []
            for n, f in self.fns.items():
                mm = re.match(r"^(.*)::<impl at [^>]*>::([a-z_0-9]+)$", n)
                if not mm or mm.group(1) != mod or mm.group(2) != meth:
                    continue
                if nargs is not None and len(f.params) != nargs:
                    continue
                sig = [t for _, t in f.params[:1]] + [f.ret]
                if any(t.replace("&mut ", "").replace("&", "").endswith(full_ty) for t in sig):
                    cands.append(f)
            if len(cands) == 1:
                return cands[0]
            if len(cands) > 1:
                # prefer a receiver/return type that matches exactly
                ex = [f for f in cands if (f.params and f.params[0][1].replace("&mut ", "").replace("&", "") == full_ty)
                      or f.ret == full_ty]
                if len(ex) == 1:
                    return ex[0]
        m = re.match(r"^<(.+) as (.+)>::([a-z_0-9]+)$", name)
        if m:
            ty, _trait, meth = m.groups()
            mod = ty.rsplit("::", 1)[0] if "::" in ty else ""
            cands = []
            for n, f in self.fns.items():
                mm = re.match(r"^(.*)::<impl at [^>]*>::([a-z_0-9]+)$", n)
                if not mm or mm.group(2) != meth or (mod and mm.group(1) != mod):
                    continue
                if nargs is not None and len(f.params) != nargs:
                    continue
                if f.params and f.params[0][1].replace("&mut ", "").replace("&", "") == ty:
                    cands.append(f)
            if len(cands) == 1:
                return cands[0]
        return None

    # -- places
    def parse_place(self, s):
        s = s.strip()
        if re.match(r"^_\d+$", s):
            return ("local", s)
        if s.startswith("(*") and s.endswith(")"):
            return ("deref", self.parse_place(s[2:-1]))
        if s.startswith("(") and s.endswith(")"):
            inner = s[1:-1]
            # (P.i: T)  or (P as Variant)
            m = re.match(r"^(.*)\.(\d+): (.+)$", inner)
            if m and self._balanced(m.group(1)):
                return ("field", self.parse_place(m.group(1)), int(m.group(2)))
            # try splitting at the last ".N: " that leaves a balanced prefix
            for mm in reversed(list(re.finditer(r"\.(\d+): ", inner))):
                pre = inner[:mm.start()]
                if self._balanced(pre):
                    return ("field", self.parse_place(pre), int(mm.group(1)))
            raise Unsupported("place " + s)
        raise Unsupported("place " + s)

    @staticmethod
    def _balanced(s):
        d = 0
        for c in s:
            if c == "(":
                d += 1
            elif c == ")":
                d -= 1
                if d < 0:
                    return False
        return d == 0

    def read_place(self, frame, place):
        k = place[0]
        if k == "local":
            if place[1] not in frame:
                raise Unsupported("read of unassigned local " + place[1])
            return frame[place[1]]
        if k == "deref":
            r = self.read_place(frame, place[1])
            if not isinstance(r, Ref):
                raise Unsupported("deref of non-reference")
            return self.read_place(r.frame, r.place)
        if k == "field":
            b = self.read_place(frame, place[1])
            if not isinstance(b, Tup):
                raise Unsupported("field of non-aggregate")
            return b.items[place[2]]
        raise Unsupported("place kind")

    def write_place(self, frame, place, val):
        k = place[0]
        if k == "local":
            frame[place[1]] = val
            return
        if k == "deref":
            r = self.read_place(frame, place[1])
            if not isinstance(r, Ref):
                raise Unsupported("deref of non-reference")
            self.write_place(r.frame, r.place, val)
            return
        if k == "field":
            b = self.read_place(frame, place[1])
            if not isinstance(b, Tup):
                raise Unsupported("field write of non-aggregate")
            nb = Tup(b.items)
            nb.items[place[2]] = val
            self.write_place(frame, place[1], nb)
            return
        raise Unsupported("place kind")

    # -- operands / rvalues
    def operand(self, frame, s):
        s = s.strip()
        if s.startswith("copy ") or s.startswith("move "):
            return self.read_place(frame, self.parse_place(s[5:]))
        m = CONST.match(s)
        if m:
            w, sg = INT_T[m.group(2)]
            return self.const_int(int(m.group(1)), w, sg)
        if s == "const true":
            return Bool("true")
        if s == "const false":
            return Bool("false")
        if s == "const ()":
            return Unit()
        m = re.match(r"^const ((?:[A-Za-z_][A-Za-z0-9_]*::)*)([A-Z_][A-Z0-9_]*)$", s)
        if m and m.group(2) in CONST_ITEMS:
            vals = CONST_ITEMS[m.group(2)]
            if len(vals) == 1:
                ty, v = next(iter(vals))
                w, sg = INT_T[ty]
                return self.const_int(v, w, sg)
            raise Unsupported("ambiguous const item " + s)
        raise Unsupported("operand " + s)

    def binop(self, op, a, b):
        o = self.ops
        if isinstance(a, Bool) and isinstance(b, Bool):
            t = {"Eq": "(= %s %s)", "Ne": "(not (= %s %s))", "BitAnd": "(and %s %s)", "BitOr": "(or %s %s)",
                 "BitXor": "(xor %s %s)"}.get(op)
            if not t:
                raise Unsupported("bool binop " + op)
            return self.mk_bool(t % (a.term, b.term))
        if not (isinstance(a, Int) and isinstance(b, Int)):
            raise Unsupported("binop on non-integers")
        w, sg = a.w, a.signed
        x, y = a.term, b.term
        if op in ("Shl", "Shr", "ShlUnchecked", "ShrUnchecked"):
            # rust masks the shift amount in release; the overflow assert precedes it in MIR
            if o.name == "bv":
                if b.w < w:
                    y = o.zext(y, b.w, w)
                elif b.w > w:
                    y = o.trunc(y, b.w, w)
            if op.startswith("Shl"):
                return self.mk_int(o.shl(x, y, w), w, sg)
            return self.mk_int(o.ashr(x, y, w) if sg else o.lshr(x, y, w), w, sg)
        if b.w != w:
            raise Unsupported("width mismatch in " + op)
        if op in ("Add", "AddUnchecked"):
            return self.mk_int(o.add(x, y, w), w, sg)
        if op in ("Sub", "SubUnchecked"):
            return self.mk_int(o.sub(x, y, w), w, sg)
        if op in ("Mul", "MulUnchecked"):
            return self.mk_int(o.mul(x, y, w), w, sg)
        if op == "Div":
            return self.mk_int(o.sdiv(x, y, w) if sg else o.udiv(x, y, w), w, sg)
        if op == "Rem":
            return self.mk_int(o.srem(x, y, w) if sg else o.urem(x, y, w), w, sg)
        if op == "BitAnd":
            return self.mk_int(o.band(x, y, w), w, sg)
        if op == "BitOr":
            return self.mk_int(o.bor(x, y, w), w, sg)
        if op == "BitXor":
            return self.mk_int(o.bxor(x, y, w), w, sg)
        if op == "Eq":
            return self.mk_bool(o.eq(x, y))
        if op == "Ne":
            return self.mk_bool("(not %s)" % o.eq(x, y))
        if op == "Lt":
            return self.mk_bool(o.slt(x, y, w) if sg else o.ult(x, y, w))
        if op == "Le":
            return self.mk_bool(o.sle(x, y, w) if sg else o.ule(x, y, w))
        if op == "Gt":
            return self.mk_bool(o.slt(y, x, w) if sg else o.ult(y, x, w))
        if op == "Ge":
            return self.mk_bool(o.sle(y, x, w) if sg else o.ule(y, x, w))
        if op in ("AddWithOverflow", "SubWithOverflow", "MulWithOverflow"):
            k = op[:3].lower()
            val = {"add": o.add, "sub": o.sub, "mul": o.mul}[k](x, y, w)
            ovf = getattr(o, ("s" if sg else "u") + k + "_ovf")(x, y, w)
            return Tup([self.mk_int(val, w, sg), self.mk_bool(ovf)])
        raise Unsupported("binop " + op)

    def cast(self, v, tstr):
        it = int_type(tstr)
        if it is None:
            raise Unsupported("cast to " + tstr)
        w2, sg2 = it
        if isinstance(v, Bool):
            return self.mk_int(self.ops.ite(v.term, self.ops.const(1, w2), self.ops.const(0, w2)), w2, sg2)
        if not isinstance(v, Int):
            raise Unsupported("cast of non-integer")
        o = self.ops
        if w2 == v.w:
            return Int(v.term, w2, sg2)
        if w2 < v.w:
            return self.mk_int(o.trunc(v.term, v.w, w2), w2, sg2)
        return self.mk_int(o.sext(v.term, v.w, w2) if v.signed else o.zext(v.term, v.w, w2), w2, sg2)

    def rvalue(self, frame, s):
        s = s.strip()
        m = re.match(r"^(.*) as ([A-Za-z0-9_]+) \(IntToInt\)$", s)
        if m:
            return self.cast(self.operand(frame, m.group(1)), m.group(2))
        m = re.match(r"^([A-Za-z]+)\((.*)\)$", s)
        if m and m.group(1) in ("Not", "Neg"):
            v = self.operand(frame, m.group(2))
            if m.group(1) == "Not":
                if isinstance(v, Bool):
                    return self.mk_bool("(not %s)" % v.term)
                return self.mk_int(self.ops.bnot(v.term, v.w), v.w, v.signed)
            return self.mk_int(self.ops.neg(v.term, v.w), v.w, v.signed)
        if m and re.match(r"^[A-Z][A-Za-z]+$", m.group(1)) and not s.startswith("("):
            args = split_top(m.group(2))
            if len(args) == 2:
                return self.binop(m.group(1), self.operand(frame, args[0]), self.operand(frame, args[1]))
        if s.startswith("&mut "):
            return Ref(frame, self.parse_place(s[5:]))
        if s.startswith("&"):
            return Ref(frame, self.parse_place(s[1:]))
        if s.startswith("("):
            # a bare place never appears as an rvalue (always copy/move): this is a tuple aggregate
            return Tup([self.operand(frame, a) for a in split_top(s[1:-1])])
        m = re.match(r"^[A-Za-z_][A-Za-z0-9_:<>, ]* \{(.*)\}$", s)
        if m:
            fields = split_top(m.group(1))
            return Tup([self.operand(frame, f.split(": ", 1)[1]) for f in fields])
        return self.operand(frame, s)

    # -- intrinsics
    def intrinsic(self, name, args):
        m = re.match(r"^core::num::<impl ([iu](?:8|16|32|64|128|size))>::([a-z_]+)$", name)
        if m:
            w, sg = INT_T[m.group(1)]
            f = m.group(2)
            o = self.ops
            a = args[0]
            if f in ("saturating_add", "saturating_sub"):
                k = f.split("_")[1]
                e = (o.ssat if sg else o.usat)(k, a.term, args[1].term, w)
                return [("ret", None, self.mk_int(e, w, sg))]
            if f in ("wrapping_add", "wrapping_sub", "wrapping_mul"):
                k = f.split("_")[1]
                return [("ret", None, self.mk_int(getattr(o, k)(a.term, args[1].term, w), w, sg))]
            if f == "div_ceil" and not sg:
                b = args[1]
                z = self.mk_bool(o.eq(b.term, o.const(0, w)))
                q = o.udiv(a.term, b.term, w)
                r = o.urem(a.term, b.term, w)
                e = o.ite("(not %s)" % o.eq(r, o.const(0, w)), o.add(q, o.const(1, w), w), q)
                return [("panic", z.term, "attempt to divide by zero (div_ceil)"),
                        ("ret", "(not %s)" % z.term, self.mk_int(e, w, sg))]
            if f in ("min", "max"):
                b = args[1]
                lt = (o.slt if sg else o.ult)(a.term, b.term, w)
                e = o.ite(lt, a.term, b.term) if f == "min" else o.ite(lt, b.term, a.term)
                return [("ret", None, self.mk_int(e, w, sg))]
        if name in ("core::cmp::min", "core::cmp::max", "std::cmp::min", "std::cmp::max") or \
                re.match(r"^<[iu]\d+ as Ord>::(min|max)$", name):
            a, b = args
            o = self.ops
            lt = (o.slt if a.signed else o.ult)(a.term, b.term, a.w)
            mn = name.endswith("min")
            return [("ret", None, self.mk_int(o.ite(lt, a.term, b.term) if mn else o.ite(lt, b.term, a.term), a.w, a.signed))]
        return None

    # -- running a function
    def call(self, fname, args, pc=None):
        """Returns list of Outcome for all paths through fname with the given argument values."""
        pc = list(pc or [])
        intr = self.intrinsic(fname, args)
        if intr is not None:
            outs = []
            for kind, cond, val in intr:
                npc = pc + ([cond] if cond else [])
                outs.append(Outcome(npc, kind, val if kind == "ret" else None, val if kind == "panic" else None))
            return outs
        fn = self.find(fname, len(args))
        if fn is None:
            raise Unsupported("call to unknown function " + fname)
        self.encoded.add(fn.name)
        frame = {}
        if len(args) != len(fn.params):
            raise Unsupported("arity mismatch calling " + fname)
        for (n, _t), v in zip(fn.params, args):
            frame[n] = v
        outs = []
        self._run(fn, "bb0", frame, pc, outs, 0)
        return outs

    def _run(self, fn, bb, frame, pc, outs, depth):
        if depth > 400:
            raise Unsupported("path too long / loop in " + fn.name)
        lines = fn.blocks[bb]
        for i, s in enumerate(lines):
            last = i == len(lines) - 1
            if s.endswith(";"):
                s = s[:-1]
            if re.match(r"^(StorageLive|StorageDead|FakeRead|PlaceMention|AscribeUserType|Retag|Coverage)\(", s) or s in ("ConstEvalCounter", "nop"):
                continue
            if not last:
                lhs, _, rhs = s.partition(" = ")
                self.write_place(frame, self.parse_place(lhs), self.rvalue(frame, rhs))
                continue
            # terminator
            if s == "return":
                self._count()
                outs.append(Outcome(pc, "ret", frame.get("_0", Unit())))
                return
            if s == "unreachable":
                return
            m = re.match(r"^goto -> (bb\d+)$", s)
            if m:
                return self._run(fn, m.group(1), frame, pc, outs, depth + 1)
            m = re.match(r"^drop\(.*\) -> \[return: (bb\d+).*\]$", s)
            if m:
                return self._run(fn, m.group(1), frame, pc, outs, depth + 1)
            m = re.match(r"^assert\((!?)(.*?), \"(.*?)\".*\) -> \[success: (bb\d+).*\]$", s)
            if m:
                c = self.operand(frame, m.group(2))
                if not isinstance(c, Bool):
                    raise Unsupported("assert on non-bool")
                ok = "(not %s)" % c.term if m.group(1) else c.term
                bad = c.term if m.group(1) else "(not %s)" % c.term
                if bad not in ("false", "(not true)"):
                    self._count()
                    outs.append(Outcome(pc + [bad], "panic", None, "%s [%s %s]" % (m.group(3), fn.name, bb)))
                return self._run(fn, m.group(4), frame, pc + [ok], outs, depth + 1)
            m = re.match(r"^switchInt\((.*)\) -> \[(.*)\]$", s)
            if m:
                v = self.operand(frame, m.group(1))
                targets = [t.strip() for t in m.group(2).split(",")]
                taken = []
                for t in targets:
                    k, _, dest = t.partition(": ")
                    if k == "otherwise":
                        cond = "(and %s)" % " ".join(["(not %s)" % c for c in taken] + ["true"])
                    else:
                        kv = int(k)
                        if isinstance(v, Bool):
                            cond = v.term if kv != 0 else "(not %s)" % v.term
                        else:
                            cond = self.ops.eq(v.term, self.ops.const(kv, v.w))
                        taken.append(cond)
                    self._run(fn, dest, self._fork(frame), pc + [cond], outs, depth + 1)
                return
            m = re.match(r"^(.*?) = (.*)\((.*)\) -> \[return: (bb\d+).*\]$", s)
            if m:
                args = [self.operand(frame, a) for a in split_top(m.group(3))]
                for o in self.call(m.group(2).strip(), args, pc):
                    if o.kind == "panic":
                        outs.append(o)
                    else:
                        f2 = self._fork(frame)
                        self.write_place(f2, self.parse_place(m.group(1)), o.value)
                        self._run(fn, m.group(4), f2, o.pc, outs, depth + 1)
                return
            raise Unsupported("terminator: " + s)
        raise Unsupported("block without terminator")

    def _count(self):
        self.paths += 1
        if self.paths > self.max_paths:
            raise Unsupported("too many paths")

    @staticmethod
    def _fork(frame):
        # Refs keep pointing at the frame object they were created in; forks of a frame that is
        # the target of live references are not supported (checked by construction: goal code
        # passes aggregates by value).
        nf = dict(frame)
        for k, v in list(nf.items()):
            if isinstance(v, Ref) and v.frame is frame:
                nf[k] = Ref(nf, v.place)
        return nf

    # -- script
    def preamble(self):
        out = ["(set-logic ALL)"]
        for n, s in self.decls:
            out.append("(declare-const %s %s)" % (n, s))
        for c in self.input_cons:
            out.append("(assert %s)" % c)
        for n, s, e in self.defs:
            out.append("(define-fun %s () %s %s)" % (n, s, e))
        return out


def conj(terms):
    terms = [t for t in terms if t != "true"]
    if not terms:
        return "true"
    if len(terms) == 1:
        return terms[0]
    return "(and %s)" % " ".join(terms)


def disj(terms):
    if not terms:
        return "false"
    if len(terms) == 1:
        return terms[0]
    return "(or %s)" % " ".join(terms)
