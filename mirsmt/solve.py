"""MIR dump + solver front end for the MIR->SMT engine."""
import glob
import os
import re
import shutil
import subprocess
import time

from vlib import common

SOLVERS = {
    # name: (argv, accepts)
    "cvc5-bv-as-int": (["cvc5", "--lang", "smt2", "--produce-models", "--solve-bv-as-int=sum"], "bv"),
    "cvc5": (["cvc5", "--lang", "smt2", "--produce-models"], "any"),
    "z3": (["/usr/bin/z3", "-in", "-smt2"], "any"),
    "z3-new": (["z3-new", "-in", "-smt2"], "any"),
}


def dump_mir():
    """Regenerate the MIR text of the dds crate from /repo's current working tree."""
    tdir = os.path.join(common.BUILD, "mir")
    os.makedirs(tdir, exist_ok=True)
    # force re-emission: cargo prints nothing when the unit is fresh
    for d in glob.glob(os.path.join(tdir, "debug", ".fingerprint", "dust_dds-*")):
        shutil.rmtree(d, ignore_errors=True)
    env = common.base_env()
    env.pop("RUSTFLAGS", None)
    env["CARGO_TARGET_DIR"] = tdir
    t0 = time.time()
    p = subprocess.run(
        ["cargo", "+nightly", "rustc", "--offline", "--lib", "--no-default-features", "--",
         "-Zunpretty=mir", "-C", "debug-assertions=off", "-C", "overflow-checks=on"],
        cwd=common.CRATE, env=env, stdout=subprocess.PIPE, stderr=subprocess.PIPE, text=True)
    if p.returncode != 0 or len(p.stdout) < 1000:
        raise RuntimeError("MIR dump failed (rc=%d): %s" % (p.returncode, p.stderr[-2000:]))
    return p.stdout, time.time() - t0


def _run(argv, text, timeout):
    t0 = time.time()
    try:
        p = subprocess.run(argv, input=text, stdout=subprocess.PIPE, stderr=subprocess.STDOUT, text=True,
                           timeout=timeout)
    except subprocess.TimeoutExpired:
        return None, time.time() - t0
    return p.stdout, time.time() - t0


def _verdict(out):
    lines = [l.strip() for l in out.splitlines() if l.strip()]
    if any(l.startswith("(error") for l in lines):
        return "error"  # an old z3 can drop an assertion it cannot parse and still answer
    for l in lines:
        if l in ("sat", "unsat", "unknown"):
            return l
    return "error"


def parse_model(out):
    model = {}
    for m in re.finditer(r"\(([^\s()]+) (\(- \d+\)|#x[0-9a-fA-F]+|#b[01]+|-?\d+|true|false|\(_ bv\d+ \d+\))\)", out):
        k, v = m.group(1), m.group(2)
        if v.startswith("#x"):
            model[k] = int(v[2:], 16)
        elif v.startswith("#b"):
            model[k] = int(v[2:], 2)
        elif v.startswith("(_ bv"):
            model[k] = int(v.split()[1][2:])
        elif v.startswith("(-"):
            model[k] = -int(v[3:-1])
        elif v in ("true", "false"):
            model[k] = v == "true"
        else:
            model[k] = int(v)
    return model


def solve(solver, script, timeout=60, get=None):
    """Returns (verdict, model, seconds, raw). verdict in sat/unsat/unknown/error/timeout.
    Any '(error' line in the solver output makes the answer 'error' (inconclusive)."""
    argv, _ = SOLVERS[solver]
    text = "\n".join(script + ["(check-sat)"]) + "\n"
    out, dt = _run(argv, text, timeout)
    if out is None:
        return "timeout", {}, dt, ""
    v = _verdict(out)
    model = {}
    if v == "sat" and get:
        out2, dt2 = _run(argv, text + "(get-value (%s))\n" % " ".join(get), timeout)
        dt += dt2
        if out2 is None or _verdict(out2) != "sat":
            return "error", {}, dt, out2 or ""
        model = parse_model(out2)
        out = out2
    return v, model, dt, out


_native_built = False


def native_bin():
    """Build (incrementally) and return the native oracle binary: real dust_dds code, dev profile."""
    global _native_built
    tdir = os.path.join(common.BUILD, "native")
    src = os.path.join(common.VERIF, "native")
    if common.REPO != "/repo":
        # checks pointed at another tree (VERIF_REPO=<worktree>, used for seeded changes): build the oracle
        # against that tree from a scratch copy of the oracle crate with the path dependency rewritten
        import hashlib
        import shutil
        tag = hashlib.sha1(common.REPO.encode()).hexdigest()[:10]
        tdir = os.path.join(common.BUILD, "native_" + tag)
        src2 = os.path.join(common.BUILD, "native_src_" + tag)
        if os.path.exists(src2):
            shutil.rmtree(src2)
        shutil.copytree(src, src2)
        ct = open(os.path.join(src2, "Cargo.toml")).read().replace('"/repo/dds"', '"%s/dds"' % common.REPO)
        open(os.path.join(src2, "Cargo.toml"), "w").write(ct)
        src = src2
    binp = os.path.join(tdir, "debug", "verif_native")
    if not _native_built:
        env = common.base_env()
        env.pop("RUSTFLAGS", None)
        p = subprocess.run(["cargo", "build", "--offline", "--target-dir", tdir],
                           cwd=src, env=env,
                           stdout=subprocess.PIPE, stderr=subprocess.STDOUT, text=True)
        if p.returncode != 0:
            raise RuntimeError("native oracle build failed: " + p.stdout[-2000:])
        _native_built = True
    return binp


def native_eval(queries):
    """queries: list of 'name a b ...' lines -> dict line -> result string ('panic' on panic)."""
    b = native_bin()
    p = subprocess.run([b], input="\n".join(queries) + "\n", stdout=subprocess.PIPE, stderr=subprocess.DEVNULL,
                       text=True, timeout=60)
    res = {}
    for l in p.stdout.splitlines():
        if " => " in l:
            q, r = l.split(" => ", 1)
            res[q.strip()] = r.strip()
    return res
