// parked: see harness/parked/README.md
// ---- deletions must preserve the invariant the creations rely on -------------------------------------
// I: every live publisher's key byte (handle[12]) is strictly below publisher_counter. A creation step is only
// unique-by-construction if no OTHER operation lowers the counter onto a live key; the delete operations are the
// other operations that touch these lists.
fn install_writer(p: &mut DcpsDomainParticipant, pub_index: usize) {
    use crate::dcps::dcps_domain_participant::user_defined_data_writer::UserDefinedDataWriter;
    use crate::infrastructure::qos::DataWriterQos;
    use crate::rtps::stateful_writer::RtpsStatefulWriter;
    use crate::transport::types::{EntityId, Guid};
    let wh = InstanceHandle::new([1, 2, 3, 4, 5, 6, 7, 8, 9, 10, 11, 12, 0, 7, 0, 2]);
    let w = UserDefinedDataWriter::new(
        wh,
        RtpsStatefulWriter::new(Guid::new(sp::PREFIX, EntityId::new([0, 7, 0], 2)), 1344),
        String::from("A"),
        None,
        sp::mask_from_bits(0),
        DataWriterQos::default(),
    );
    p.domain_participant.user_defined_publisher_list[pub_index].data_writer_list.push(w);
}

// Cut on drop glue: `DomainParticipantEntity::remove_publisher` (position + Vec::remove) hands the removed
// PublisherEntity back and `delete_user_defined_publisher` drops it; the drop glue of a PublisherEntity read back from
// the heap (writer lists, matched-subscription lists with recursive TypeIdentifier boxes, all of symbolic length for
// CBMC) does not terminate within the caps. The stub performs the SAME list update, forgets the removed entity and
// returns a freshly built (empty, cheap to drop) PublisherEntity with the same handle. Destructors are in no claim.
pub fn remove_publisher_forgetting(
    this: &mut crate::dcps::dcps_domain_participant::participant_entity::DomainParticipantEntity,
    handle: &InstanceHandle,
) -> Option<crate::dcps::dcps_domain_participant::user_defined_publisher::PublisherEntity> {
    let i = this.user_defined_publisher_list.iter().position(|x| &x.instance_handle == handle)?;
    let e = this.user_defined_publisher_list.remove(i);
    core::mem::forget(e);
    Some(crate::dcps::dcps_domain_participant::user_defined_publisher::PublisherEntity::new(
        crate::infrastructure::qos::PublisherQos::default(),
        *handle,
        alloc::vec::Vec::new(),
        None,
        sp::mask_from_bits(0),
    ))
}

// @check props=C35 tier=quick
// @desc a REJECTED delete_user_defined_publisher (the publisher still contains a data writer) of a live publisher with ANY key k1 < counter — in particular the most recently created one (k1 == counter-1) — leaves it alive and keeps its key strictly below publisher_counter, so the next creation cannot hand out its handle again
// @bounds one live publisher with symbolic key k1 < c (full u8 range) holding one directly installed writer
// @assume the writer is installed directly (UserDefinedDataWriter::new pushed into data_writer_list): create_data_writer does not fit (see DESIGN.md)
// @assume stub: DomainParticipantEntity::remove_publisher replaced by a body-identical function that forgets the removed entity instead of returning it for dropping (drop glue cut)
// @enc DcpsDomainParticipant::delete_user_defined_publisher
#[kani::proof]
#[kani::unwind(3)]
#[kani::stub(critical_section::acquire, super::support_cs::cs_acquire)]
#[kani::stub(critical_section::release, super::support_cs::cs_release)]
#[kani::stub(crate::dcps::dcps_domain_participant::participant_entity::DomainParticipantEntity::remove_publisher, remove_publisher_forgetting)]
fn c35_rejected_publisher_delete_keeps_invariant() {
    let cap = sp::Capture::new();
    let mut p = sp::participant(&cap, 0);
    let k1: u8 = kani::any();
    let c: u8 = kani::any();
    kani::assume(k1 < c);
    p.publisher_counter = k1;
    let h1 = new_publisher(&mut p);
    p.publisher_counter = c;
    install_writer(&mut p, 0);
    let ph = *p.get_instance_handle();
    let r = p.delete_user_defined_publisher(&ph, &h1);
    assert!(r.is_err(), "C35: deleting a publisher that still contains a writer is rejected");
    let l = &p.domain_participant.user_defined_publisher_list;
    assert!(l.len() == 1, "C35: a rejected delete leaves the publisher alive");
    assert!(l[0].instance_handle[12] < p.publisher_counter, "C35: after a rejected delete the live publisher's key is still below publisher_counter (the next creation cannot reuse its handle)");
    kani::cover!(k1 == c - 1, "the most recently created publisher is the target");
    core::mem::forget(p);
}

