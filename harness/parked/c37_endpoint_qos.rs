// C37 — set_data_writer_qos on a writer installed directly in a publisher (create_data_writer does not fit, see
// DESIGN.md): the argument may be QosKind::Default (the publisher's default writer QoS) or QosKind::Specific.
// Oracle (DDS 2.2.2.4.2.x set_qos + the property statement): Err(InconsistentPolicy) iff the effective QoS is
// inconsistent; otherwise, on an ENABLED writer, Err(ImmutablePolicy) iff an immutable policy differs from the current
// QoS; on every Err the stored QoS is unchanged; on Ok the stored QoS is the effective QoS.
use super::support_participant as sp;
use crate::dcps::dcps_domain_participant::user_defined_data_writer::UserDefinedDataWriter;
use crate::infrastructure::error::DdsError;
use crate::infrastructure::instance::InstanceHandle;
use crate::infrastructure::qos::{DataWriterQos, QosKind};
use crate::infrastructure::qos_policy::{ReliabilityQosPolicyKind, HistoryQosPolicyKind, Length};
use crate::infrastructure::time::{Duration, Time};
use crate::rtps::stateful_writer::RtpsStatefulWriter;
use crate::transport::types::{EntityId, Guid};
use alloc::string::String;

fn any_reliability() -> ReliabilityQosPolicyKind {
    if kani::any() {
        ReliabilityQosPolicyKind::Reliable
    } else {
        ReliabilityQosPolicyKind::BestEffort
    }
}

// a writer QoS that differs from the default only in the policies the oracle looks at
fn any_writer_qos() -> DataWriterQos {
    let mut q = DataWriterQos::default();
    q.reliability.kind = any_reliability();                       // immutable after enable
    q.lifespan.duration = crate::infrastructure::time::DurationKind::Finite(Duration::new(kani::any::<u8>() as i32 + 1, 0)); // changeable
    let depth: u8 = kani::any();
    q.history.kind = HistoryQosPolicyKind::KeepLast(depth as u32); // immutable; consistency: depth <= max_samples_per_instance
    let mspi: u8 = kani::any();
    q.resource_limits.max_samples_per_instance = if kani::any() { Length::Unlimited } else { Length::Limited(mspi as i32) };
    q
}

fn immutable_part_equal(a: &DataWriterQos, b: &DataWriterQos) -> bool {
    a.reliability == b.reliability && a.history == b.history && a.resource_limits == b.resource_limits
}

// @check props=C37 tier=quick
// @desc set_data_writer_qos(Default | Specific(q)) on an enabled or not-enabled writer: InconsistentPolicy iff the effective QoS (publisher default for QosKind::Default) is inconsistent; else on an enabled writer ImmutablePolicy iff reliability kind / history / resource limits differ from the current QoS; every Err leaves the stored QoS unchanged; Ok stores the effective QoS
// @bounds one publisher with one directly installed writer; current QoS, publisher default QoS and the argument each symbolic in reliability kind, lifespan (1..256 s, changeable), KEEP_LAST depth 0..255 and max_samples_per_instance (Unlimited or 0..255); enabled flag symbolic
// @assume the writer is installed directly (UserDefinedDataWriter::new pushed into data_writer_list)
// @assume stub: DcpsDomainParticipant::announce_data_writer (SEDP announcement through DynamicData) is a no-op: "announced to remote participants" is outside the claim
// @enc DcpsDomainParticipant::set_data_writer_qos
// @enc DataWriterQos::is_consistent
// @enc DataWriterQos::check_immutability
#[kani::proof]
#[kani::unwind(3)]
#[kani::solver(minisat)]
#[kani::stub(critical_section::acquire, super::support_cs::cs_acquire)]
#[kani::stub(critical_section::release, super::support_cs::cs_release)]
#[kani::stub(crate::dcps::dcps_domain_participant::participant_entity::DcpsDomainParticipant::announce_data_writer, super::support_participant::announce_data_writer_stub)]
fn c37_set_data_writer_qos() {
    let cap = sp::Capture::new();
    let mut p = sp::participant(&cap, 0);
    let rt = sp::VRuntime { now: Time::new(1, 0) };
    let hp = sp::must_ok!(p.create_user_defined_publisher(QosKind::Default, None, sp::mask_from_bits(0), &rt), "C37: publisher creation");
    let current = any_writer_qos();
    kani::assume(current.is_consistent().is_ok());
    let wh = InstanceHandle::new([1, 2, 3, 4, 5, 6, 7, 8, 9, 10, 11, 12, 0, 7, 0, 2]);
    let mut w = UserDefinedDataWriter::new(
        wh,
        RtpsStatefulWriter::new(Guid::new(sp::PREFIX, EntityId::new([0, 7, 0], 2)), 1344),
        String::from("A"),
        None,
        sp::mask_from_bits(0),
        current.clone(),
    );
    let enabled: bool = kani::any();
    w.writer.enabled = enabled;
    let publisher_default = any_writer_qos();
    kani::assume(publisher_default.is_consistent().is_ok()); // set_default_datawriter_qos only stores consistent values
    p.domain_participant.user_defined_publisher_list[0].default_datawriter_qos = publisher_default.clone();
    p.domain_participant.user_defined_publisher_list[0].data_writer_list.push(w);

    let use_default: bool = kani::any();
    let specific = any_writer_qos();
    let effective = if use_default { publisher_default.clone() } else { specific.clone() };
    let arg = if use_default { QosKind::Default } else { QosKind::Specific(specific) };
    let r = p.set_data_writer_qos(&hp, &wh, arg, &rt);
    let stored = &p.domain_participant.user_defined_publisher_list[0].data_writer_list[0].writer.qos;
    let consistent = effective.is_consistent().is_ok();
    let immutable_ok = !enabled || immutable_part_equal(&current, &effective);
    match &r {
        Ok(()) => {
            assert!(consistent, "C37: an inconsistent writer QoS is rejected");
            assert!(immutable_ok, "C37: changing an immutable policy of an enabled writer is rejected");
            assert!(*stored == effective, "C37: an accepted writer QoS is stored unchanged");
        }
        Err(e) => {
            assert!(!consistent || !immutable_ok, "C37: a consistent, permitted writer QoS is accepted");
            assert!(*stored == current, "C37: a rejected set_qos leaves the writer's QoS unchanged");
            if !consistent {
                assert!(matches!(e, DdsError::InconsistentPolicy), "C37: inconsistent QoS is reported as InconsistentPolicy");
            } else {
                assert!(matches!(e, DdsError::ImmutablePolicy), "C37: immutable change is reported as ImmutablePolicy");
            }
        }
    }
    kani::cover!(use_default && enabled && r.is_err(), "QosKind::Default rejected on an enabled writer (immutable policy differs)");
    kani::cover!(use_default && r.is_ok(), "QosKind::Default accepted");
    kani::cover!(!use_default && !consistent, "inconsistent specific QoS");
    kani::cover!(!use_default && enabled && consistent && !immutable_ok, "immutable change via Specific");
    core::mem::forget(p);
}
