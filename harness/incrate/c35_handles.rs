// C35 — entity handles stay unique and entity creation never panics.
// Pattern A: a real DcpsDomainParticipant; the per-kind creation counter is symbolic (it is the
// only state the handle computation depends on besides the parent's handle); one real create_*.
// History abstraction: an entity created earlier with counter value c0 is still alive; the
// counter now holds c. In a history without wrap-around c0 < c; the release profile wraps, so
// after 2^8 (2^16) creations any relation is reachable. The `__rest` harnesses assume the counter
// is not at its maximum; the `__known` harnesses pin it at the maximum (recorded finding).
use super::support_participant as sp;
use crate::dcps::dcps_domain_participant::participant_entity::DcpsDomainParticipant;
use crate::infrastructure::instance::InstanceHandle;
use crate::infrastructure::qos::QosKind;
use crate::infrastructure::time::Time;
use crate::xtypes::type_support::Type;
use alloc::string::String;

fn rt() -> sp::VRuntime {
    sp::VRuntime { now: Time::new(1, 0) }
}

fn new_publisher(p: &mut DcpsDomainParticipant) -> InstanceHandle {
    p.create_user_defined_publisher(QosKind::Default, None, sp::mask_from_bits(0), &rt())
        .expect("C35: publisher creation must succeed")
}
fn new_subscriber(p: &mut DcpsDomainParticipant) -> InstanceHandle {
    p.create_user_defined_subscriber(QosKind::Default, None, sp::mask_from_bits(0), &rt())
        .expect("C35: subscriber creation must succeed")
}

// @check props=C35 tier=quick
// @desc create_user_defined_publisher from any counter value below the maximum, with an earlier publisher (counter c0 < c) still alive: succeeds, never panics, new handle differs from the live one and from the participant's
// @bounds one live publisher; publisher_counter symbolic in [0, 255); c0 symbolic < c
// @assume publisher_counter < 255 (the value 255 is the recorded finding KF-C35-1)
// @enc DcpsDomainParticipant::create_user_defined_publisher
#[kani::proof]
#[kani::unwind(20)]
#[kani::stub(critical_section::acquire, super::support_cs::cs_acquire)]
#[kani::stub(critical_section::release, super::support_cs::cs_release)]
fn c35_publisher_handle__rest() {
    let cap = sp::Capture::new();
    let mut p = sp::participant(&cap, 0);
    let c0: u8 = kani::any();
    let c: u8 = kani::any();
    kani::assume(c0 < c && c < u8::MAX);
    p.publisher_counter = c0;
    let h0 = new_publisher(&mut p);
    p.publisher_counter = c;
    let h1 = new_publisher(&mut p);
    assert!(h0 != h1, "C35: publisher handles distinct");
    assert!(h1 != *p.get_instance_handle(), "C35: publisher handle differs from participant handle");
    assert!(p.publisher_counter == c + 1);
    kani::cover!(c == 254, "last safe counter value reachable");
    core::mem::forget(p);
}

// @check props=C35 tier=quick known=KF-C35-1
// @desc the 256th publisher creation (publisher_counter == 255): `self.publisher_counter += 1` overflows (panic in the dev profile, wrap to an already used handle byte in release)
// @bounds publisher_counter == 255
// @enc DcpsDomainParticipant::create_user_defined_publisher
#[kani::proof]
#[kani::unwind(20)]
#[kani::stub(critical_section::acquire, super::support_cs::cs_acquire)]
#[kani::stub(critical_section::release, super::support_cs::cs_release)]
fn c35_publisher_handle__known() {
    let cap = sp::Capture::new();
    let mut p = sp::participant(&cap, 0);
    p.publisher_counter = u8::MAX;
    let _h = new_publisher(&mut p);
    core::mem::forget(p);
}

// @check props=C35 tier=quick
// @desc create_user_defined_subscriber, as c35_publisher_handle__rest; additionally the subscriber handle differs from a live publisher's handle with the same counter value
// @bounds one live subscriber, one live publisher; subscriber_counter symbolic in [0, 255)
// @assume subscriber_counter < 255 (255 is the recorded finding KF-C35-2)
// @enc DcpsDomainParticipant::create_user_defined_subscriber
#[kani::proof]
#[kani::unwind(20)]
#[kani::stub(critical_section::acquire, super::support_cs::cs_acquire)]
#[kani::stub(critical_section::release, super::support_cs::cs_release)]
fn c35_subscriber_handle__rest() {
    let cap = sp::Capture::new();
    let mut p = sp::participant(&cap, 0);
    let c0: u8 = kani::any();
    let c: u8 = kani::any();
    kani::assume(c0 < c && c < u8::MAX);
    p.subscriber_counter = c0;
    let h0 = new_subscriber(&mut p);
    p.publisher_counter = c;
    let hp = new_publisher(&mut p);
    p.subscriber_counter = c;
    let h1 = new_subscriber(&mut p);
    assert!(h0 != h1, "C35: subscriber handles distinct");
    assert!(h1 != hp, "C35: subscriber and publisher handles distinct");
    kani::cover!(c == 254, "last safe counter value reachable");
    core::mem::forget(p);
}

// @check props=C35 tier=quick known=KF-C35-2
// @desc the 256th subscriber creation (subscriber_counter == 255) overflows the u8 counter
// @bounds subscriber_counter == 255
// @enc DcpsDomainParticipant::create_user_defined_subscriber
#[kani::proof]
#[kani::unwind(20)]
#[kani::stub(critical_section::acquire, super::support_cs::cs_acquire)]
#[kani::stub(critical_section::release, super::support_cs::cs_release)]
fn c35_subscriber_handle__known() {
    let cap = sp::Capture::new();
    let mut p = sp::participant(&cap, 0);
    p.subscriber_counter = u8::MAX;
    let _h = new_subscriber(&mut p);
    core::mem::forget(p);
}

fn new_topic(p: &mut DcpsDomainParticipant, name: &str) -> InstanceHandle {
    p.create_topic(
        String::from(name),
        String::from("T"),
        QosKind::Default,
        None,
        sp::mask_from_bits(0),
        <crate::infrastructure::time::Duration as Type>::TYPE,
        &rt(),
    )
    .expect("C35: topic creation must succeed")
}

// @check props=C35 tier=quick
// @desc create_topic and create_content_filtered_topic from any topic_counter below the maximum with an earlier topic alive: succeed, never panic, handles pairwise distinct
// @bounds one live topic; topic_counter symbolic in [0, 65534)
// @assume topic_counter < 65534 (65535 is the recorded finding KF-C35-3)
// @enc DcpsDomainParticipant::create_topic
// @enc DcpsDomainParticipant::create_content_filtered_topic
#[kani::proof]
#[kani::unwind(20)]
#[kani::stub(critical_section::acquire, super::support_cs::cs_acquire)]
#[kani::stub(critical_section::release, super::support_cs::cs_release)]
fn c35_topic_handle__rest() {
    let cap = sp::Capture::new();
    let mut p = sp::participant(&cap, 0);
    let c0: u16 = kani::any();
    let c: u16 = kani::any();
    kani::assume(c0 < c && c < u16::MAX - 1);
    p.domain_participant.topic_counter = c0;
    let h0 = new_topic(&mut p, "A");
    p.domain_participant.topic_counter = c;
    let h1 = new_topic(&mut p, "B");
    let ph = *p.get_instance_handle();
    let h2 = p
        .create_content_filtered_topic(&ph, String::from("F"), String::from("A"), String::new(), alloc::vec::Vec::new())
        .expect("C35: content filtered topic creation must succeed");
    assert!(h0 != h1 && h1 != h2 && h0 != h2, "C35: topic handles distinct");
    kani::cover!(c > 255, "second counter byte used");
    core::mem::forget(p);
}

// @check props=C35 tier=quick known=KF-C35-3
// @desc topic creation with topic_counter == 65535 overflows the u16 counter
// @bounds topic_counter == 65535
// @enc DcpsDomainParticipant::create_topic
#[kani::proof]
#[kani::unwind(20)]
#[kani::stub(critical_section::acquire, super::support_cs::cs_acquire)]
#[kani::stub(critical_section::release, super::support_cs::cs_release)]
fn c35_topic_handle__known() {
    let cap = sp::Capture::new();
    let mut p = sp::participant(&cap, 0);
    p.domain_participant.topic_counter = u16::MAX;
    let _h = new_topic(&mut p, "A");
    core::mem::forget(p);
}

// @check props=C35 tier=quick
// @desc create_data_writer / create_data_reader under a live publisher/subscriber from any counter below the maximum with an earlier writer/reader alive: succeed, never panic, handles distinct from each other and from their parents
// @bounds one live writer and reader; writer_counter/reader_counter symbolic in [0, 65535)
// @assume writer_counter, reader_counter < 65535 (65535 is the recorded finding KF-C35-4)
// @enc DcpsDomainParticipant::create_data_writer
// @enc DcpsDomainParticipant::create_data_reader
#[kani::proof]
#[kani::unwind(20)]
#[kani::stub(critical_section::acquire, super::support_cs::cs_acquire)]
#[kani::stub(critical_section::release, super::support_cs::cs_release)]
fn c35_endpoint_handle__rest() {
    let cap = sp::Capture::new();
    let mut p = sp::participant(&cap, 0);
    let _t = new_topic(&mut p, "A");
    let hp = new_publisher(&mut p);
    let hs = new_subscriber(&mut p);
    let c0: u16 = kani::any();
    let c: u16 = kani::any();
    kani::assume(c0 < c && c < u16::MAX);
    p.writer_counter = c0;
    p.reader_counter = c0;
    let w0 = p.create_data_writer(&hp, String::from("A"), QosKind::Default, None, sp::mask_from_bits(0), &rt()).expect("C35: writer creation");
    let r0 = p.create_data_reader(&hs, String::from("A"), QosKind::Default, None, sp::mask_from_bits(0), &rt()).expect("C35: reader creation");
    p.writer_counter = c;
    p.reader_counter = c;
    let w1 = p.create_data_writer(&hp, String::from("A"), QosKind::Default, None, sp::mask_from_bits(0), &rt()).expect("C35: writer creation");
    let r1 = p.create_data_reader(&hs, String::from("A"), QosKind::Default, None, sp::mask_from_bits(0), &rt()).expect("C35: reader creation");
    assert!(w0 != w1 && r0 != r1, "C35: endpoint handles distinct per kind");
    assert!(w1 != r1 && w1 != hp && r1 != hs && w1 != hs && r1 != hp, "C35: endpoint handles distinct from other entities");
    kani::cover!(c > 255, "second counter byte used");
    core::mem::forget(p);
}

// @check props=C35 tier=quick known=KF-C35-4
// @desc writer creation with writer_counter == 65535 overflows the u16 counter (same for reader_counter)
// @bounds writer_counter == 65535
// @enc DcpsDomainParticipant::create_data_writer
#[kani::proof]
#[kani::unwind(20)]
#[kani::stub(critical_section::acquire, super::support_cs::cs_acquire)]
#[kani::stub(critical_section::release, super::support_cs::cs_release)]
fn c35_endpoint_handle__known() {
    let cap = sp::Capture::new();
    let mut p = sp::participant(&cap, 0);
    let _t = new_topic(&mut p, "A");
    let hp = new_publisher(&mut p);
    p.writer_counter = u16::MAX;
    let _w = p.create_data_writer(&hp, String::from("A"), QosKind::Default, None, sp::mask_from_bits(0), &rt());
    core::mem::forget(p);
}
