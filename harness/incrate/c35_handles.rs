// C35 — entity handles stay unique and entity creation never panics.
// Pattern A: a real DcpsDomainParticipant; the per-kind creation counter is symbolic (it is the
// only state the handle computation depends on besides the parent's handle); one real create_*.
// History abstraction (inductive invariant I): every live entity of a kind was created with a
// counter value c0 strictly below the current counter c. One real create_* from ANY state
// satisfying I either returns Ok with a handle distinct from the live one and re-establishes I
// (counter strictly above every handle's counter bytes: no wrap-around), or returns
// Err(OutOfResources) and creates nothing; it never panics (dev-profile overflow checks are on).
// I holds initially (counter 0, no entity), so it covers create/delete histories of any length.
use super::support_participant as sp;
use crate::dcps::dcps_domain_participant::participant_entity::DcpsDomainParticipant;
use crate::infrastructure::error::{DdsError, DdsResult};
use crate::infrastructure::instance::InstanceHandle;
use crate::infrastructure::qos::QosKind;
use crate::infrastructure::time::Time;
use crate::xtypes::type_support::Type;
use alloc::string::String;

fn rt() -> sp::VRuntime {
    sp::VRuntime { now: Time::new(1, 0) }
}

fn try_publisher(p: &mut DcpsDomainParticipant) -> DdsResult<InstanceHandle> {
    p.create_user_defined_publisher(QosKind::Default, None, sp::mask_from_bits(0), &rt())
}
fn try_subscriber(p: &mut DcpsDomainParticipant) -> DdsResult<InstanceHandle> {
    p.create_user_defined_subscriber(QosKind::Default, None, sp::mask_from_bits(0), &rt())
}
fn new_publisher(p: &mut DcpsDomainParticipant) -> InstanceHandle {
    sp::must_ok!(try_publisher(p), "C35: publisher creation must succeed")
}
fn new_subscriber(p: &mut DcpsDomainParticipant) -> InstanceHandle {
    sp::must_ok!(try_subscriber(p), "C35: subscriber creation must succeed")
}
fn try_topic(p: &mut DcpsDomainParticipant, name: &str) -> DdsResult<InstanceHandle> {
    p.create_topic(
        String::from(name),
        String::from("T"),
        QosKind::Default,
        None,
        sp::mask_from_bits(0),
        <crate::infrastructure::time::Duration as Type>::TYPE,
        &rt(),
    )
}
fn new_topic(p: &mut DcpsDomainParticipant, name: &str) -> InstanceHandle {
    sp::must_ok!(try_topic(p, name), "C35: topic creation must succeed")
}
fn is_out_of_resources<T>(r: &DdsResult<T>) -> bool {
    matches!(r, Err(DdsError::OutOfResources))
}

// @check props=C35 tier=quick
// @desc create_user_defined_publisher from ANY counter value c (0..=255) with an earlier publisher (counter c0 < c) alive: never panics; Ok => handle differs from the live one and from the participant's, counter > c (invariant re-established, no wrap); Err => OutOfResources and no publisher was added
// @bounds one live publisher; publisher_counter symbolic over the full u8 range; c0 symbolic < c
// @assume invariant I: the live publisher's counter byte c0 is below the current counter c
// @enc DcpsDomainParticipant::create_user_defined_publisher
#[kani::proof]
#[kani::unwind(3)]
#[kani::stub(critical_section::acquire, super::support_cs::cs_acquire)]
#[kani::stub(critical_section::release, super::support_cs::cs_release)]
fn c35_publisher_handle() {
    let cap = sp::Capture::new();
    let mut p = sp::participant(&cap, 0);
    let c0: u8 = kani::any();
    let c: u8 = kani::any();
    kani::assume(c0 < c);
    p.publisher_counter = c0;
    let h0 = new_publisher(&mut p);
    p.publisher_counter = c;
    let n_before = p.domain_participant.user_defined_publisher_list.len();
    let r = try_publisher(&mut p);
    match &r {
        Ok(h1) => {
            assert!(h0 != *h1, "C35: publisher handles distinct");
            assert!(*h1 != *p.get_instance_handle(), "C35: publisher handle differs from participant handle");
            assert!(p.publisher_counter > c, "C35: publisher counter strictly increases (no wrap-around onto live handles)");
            assert!(h1[12] < p.publisher_counter, "C35: invariant re-established for the new publisher");
        }
        Err(_) => {
            assert!(is_out_of_resources(&r), "C35: publisher creation fails only with OutOfResources");
            assert!(p.domain_participant.user_defined_publisher_list.len() == n_before, "C35: failed creation adds no publisher");
        }
    }
    kani::cover!(c == 254 && r.is_ok(), "last usable counter value");
    kani::cover!(c == u8::MAX, "counter at its maximum reachable");
    core::mem::forget(p);
}

// @check props=C35 tier=quick
// @desc create_user_defined_subscriber, as c35_publisher_handle; additionally the subscriber handle differs from a live publisher's handle with the same counter value
// @bounds one live subscriber, one live publisher; subscriber_counter symbolic over the full u8 range
// @assume invariant I: the live subscriber's counter byte c0 is below the current counter c
// @enc DcpsDomainParticipant::create_user_defined_subscriber
#[kani::proof]
#[kani::unwind(3)]
#[kani::stub(critical_section::acquire, super::support_cs::cs_acquire)]
#[kani::stub(critical_section::release, super::support_cs::cs_release)]
fn c35_subscriber_handle() {
    let cap = sp::Capture::new();
    let mut p = sp::participant(&cap, 0);
    let c0: u8 = kani::any();
    let c: u8 = kani::any();
    kani::assume(c0 < c);
    p.subscriber_counter = c0;
    let h0 = new_subscriber(&mut p);
    p.publisher_counter = if c < u8::MAX { c } else { c0 };
    let hp = new_publisher(&mut p);
    p.subscriber_counter = c;
    let n_before = p.domain_participant.user_defined_subscriber_list.len();
    let r = try_subscriber(&mut p);
    match &r {
        Ok(h1) => {
            assert!(h0 != *h1, "C35: subscriber handles distinct");
            assert!(*h1 != hp, "C35: subscriber and publisher handles distinct");
            assert!(p.subscriber_counter > c, "C35: subscriber counter strictly increases (no wrap-around onto live handles)");
            assert!(h1[12] < p.subscriber_counter, "C35: invariant re-established for the new subscriber");
        }
        Err(_) => {
            assert!(is_out_of_resources(&r), "C35: subscriber creation fails only with OutOfResources");
            assert!(p.domain_participant.user_defined_subscriber_list.len() == n_before, "C35: failed creation adds no subscriber");
        }
    }
    kani::cover!(c == 254 && r.is_ok(), "last usable counter value");
    kani::cover!(c == u8::MAX, "counter at its maximum reachable");
    core::mem::forget(p);
}


// @check props=C35 tier=quick
// @desc create_topic from ANY topic_counter with an earlier topic alive: never panics; Ok => handle distinct from the live topic's and the counter stays strictly above every handle's counter bytes; Err => OutOfResources, no topic added
// @bounds one live topic; topic_counter symbolic over the full u16 range
// @assume invariant I: the live topic's counter c0 is below the current counter c
// @assume stub: TypeInformation::from(DynamicType) (MD5 of XTypes-serialized type objects, DynamicData) returns a fixed value; it does not influence handles or counters
// @assume stub: alloc::fmt::format returns an empty String (error message texts are in no claim)
// @enc DcpsDomainParticipant::create_topic
#[kani::proof]
#[kani::unwind(3)]
#[kani::stub(critical_section::acquire, super::support_cs::cs_acquire)]
#[kani::stub(critical_section::release, super::support_cs::cs_release)]
#[kani::stub(<crate::xtypes::type_object::TypeInformation as core::convert::From<crate::xtypes::dynamic_type::DynamicType<'static>>>::from, super::support_participant::type_information_stub)]
#[kani::stub(alloc::fmt::format, super::support_participant::fmt_format_stub)]
fn c35_topic_handle() {
    let cap = sp::Capture::new();
    let mut p = sp::participant(&cap, 0);
    let c0: u16 = kani::any();
    let c: u16 = kani::any();
    kani::assume(c0 < c);
    p.domain_participant.topic_counter = c0;
    let h0 = new_topic(&mut p, "A");
    p.domain_participant.topic_counter = c;
    let n_before = p.domain_participant.locally_created_topic_list.len();
    let r1 = try_topic(&mut p, "B");
    match &r1 {
        Ok(h1) => {
            assert!(h0 != *h1, "C35: topic handles distinct");
            assert!(*h1 != *p.get_instance_handle(), "C35: topic handle differs from participant handle");
            assert!(p.domain_participant.topic_counter > c, "C35: topic counter strictly increases (no wrap-around onto live handles)");
        }
        Err(_) => {
            assert!(is_out_of_resources(&r1), "C35: topic creation fails only with OutOfResources");
            assert!(c == u16::MAX, "C35: topic creation fails only at the counter maximum");
            assert!(p.domain_participant.locally_created_topic_list.len() == n_before, "C35: failed creation adds no topic");
        }
    }
    kani::cover!(c > 255 && r1.is_ok(), "second counter byte used");
    kani::cover!(c == u16::MAX, "counter at its maximum reachable");
    core::mem::forget(p);
}

// @check props=C35 tier=quick
// @desc create_content_filtered_topic (shares topic_counter with create_topic) from ANY counter value with the related topic alive: never panics; Ok => handle distinct from the live topic's, counter strictly increases; Err => OutOfResources and the counter is unchanged
// @bounds one live topic; topic_counter symbolic over the full u16 range
// @assume invariant I: the live topic's counter c0 is below the current counter c
// @assume stub: TypeInformation::from(DynamicType) returns a fixed value; stub: alloc::fmt::format returns an empty String
// @enc DcpsDomainParticipant::create_content_filtered_topic
#[kani::proof]
#[kani::unwind(3)]
#[kani::stub(critical_section::acquire, super::support_cs::cs_acquire)]
#[kani::stub(critical_section::release, super::support_cs::cs_release)]
#[kani::stub(<crate::xtypes::type_object::TypeInformation as core::convert::From<crate::xtypes::dynamic_type::DynamicType<'static>>>::from, super::support_participant::type_information_stub)]
#[kani::stub(alloc::fmt::format, super::support_participant::fmt_format_stub)]
fn c35_filtered_topic_handle() {
    let cap = sp::Capture::new();
    let mut p = sp::participant(&cap, 0);
    let c0: u16 = kani::any();
    let c: u16 = kani::any();
    kani::assume(c0 < c);
    p.domain_participant.topic_counter = c0;
    let h0 = new_topic(&mut p, "A");
    p.domain_participant.topic_counter = c;
    let ph = *p.get_instance_handle();
    let r2 = p.create_content_filtered_topic(&ph, String::from("F"), String::from("A"), String::new(), alloc::vec::Vec::new());
    match &r2 {
        Ok(h2) => {
            assert!(h0 != *h2, "C35: content filtered topic handle distinct from the live topic's");
            assert!(p.domain_participant.topic_counter > c, "C35: topic counter strictly increases (filtered topic)");
        }
        Err(_) => {
            assert!(is_out_of_resources(&r2), "C35: content filtered topic creation fails only with OutOfResources");
            assert!(c == u16::MAX, "C35: content filtered topic creation fails only at the counter maximum");
            assert!(p.domain_participant.topic_counter == c, "C35: failed creation leaves the counter");
        }
    }
    kani::cover!(r2.is_ok(), "filtered topic created");
    kani::cover!(r2.is_err(), "filtered topic creation at the counter maximum");
    core::mem::forget(p);
}

// Deletions (delete_user_defined_publisher/subscriber/topic) would have to be shown to preserve the invariant the
// creations rely on (every live entity's key < counter). One real delete_user_defined_publisher on a participant with
// ONE publisher holding a directly installed writer did not finish in 900 s — with and without assertion reach checks,
// global unwind 3 with per-loop unwindsets, and with the removed entity's drop glue cut out (harness kept in
// harness/parked/c35_delete_invariant.rs). NOT decided: seeded change C35-1 is therefore missed by this check.
// create_data_writer / create_data_reader (writer_counter / reader_counter) are NOT decided: one such call on a
// participant (topic + publisher + writer, symbolic counter) did not fit — Symex 24 s, 1618 VCCs after
// simplification, then "Solver ran out of memory during propositional reduction" at 26 GB / 450 s — even with the
// announce_data_writer, TypeInformation::from, TopicKind::from and alloc::fmt::format stubs and a global unwind of 4.
// See DESIGN.md (C35) — stated as outside the claim.
