// PARKED (not run): one call of check_missed_writer_deadline / check_missed_reader_deadline on a participant
// does not fit the solver budget. Measured on the cheapest variant (one writer, one instance, one call,
// MpscSender::send / DcpsStatusCondition::add_communication_state / String::clone replaced by recorders):
// symbolic execution 105 s, then the SAT encoding runs out of 12 GB (CaDiCaL and MiniSat); with the real
// channel and status condition no answer in 900 s. Cause: the three nested entity lists (writers of a publisher,
// instances of a writer, missed handles) live in heap buffers whose lengths CBMC cannot constant-fold, so
// every loop runs one extra pass over unconstrained memory and the passes multiply around the listener-dispatch
// body; cutting the loops after the real elements (unsound: unwinding assertions fail) gives 27 s / < 2 GB.
// Iterator::next of slice/vec iterators cannot be stubbed (generic trait impls). The harness text is kept as
// the specification of what should be decided (and of finding candidate KF-C30-1, see the report).
// C30 — deadline-missed counts increase once per missed period, each increase is signalled.
//
// Pattern A: a real DcpsDomainParticipant with one topic, one publisher/subscriber and one directly
// installed writer/reader holding ONE instance; the real periodic duty
// `check_missed_writer_deadline(now)` / `check_missed_reader_deadline(now)` (what the worker calls after
// every wake-up with the current clock reading) is executed ONCE or TWICE with symbolic clock readings
// now1 <= now2, a symbolic finite deadline D > 0 and a symbolic time `a` of the most recent sample.
//
// Oracle (from the property text, boundary `==` accepted either way):
//   (no over-count)  after every call: count * D <= now - a   — every counted miss is a DISTINCT full
//                    period that has elapsed since the last sample (periods (a+(k-1)D, a+kD]);
//   (no under-count) a call that does not increase the count has no uncounted full period behind it:
//                    now - a <= (count+1) * D;
//   (signalled)      every increase sets the entity's status condition and — if the entity's listener
//                    mask enables the status — queues exactly one listener mail carrying the new total.
// A call may catch up by one or by several periods: both satisfy the oracle (the code catches up by one
// per call and the worker calls again immediately: C31).
use super::support_part2 as s2;
use super::support_participant as sp;
use crate::dcps::dcps_domain_participant::participant_entity::DcpsDomainParticipant;
use crate::infrastructure::qos::{DataReaderQos, DataWriterQos};
use crate::infrastructure::qos_policy::DeadlineQosPolicy;
use crate::infrastructure::status::StatusKind;
use crate::infrastructure::time::{Duration, DurationKind, Time};

const ZERO: Duration = Duration::new(0, 0);

/// `a + k*D` for k in 0..=3 with the repository's own Time + Duration.
fn plus(a: Time, d: Duration, k: i32) -> Time {
    match k {
        0 => a,
        1 => a + d,
        2 => a + d + d,
        _ => a + d + d + d,
    }
}

struct W {
    p: DcpsDomainParticipant,
    rx: s2::Rx,
    a: Time,
    d: Duration,
    n0: i32,
    listen: bool,
}

/// Participant + topic + publisher + one enabled writer with deadline D, one registered instance whose
/// last write (or end of the last counted period) is `a`, offered_deadline_missed total_count = n0.
fn writer_fixture() -> W {
    let cap = sp::Capture::new();
    let mut p = sp::participant(&cap, 0);
    s2::install_topic(&mut p);
    let d = s2::any_duration();
    kani::assume(d > ZERO);
    let a = s2::any_time();
    let n0: i32 = kani::any();
    kani::assume(n0 >= 0 && n0 <= 1000);
    let listen: bool = kani::any();
    let (tx, rx) = s2::listener_channel();
    let mut qos = DataWriterQos::default();
    qos.deadline = DeadlineQosPolicy { period: DurationKind::Finite(d) };
    let mut w = s2::new_writer(qos, Some(tx), s2::mask_one(StatusKind::OfferedDeadlineMissed, listen));
    w.registered_instance_info = alloc::vec![s2::writer_instance(s2::INSTANCE_H, Some(a))];
    w.offered_deadline_missed_status.total_count = n0;
    s2::install_publisher(&mut p, None, sp::mask_from_bits(0), alloc::vec![w]);
    core::mem::forget(cap);
    W { p, rx, a, d, n0, listen }
}

fn w_count(p: &DcpsDomainParticipant) -> i32 {
    p.domain_participant.user_defined_publisher_list[0].data_writer_list[0]
        .offered_deadline_missed_status
        .total_count
}
fn w_trigger(p: &DcpsDomainParticipant) -> bool {
    p.domain_participant.user_defined_publisher_list[0].data_writer_list[0].status_condition.get_trigger_value()
}

// @parked props=C30 tier=quick
// @desc writer side, two successive worker iterations: check_missed_writer_deadline(now1) then (now2), a <= now1 <= now2: after each call the number of counted misses k satisfies k*D <= now - a (each counted miss is a distinct elapsed full period) and a call without increase has now - a <= (k+1)*D (no elapsed period left uncounted); the instance's armed time advanced by exactly k*D; the status condition is triggered iff k > 0; with the writer listener mask enabled exactly k mails OfferedDeadlineMissed are queued carrying totals n0+1..n0+k, none otherwise
// @bounds one publisher, one writer, one registered instance; two calls; deadline D in (0, 2^20 s], times in [0, 2^20 s] with any nanosecond; prior total_count n0 in 0..=1000
// @assume the topic/publisher/writer were installed directly in the state create_topic / create_user_defined_publisher / create_data_writer + enable give them (support_part2.rs); listener sender = real mpsc channel whose receiver is polled by the harness; publisher and participant have no listener
// @assume clock readings are non-decreasing (a <= now1 <= now2); D > 0; seconds <= 2^20 (no i32 saturation, C14)
// @enc DcpsDomainParticipant::check_missed_writer_deadline
// @enc DcpsStatusCondition::add_communication_state
// @enc MpscSender::send
// #[kani::proof]
// #[kani::unwind(4)]
// #[kani::stub(critical_section::acquire, super::support_cs::cs_acquire)]
// #[kani::stub(critical_section::release, super::support_cs::cs_release)]
fn c30_writer_two_iterations() {
    let mut f = writer_fixture();
    let now1 = s2::any_time();
    let now2 = s2::any_time();
    kani::assume(f.a <= now1 && now1 <= now2);

    f.p.check_missed_writer_deadline(now1);
    let k1 = w_count(&f.p) - f.n0;
    assert!(k1 >= 0 && k1 <= 1, "C30: writer count is monotone (first call)");
    assert!(plus(f.a, f.d, k1) <= now1, "C30: every counted offered-deadline miss is a distinct elapsed full period (first call)");
    if k1 == 0 {
        assert!(now1 <= plus(f.a, f.d, 1), "C30: an elapsed full period is counted by the call that sees it (first call)");
    }
    assert!(w_trigger(&f.p) == (k1 > 0), "C30: status condition triggered iff a miss was counted (first call)");

    f.p.check_missed_writer_deadline(now2);
    let k2 = w_count(&f.p) - f.n0;
    assert!(k2 >= k1 && k2 <= k1 + 1, "C30: writer count is monotone (second call)");
    assert!(plus(f.a, f.d, k2) <= now2, "C30: every counted offered-deadline miss is a distinct elapsed full period (second call)");
    if k2 == k1 {
        assert!(now2 <= plus(f.a, f.d, k2 + 1), "C30: an elapsed full period is counted by the call that sees it (second call)");
    }
    assert!(w_trigger(&f.p) == (k2 > 0), "C30: status condition triggered iff a miss was counted (second call)");
    let armed = f.p.domain_participant.user_defined_publisher_list[0].data_writer_list[0].registered_instance_info[0].last_write_time;
    assert!(armed == Some(plus(f.a, f.d, k2)), "C30: the writer instance is re-armed by exactly one period per counted miss");

    let (n, m1, m2) = s2::drain2(&f.rx);
    if f.listen {
        assert!(n as i32 == k2, "C30: one listener mail per counted offered-deadline miss");
        if k2 >= 1 {
            assert!(
                m1 == Some(s2::MailKind::OfferedDeadlineMissed { total_count: f.n0 + 1, total_count_change: 1 }),
                "C30: first mail carries the first new total"
            );
        }
        if k2 == 2 {
            assert!(
                m2 == Some(s2::MailKind::OfferedDeadlineMissed { total_count: f.n0 + 2, total_count_change: 1 }),
                "C30: second mail carries the second new total"
            );
        }
    } else {
        assert!(n == 0, "C30: no listener mail when the mask does not enable the status");
    }
    kani::cover!(k2 == 2 && f.listen, "two periods missed and signalled");
    kani::cover!(k1 == 1 && k2 == 1, "one miss, second call inside the next period: not counted again");
    kani::cover!(k1 == 0 && k2 == 1, "miss seen by the second call only");
    kani::cover!(k2 == 0 && now2 > f.a, "no miss while inside the period");
    core::mem::forget(f);
}

struct R {
    p: DcpsDomainParticipant,
    rx: s2::Rx,
    a: Time,
    d: Duration,
    n0: i32,
    listen: bool,
}

/// Participant + topic + subscriber + one enabled reader with deadline D and one ALIVE instance whose most
/// recent sample was received at `a` (instance_ownership present or already released), total_count = n0.
fn reader_fixture() -> R {
    let cap = sp::Capture::new();
    let mut p = sp::participant(&cap, 0);
    s2::install_topic(&mut p);
    let d = s2::any_duration();
    kani::assume(d > ZERO);
    let a = s2::any_time();
    let n0: i32 = kani::any();
    kani::assume(n0 >= 0 && n0 <= 1000);
    let listen: bool = kani::any();
    let (tx, rx) = s2::listener_channel();
    let mut qos = DataReaderQos::default();
    qos.deadline = DeadlineQosPolicy { period: DurationKind::Finite(d) };
    let mut r = s2::new_reader(qos, Some(tx), s2::mask_one(StatusKind::RequestedDeadlineMissed, listen));
    r.instances = alloc::vec![s2::reader_instance(s2::INSTANCE_H, a)];
    if kani::any() {
        r.instance_ownership = alloc::vec![s2::reader_ownership(s2::INSTANCE_H, a)];
    }
    r.requested_deadline_missed_status.total_count = n0;
    s2::install_subscriber(&mut p, None, sp::mask_from_bits(0), alloc::vec![r]);
    core::mem::forget(cap);
    R { p, rx, a, d, n0, listen }
}

fn r_count(p: &DcpsDomainParticipant) -> i32 {
    p.domain_participant.user_defined_subscriber_list[0].data_reader_list[0]
        .requested_deadline_missed_status
        .total_count
}
fn r_trigger(p: &DcpsDomainParticipant) -> bool {
    p.domain_participant.user_defined_subscriber_list[0].data_reader_list[0].status_condition.get_trigger_value()
}

/// The recorded trigger of KF-C30-1: the first call counted a miss and the second clock reading is still
/// inside the NEXT period (the second full period since the last sample has not elapsed).
fn kf_c30_1(a: Time, d: Duration, now1: Time, now2: Time) -> bool {
    now1 - a > d && now2 < plus(a, d, 2)
}

fn reader_two_iterations(known: bool) {
    let mut f = reader_fixture();
    let now1 = s2::any_time();
    let now2 = s2::any_time();
    kani::assume(f.a <= now1 && now1 <= now2);
    kani::assume(kf_c30_1(f.a, f.d, now1, now2) == known);

    f.p.check_missed_reader_deadline(now1);
    let k1 = r_count(&f.p) - f.n0;
    assert!(k1 >= 0 && k1 <= 1, "C30: reader count is monotone (first call)");
    assert!(plus(f.a, f.d, k1) <= now1, "C30: every counted requested-deadline miss is a distinct elapsed full period (first call)");
    if k1 == 0 {
        assert!(now1 <= plus(f.a, f.d, 1), "C30: an elapsed full period is counted by the call that sees it (reader, first call)");
    }
    assert!(r_trigger(&f.p) == (k1 > 0), "C30: reader status condition triggered iff a miss was counted (first call)");

    f.p.check_missed_reader_deadline(now2);
    let k2 = r_count(&f.p) - f.n0;
    assert!(k2 >= k1 && k2 <= k1 + 1, "C30: reader count is monotone (second call)");
    assert!(plus(f.a, f.d, k2) <= now2, "C30: every counted requested-deadline miss is a distinct elapsed full period (second call)");
    if k2 == k1 {
        assert!(now2 <= plus(f.a, f.d, k2 + 1), "C30: an elapsed full period is counted by the call that sees it (reader, second call)");
    }
    assert!(r_trigger(&f.p) == (k2 > 0), "C30: reader status condition triggered iff a miss was counted (second call)");

    let (n, m1, m2) = s2::drain2(&f.rx);
    if f.listen {
        assert!(n as i32 == k2, "C30: one listener mail per counted requested-deadline miss");
        if k2 >= 1 {
            assert!(
                m1 == Some(s2::MailKind::RequestedDeadlineMissed { total_count: f.n0 + 1, total_count_change: 1 }),
                "C30: first reader mail carries the first new total"
            );
        }
        if k2 == 2 {
            assert!(
                m2 == Some(s2::MailKind::RequestedDeadlineMissed { total_count: f.n0 + 2, total_count_change: 1 }),
                "C30: second reader mail carries the second new total"
            );
        }
    } else {
        assert!(n == 0, "C30: no reader listener mail when the mask does not enable the status");
    }
    if known {
        kani::cover!(k2 == 2, "the same period was counted twice");
    } else {
        kani::cover!(k2 == 2 && f.listen, "two periods missed and signalled");
        kani::cover!(k1 == 0 && k2 == 1, "miss seen by the second call only");
        kani::cover!(k2 == 0 && now2 > f.a, "no miss while inside the period");
    }
    core::mem::forget(f);
}

// @parked props=C30 tier=quick known=KF-C30-1
// @desc reader side, two successive worker iterations restricted to the recorded trigger (first call counts a miss, second clock reading still inside the next period): expected to FAIL — check_missed_reader_deadline never re-arms the instance, so the second call counts the SAME period again
// @bounds as c30_reader_two_iterations__rest
// @assume trigger KF-C30-1: now1 - a > D && now2 < a + 2*D
// @assume reader/subscriber/topic installed directly (support_part2.rs); a <= now1 <= now2; D > 0
// @enc DcpsDomainParticipant::check_missed_reader_deadline
// #[kani::proof]
// #[kani::unwind(4)]
// #[kani::stub(critical_section::acquire, super::support_cs::cs_acquire)]
// #[kani::stub(critical_section::release, super::support_cs::cs_release)]
fn c30_reader_two_iterations__known() {
    reader_two_iterations(true);
}

// @parked props=C30 tier=quick
// @desc reader side, two successive worker iterations: check_missed_reader_deadline(now1) then (now2), a <= now1 <= now2, outside the recorded trigger KF-C30-1: same oracle as the writer side (no over-count, no under-count, status condition triggered iff a miss was counted, one RequestedDeadlineMissed mail per counted miss when the reader mask enables it, none otherwise)
// @bounds one subscriber, one reader, one ALIVE instance (ownership record present or released); two calls; deadline D in (0, 2^20 s], times in [0, 2^20 s] with any nanosecond; prior total_count n0 in 0..=1000
// @assume NOT trigger KF-C30-1: !(now1 - a > D && now2 < a + 2*D)
// @assume the topic/subscriber/reader were installed directly in the state create_topic / create_user_defined_subscriber / create_data_reader + enable + one add_reader_change at time a give them (support_part2.rs; InstanceState built through the guarded verif_from_parts hook); listener sender = real mpsc channel; subscriber and participant have no listener
// @assume clock readings are non-decreasing (a <= now1 <= now2); D > 0; seconds <= 2^20
// @enc DcpsDomainParticipant::check_missed_reader_deadline
// @enc DcpsStatusCondition::add_communication_state
// @enc MpscSender::send
// #[kani::proof]
// #[kani::unwind(4)]
// #[kani::stub(critical_section::acquire, super::support_cs::cs_acquire)]
// #[kani::stub(critical_section::release, super::support_cs::cs_release)]
fn c30_reader_two_iterations__rest() {
    reader_two_iterations(false);
}
