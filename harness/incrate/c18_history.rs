// C18 — KEEP_LAST / KEEP_ALL history of the DataReader sample cache.
// Pattern S: ONE real `DataReaderEntity::<()>::add_reader_change` from a directly constructed
// symbolic pre-state (see support_reader.rs for the bounded family and the representation invariant).
//
// Finding KF-C18-1 (see known_findings.d/reader_cache1.json): the resource-limit tests of
// add_reader_change (data_reader_entity.rs:460-507) run BEFORE the KEEP_LAST replacement
// (data_reader_entity.rs:516-527), so a KEEP_LAST reader whose instance already holds `depth` ALIVE
// samples rejects the next sample (SamplesPerInstanceLimit when max_samples_per_instance == depth,
// SamplesLimit when max_samples is reached) although the replacement would not grow the cache.
use super::support_reader::*;
use crate::infrastructure::instance::InstanceHandle;
use crate::infrastructure::qos_policy::DestinationOrderQosPolicyKind;
// alias: Kani's stub path resolver picks the derive macro `PartialEq` instead of the trait otherwise
use core::cmp::PartialEq as HandlePartialEq;

/// Trigger of KF-C18-1: the instance of the incoming change already holds `depth` ALIVE samples (so
/// KEEP_LAST must replace the oldest one and the number of stored samples does not grow) while a
/// resource limit that the replacement would not exceed is "reached".
fn kf_c18_1_trigger(cfg: &Cfg, pre: &PreState, c: &Incoming) -> bool {
    cfg.replacement_case(pre, c)
        && (limit_reached(pre.inst_total(c.inst), cfg.mspi) || limit_reached(pre.alive_total(), cfg.ms))
}

#[derive(Clone, Copy, PartialEq, Eq)]
enum Mode {
    /// pre-state restricted to the trigger of KF-C18-1; only the violated assertion is stated
    Known,
    /// negation of the trigger assumed; the full step contract is asserted
    Rest,
}

/// One real step and what it observed (vacuity witnesses are stated per harness: a `kani::cover!` that
/// a harness cannot reach counts as a failed witness).
struct Run {
    cfg: Cfg,
    pre: PreState,
    c: Incoming,
    res: StepResult,
    post: PostState,
    rep_ok_after: bool,
    replacement_case: bool,
    evicted: usize,
    keep_last: bool,
    grew: bool,
}

fn c18_run(st: &Structure, hist: Hist, order: DestinationOrderQosPolicyKind, mode: Mode) -> Run {
    let cfg = any_cfg(hist, order, zero_separation());
    let (pre, c) = any_run(st, &cfg, TimeDomain::Small);
    match mode {
        Mode::Known => kani::assume(kf_c18_1_trigger(&cfg, &pre, &c)),
        Mode::Rest => kani::assume(!kf_c18_1_trigger(&cfg, &pre, &c)),
    }
    let mut r = build_reader(cfg.qos(), &pre);
    let res = step(&mut r, &c);
    let post = observe(&r);
    let rep_ok_after = rep_ok_real(&r);
    core::mem::forget(r);
    Run {
        cfg,
        pre,
        c,
        res,
        rep_ok_after,
        replacement_case: cfg.replacement_case(&pre, &c),
        evicted: cfg.evicted(&pre, &c),
        keep_last: cfg.keep_last(),
        grew: post.n == pre.n + 1,
        post,
    }
}

/// (c) never rejected because of depth — the assertion KF-C18-1 violates
fn assert_not_rejected_for_depth(x: &Run) {
    if x.replacement_case {
        assert!(
            !matches!(x.res, StepResult::Rejected(_, _)),
            "C18: KEEP_LAST must replace the oldest sample instead of rejecting the new one"
        );
    }
}

/// the full step contract of C18
fn c18_contract(x: &Run) {
    let (cfg, pre, c, post) = (&x.cfg, &x.pre, &x.c, &x.post);
    assert_not_rejected_for_depth(x);
    match x.res {
        StepResult::Added => {
            // (b) the new sample is stored ...
            assert!(post.new_samples() == 1, "C18: the new sample is stored");
            assert!(post.new_sample_matches(c) == 1, "C18: the stored sample is the received one");
            if x.replacement_case {
                // ... the removed one is the OLDEST (first in storage order) ALIVE sample of that instance
                assert!(x.evicted < MAX_STORED, "C18: replacement case has an ALIVE sample");
                assert!(post.n == pre.n, "C18: replacement keeps the number of stored samples");
                assert!(post.dropped(pre, x.evicted), "C18: the oldest ALIVE sample of the instance is the one removed");
                assert!(post.keeps_all_but(pre, x.evicted), "C18: every other stored sample is kept unchanged, in order");
            } else {
                assert!(post.n == pre.n + 1, "C18: below depth (or KEEP_ALL) nothing is removed");
                assert!(post.keeps_all_but(pre, MAX_STORED), "C18: below depth (or KEEP_ALL) every stored sample is kept unchanged, in order");
            }
            if cfg.order == DestinationOrderQosPolicyKind::ByReceptionTimestamp {
                assert!(post.new_sample_is_last(), "C18: BY_RECEPTION_TIMESTAMP stores the newest sample last");
            }
        }
        StepResult::Rejected(h, reason) => {
            // (d) a rejection is always justified by a reached resource limit, never by depth
            assert!(h == c.inst, "C18: rejection names the instance of the change");
            assert!(cfg.rejection_justified(pre, c, reason), "C18: Rejected only when the named resource limit is reached");
            assert!(post.unchanged(pre), "C18: a rejected change leaves the stored samples untouched");
        }
        StepResult::NotAdded => {
            assert!(false, "C18: without time-based filter and exclusive ownership nothing is silently dropped");
        }
        StepResult::Error => {
            assert!(is_not_alive_kind(c.kind) && !pre.inst_known(c.inst), "C18: Err only for a dispose/unregister of an unknown instance");
            assert!(post.unchanged(pre), "C18: an erroneous change leaves the stored samples untouched");
        }
    }
    // (e) invariants re-established
    assert!(cfg.history_inv_post(post), "C18: per instance at most depth ALIVE samples after the step");
    assert!(cfg.limits_inv_post(post), "C18: resource-limit invariant after the step");
    assert!(x.rep_ok_after, "reader cache representation invariant after the step");
}

fn c18_check(st: &Structure, hist: Hist, order: DestinationOrderQosPolicyKind) -> Run {
    let x = c18_run(st, hist, order, Mode::Rest);
    c18_contract(&x);
    x
}

fn c18_known(st: &Structure) {
    let x = c18_run(st, Hist::KeepLast, DestinationOrderQosPolicyKind::ByReceptionTimestamp, Mode::Known);
    kani::cover!(
        x.res == StepResult::Rejected(x.c.inst, crate::infrastructure::status::SampleRejectedStatusKind::RejectedBySamplesPerInstanceLimit),
        "trigger reached: rejected for max_samples_per_instance in the replacement case"
    );
    kani::cover!(
        x.res == StepResult::Rejected(x.c.inst, crate::infrastructure::status::SampleRejectedStatusKind::RejectedBySamplesLimit),
        "trigger reached: rejected for max_samples in the replacement case"
    );
    assert_not_rejected_for_depth(&x);
}

const BY_RECEPTION: DestinationOrderQosPolicyKind = DestinationOrderQosPolicyKind::ByReceptionTimestamp;
const BY_SOURCE: DestinationOrderQosPolicyKind = DestinationOrderQosPolicyKind::BySourceTimestamp;

fn keep_last_covers(o: &Run) {
    kani::cover!(o.res == StepResult::Added && o.replacement_case, "a sample was replaced (KEEP_LAST at depth)");
    kani::cover!(o.res == StepResult::Added && !o.replacement_case && o.grew, "KEEP_LAST below depth appended");
    kani::cover!(matches!(o.res, StepResult::Rejected(_, _)), "a rejection for a resource limit is reachable");
}
fn keep_last_covers_n2(o: &Run) {
    keep_last_covers(o);
    kani::cover!(
        o.res == StepResult::Added && o.replacement_case && o.evicted > 0,
        "the evicted sample is not the first stored one (other instance / not-alive sample in front)"
    );
}
fn keep_all_covers(o: &Run) {
    kani::cover!(o.res == StepResult::Added && o.grew, "KEEP_ALL appended to a non-empty cache");
    kani::cover!(matches!(o.res, StepResult::Rejected(_, _)), "KEEP_ALL rejects only for a reached resource limit");
}

// ===== harnesses (one Kani proof per line of the table in the file header) =====

// @check props=C18,C19,C21,C25 tier=quick
// @desc The loop-free stub `handle_eq_stub` installed in every reader-cache harness returns exactly what the real derived `<InstanceHandle as PartialEq>::eq` returns, for all 2 x 16 bytes (this harness runs the real `eq`, no stub).
// @bounds none (all 32 bytes symbolic); unwind 18 = 16-byte memcmp + 2
// @enc dcps::infrastructure::instance::InstanceHandle::eq
#[kani::proof]
#[kani::unwind(18)]
fn c18_handle_eq_stub_is_equivalent() {
    let a: [u8; 16] = kani::any();
    let b: [u8; 16] = kani::any();
    let (ha, hb) = (InstanceHandle::new(a), InstanceHandle::new(b));
    assert!((ha == hb) == handle_eq_stub(&ha, &hb), "handle_eq_stub equals the derived InstanceHandle::eq");
    kani::cover!(ha == hb, "equal handles");
    kani::cover!(ha != hb && a[0] == b[0] && a[15] != b[15], "handles differing in the last byte only");
}

// @check props=C18 tier=quick
// @desc KEEP_LAST(depth), BY_RECEPTION_TIMESTAMP, cache with exactly 1 stored sample(s): one real add_reader_change; the new sample is stored last; a sample is removed only when the instance already holds depth ALIVE samples and then it is the oldest (first stored) ALIVE sample of that instance; all other samples are kept unchanged in their order; Rejected only for a reached resource limit and then nothing changes; NotAdded never; history, resource-limit and representation invariants hold again. Outside the trigger of KF-C18-1.
// @bounds exactly 1 stored sample(s), KEEP_LAST(depth) with depth 1..=3, BY_RECEPTION_TIMESTAMP, 2 instance handles (both registered), 2 writers, each resource limit in {1,2,3,unlimited} (QoS consistent), all 5 change kinds for stored and incoming samples, source timestamps None or sec 0..4 x nanosec {0, 5*10^8}, symbolic sample/view/instance states and generation counts 0..2, instance_ownership empty; unwind 6 (lists <= 4 elements + 2)
// @assume pre-state satisfies the representation invariant R1-R3, the KEEP_LAST invariant (<= depth ALIVE samples per instance) and the resource-limit invariant (all re-asserted after the step)
// @assume DataReaderQos::is_consistent() holds; ownership SHARED; time-based filter off (minimum_separation 0)
// @assume negation of the KF-C18-1 trigger: not (the instance holds depth ALIVE samples and (samples of the instance == max_samples_per_instance or ALIVE samples == max_samples))
// @assume <InstanceHandle as PartialEq>::eq replaced by the loop-free handle_eq_stub (equivalence: c18_handle_eq_stub_is_equivalent)
// @enc dcps::dcps_domain_participant::data_reader_entity::DataReaderEntity::add_reader_change
// @enc dcps::dcps_domain_participant::data_reader_entity::InstanceState::update_state
#[kani::proof]
#[kani::unwind(6)]
#[kani::solver(minisat)]
#[kani::stub(<crate::infrastructure::instance::InstanceHandle as HandlePartialEq<crate::infrastructure::instance::InstanceHandle>>::eq, super::support_reader::handle_eq_stub)]
fn c18_keep_last_n1__rest() {
    let o = c18_check(&plain(1), Hist::KeepLast, BY_RECEPTION);
    keep_last_covers(&o);
}

// @check props=C18 tier=thorough
// @desc KEEP_LAST(depth), BY_RECEPTION_TIMESTAMP, cache with exactly 2 stored sample(s): one real add_reader_change; the new sample is stored last; a sample is removed only when the instance already holds depth ALIVE samples and then it is the oldest (first stored) ALIVE sample of that instance; all other samples are kept unchanged in their order; Rejected only for a reached resource limit and then nothing changes; NotAdded never; history, resource-limit and representation invariants hold again. Outside the trigger of KF-C18-1.
// @bounds exactly 2 stored sample(s), KEEP_LAST(depth) with depth 1..=3, BY_RECEPTION_TIMESTAMP, 2 instance handles (both registered), 2 writers, each resource limit in {1,2,3,unlimited} (QoS consistent), all 5 change kinds for stored and incoming samples, source timestamps None or sec 0..4 x nanosec {0, 5*10^8}, symbolic sample/view/instance states and generation counts 0..2, instance_ownership empty; unwind 6 (lists <= 4 elements + 2)
// @assume pre-state satisfies the representation invariant R1-R3, the KEEP_LAST invariant (<= depth ALIVE samples per instance) and the resource-limit invariant (all re-asserted after the step)
// @assume DataReaderQos::is_consistent() holds; ownership SHARED; time-based filter off (minimum_separation 0)
// @assume negation of the KF-C18-1 trigger: not (the instance holds depth ALIVE samples and (samples of the instance == max_samples_per_instance or ALIVE samples == max_samples))
// @assume <InstanceHandle as PartialEq>::eq replaced by the loop-free handle_eq_stub (equivalence: c18_handle_eq_stub_is_equivalent)
// @enc dcps::dcps_domain_participant::data_reader_entity::DataReaderEntity::add_reader_change
// @enc dcps::dcps_domain_participant::data_reader_entity::InstanceState::update_state
#[kani::proof]
#[kani::unwind(6)]
#[kani::solver(minisat)]
#[kani::stub(<crate::infrastructure::instance::InstanceHandle as HandlePartialEq<crate::infrastructure::instance::InstanceHandle>>::eq, super::support_reader::handle_eq_stub)]
fn c18_keep_last_n2__rest() {
    let o = c18_check(&plain(2), Hist::KeepLast, BY_RECEPTION);
    keep_last_covers_n2(&o);
}

// @check props=C18 tier=quick
// @desc KEEP_ALL, BY_RECEPTION_TIMESTAMP, cache with exactly 2 stored sample(s): one real add_reader_change never removes a stored sample; the new sample is stored last and all others are kept unchanged in order; Rejected only for a reached resource limit (then nothing changes); NotAdded never; resource-limit and representation invariants hold again.
// @bounds exactly 2 stored sample(s), KEEP_ALL, BY_RECEPTION_TIMESTAMP, 2 instance handles (both registered), 2 writers, each resource limit in {1,2,3,unlimited} (QoS consistent), all 5 change kinds for stored and incoming samples, source timestamps None or sec 0..4 x nanosec {0, 5*10^8}, symbolic sample/view/instance states and generation counts 0..2, instance_ownership empty; unwind 6 (lists <= 4 elements + 2)
// @assume pre-state satisfies the representation invariant R1-R3, the KEEP_LAST invariant (<= depth ALIVE samples per instance) and the resource-limit invariant (all re-asserted after the step)
// @assume DataReaderQos::is_consistent() holds; ownership SHARED; time-based filter off (minimum_separation 0)
// @assume <InstanceHandle as PartialEq>::eq replaced by the loop-free handle_eq_stub (equivalence: c18_handle_eq_stub_is_equivalent)
// @enc dcps::dcps_domain_participant::data_reader_entity::DataReaderEntity::add_reader_change
// @enc dcps::dcps_domain_participant::data_reader_entity::InstanceState::update_state
#[kani::proof]
#[kani::unwind(6)]
#[kani::solver(minisat)]
#[kani::stub(<crate::infrastructure::instance::InstanceHandle as HandlePartialEq<crate::infrastructure::instance::InstanceHandle>>::eq, super::support_reader::handle_eq_stub)]
fn c18_keep_all_n2() {
    let o = c18_check(&plain(2), Hist::KeepAll, BY_RECEPTION);
    keep_all_covers(&o);
}

// @check props=C18 tier=quick known=KF-C18-1
// @desc KF-C18-1: KEEP_LAST(depth) reader, the instance of the incoming change holds depth ALIVE samples and max_samples_per_instance (== all samples of the instance) or max_samples (== all ALIVE samples) is reached: the property demands replacement of the oldest sample, the implementation answers Rejected.
// @bounds exactly 1 stored sample(s), KEEP_LAST(1..=3), BY_RECEPTION_TIMESTAMP, 2 instance handles (both registered), 2 writers, each resource limit in {1,2,3,unlimited} (QoS consistent), all 5 change kinds for stored and incoming samples, source timestamps None or sec 0..4 x nanosec {0, 5*10^8}, symbolic sample/view/instance states and generation counts 0..2, instance_ownership empty; unwind 6 (lists <= 4 elements + 2)
// @assume the KF-C18-1 trigger (replacement case and a reached max_samples_per_instance / max_samples); R1-R3, KEEP_LAST and resource-limit invariants; consistent QoS
// @assume <InstanceHandle as PartialEq>::eq replaced by the loop-free handle_eq_stub (equivalence: c18_handle_eq_stub_is_equivalent)
// @enc dcps::dcps_domain_participant::data_reader_entity::DataReaderEntity::add_reader_change
#[kani::proof]
#[kani::unwind(6)]
#[kani::solver(minisat)]
#[kani::stub(<crate::infrastructure::instance::InstanceHandle as HandlePartialEq<crate::infrastructure::instance::InstanceHandle>>::eq, super::support_reader::handle_eq_stub)]
fn c18_keep_last_rejects_at_limit__known() {
    c18_known(&plain(1));
}

// @check props=C18 tier=thorough
// @desc Empty cache, KEEP_LAST(depth) (the KEEP_ALL run is c19_reader_limits_keep_all_n0): one real add_reader_change stores the first sample, removes nothing and never answers Rejected or NotAdded (an empty cache reaches no limit).
// @bounds 0 stored samples, KEEP_LAST(1..=3), BY_RECEPTION_TIMESTAMP, 2 instance handles (both registered), 2 writers, each resource limit in {1,2,3,unlimited} (QoS consistent), all 5 change kinds for stored and incoming samples, source timestamps None or sec 0..4 x nanosec {0, 5*10^8}, symbolic sample/view/instance states and generation counts 0..2, instance_ownership empty; unwind 6 (lists <= 4 elements + 2)
// @assume pre-state satisfies the representation invariant R1-R3, the KEEP_LAST invariant (<= depth ALIVE samples per instance) and the resource-limit invariant (all re-asserted after the step)
// @assume DataReaderQos::is_consistent() holds; ownership SHARED; time-based filter off (minimum_separation 0)
// @assume <InstanceHandle as PartialEq>::eq replaced by the loop-free handle_eq_stub (equivalence: c18_handle_eq_stub_is_equivalent)
// @enc dcps::dcps_domain_participant::data_reader_entity::DataReaderEntity::add_reader_change
// @enc dcps::dcps_domain_participant::data_reader_entity::InstanceState::update_state
#[kani::proof]
#[kani::unwind(6)]
#[kani::solver(minisat)]
#[kani::stub(<crate::infrastructure::instance::InstanceHandle as HandlePartialEq<crate::infrastructure::instance::InstanceHandle>>::eq, super::support_reader::handle_eq_stub)]
fn c18_empty_cache() {
    let o = c18_check(&plain(0), Hist::KeepLast, BY_RECEPTION);
    kani::cover!(o.res == StepResult::Added && o.grew, "first sample stored");
    assert!(!matches!(o.res, StepResult::Rejected(_, _)), "C18: an empty cache rejects nothing");
}

// @check props=C18 tier=thorough
// @desc KEEP_LAST(depth), BY_RECEPTION_TIMESTAMP, cache with exactly 3 stored sample(s): one real add_reader_change; the new sample is stored last; a sample is removed only when the instance already holds depth ALIVE samples and then it is the oldest (first stored) ALIVE sample of that instance; all other samples are kept unchanged in their order; Rejected only for a reached resource limit and then nothing changes; NotAdded never; history, resource-limit and representation invariants hold again. Outside the trigger of KF-C18-1.
// @bounds exactly 3 stored sample(s), KEEP_LAST(depth) with depth 1..=3, BY_RECEPTION_TIMESTAMP, 2 instance handles (both registered), 2 writers, each resource limit in {1,2,3,unlimited} (QoS consistent), all 5 change kinds for stored and incoming samples, source timestamps None or sec 0..4 x nanosec {0, 5*10^8}, symbolic sample/view/instance states and generation counts 0..2, instance_ownership empty; unwind 6 (lists <= 4 elements + 2)
// @assume pre-state satisfies the representation invariant R1-R3, the KEEP_LAST invariant (<= depth ALIVE samples per instance) and the resource-limit invariant (all re-asserted after the step)
// @assume DataReaderQos::is_consistent() holds; ownership SHARED; time-based filter off (minimum_separation 0)
// @assume negation of the KF-C18-1 trigger: not (the instance holds depth ALIVE samples and (samples of the instance == max_samples_per_instance or ALIVE samples == max_samples))
// @assume <InstanceHandle as PartialEq>::eq replaced by the loop-free handle_eq_stub (equivalence: c18_handle_eq_stub_is_equivalent)
// @enc dcps::dcps_domain_participant::data_reader_entity::DataReaderEntity::add_reader_change
// @enc dcps::dcps_domain_participant::data_reader_entity::InstanceState::update_state
#[kani::proof]
#[kani::unwind(6)]
#[kani::solver(minisat)]
#[kani::stub(<crate::infrastructure::instance::InstanceHandle as HandlePartialEq<crate::infrastructure::instance::InstanceHandle>>::eq, super::support_reader::handle_eq_stub)]
fn c18_keep_last_n3__rest() {
    let o = c18_check(&plain(3), Hist::KeepLast, BY_RECEPTION);
    keep_last_covers_n2(&o);
}

// @check props=C18 tier=thorough
// @desc KEEP_ALL, BY_RECEPTION_TIMESTAMP, cache with exactly 1 stored sample(s): one real add_reader_change never removes a stored sample; the new sample is stored last and all others are kept unchanged in order; Rejected only for a reached resource limit (then nothing changes); NotAdded never; resource-limit and representation invariants hold again.
// @bounds exactly 1 stored sample(s), KEEP_ALL, BY_RECEPTION_TIMESTAMP, 2 instance handles (both registered), 2 writers, each resource limit in {1,2,3,unlimited} (QoS consistent), all 5 change kinds for stored and incoming samples, source timestamps None or sec 0..4 x nanosec {0, 5*10^8}, symbolic sample/view/instance states and generation counts 0..2, instance_ownership empty; unwind 6 (lists <= 4 elements + 2)
// @assume pre-state satisfies the representation invariant R1-R3, the KEEP_LAST invariant (<= depth ALIVE samples per instance) and the resource-limit invariant (all re-asserted after the step)
// @assume DataReaderQos::is_consistent() holds; ownership SHARED; time-based filter off (minimum_separation 0)
// @assume <InstanceHandle as PartialEq>::eq replaced by the loop-free handle_eq_stub (equivalence: c18_handle_eq_stub_is_equivalent)
// @enc dcps::dcps_domain_participant::data_reader_entity::DataReaderEntity::add_reader_change
// @enc dcps::dcps_domain_participant::data_reader_entity::InstanceState::update_state
#[kani::proof]
#[kani::unwind(6)]
#[kani::solver(minisat)]
#[kani::stub(<crate::infrastructure::instance::InstanceHandle as HandlePartialEq<crate::infrastructure::instance::InstanceHandle>>::eq, super::support_reader::handle_eq_stub)]
fn c18_keep_all_n1() {
    let o = c18_check(&plain(1), Hist::KeepAll, BY_RECEPTION);
    keep_all_covers(&o);
}

// @check props=C18 tier=thorough
// @desc KEEP_ALL, BY_RECEPTION_TIMESTAMP, cache with exactly 3 stored sample(s): one real add_reader_change never removes a stored sample; the new sample is stored last and all others are kept unchanged in order; Rejected only for a reached resource limit (then nothing changes); NotAdded never; resource-limit and representation invariants hold again.
// @bounds exactly 3 stored sample(s), KEEP_ALL, BY_RECEPTION_TIMESTAMP, 2 instance handles (both registered), 2 writers, each resource limit in {1,2,3,unlimited} (QoS consistent), all 5 change kinds for stored and incoming samples, source timestamps None or sec 0..4 x nanosec {0, 5*10^8}, symbolic sample/view/instance states and generation counts 0..2, instance_ownership empty; unwind 6 (lists <= 4 elements + 2)
// @assume pre-state satisfies the representation invariant R1-R3, the KEEP_LAST invariant (<= depth ALIVE samples per instance) and the resource-limit invariant (all re-asserted after the step)
// @assume DataReaderQos::is_consistent() holds; ownership SHARED; time-based filter off (minimum_separation 0)
// @assume <InstanceHandle as PartialEq>::eq replaced by the loop-free handle_eq_stub (equivalence: c18_handle_eq_stub_is_equivalent)
// @enc dcps::dcps_domain_participant::data_reader_entity::DataReaderEntity::add_reader_change
// @enc dcps::dcps_domain_participant::data_reader_entity::InstanceState::update_state
#[kani::proof]
#[kani::unwind(6)]
#[kani::solver(minisat)]
#[kani::stub(<crate::infrastructure::instance::InstanceHandle as HandlePartialEq<crate::infrastructure::instance::InstanceHandle>>::eq, super::support_reader::handle_eq_stub)]
fn c18_keep_all_n3() {
    let o = c18_check(&plain(3), Hist::KeepAll, BY_RECEPTION);
    keep_all_covers(&o);
}

// @check props=C18 tier=thorough
// @desc KEEP_LAST(depth), BY_SOURCE_TIMESTAMP, cache with exactly 2 stored sample(s): one real add_reader_change; the new sample is stored (its position is the subject of C21); a sample is removed only when the instance already holds depth ALIVE samples and then it is the oldest (first stored) ALIVE sample of that instance; all other samples are kept unchanged in their order; Rejected only for a reached resource limit and then nothing changes; NotAdded never; history, resource-limit and representation invariants hold again. Outside the trigger of KF-C18-1.
// @bounds exactly 2 stored sample(s), KEEP_LAST(depth) with depth 1..=3, BY_SOURCE_TIMESTAMP, 2 instance handles (both registered), 2 writers, each resource limit in {1,2,3,unlimited} (QoS consistent), all 5 change kinds for stored and incoming samples, source timestamps None or sec 0..4 x nanosec {0, 5*10^8}, symbolic sample/view/instance states and generation counts 0..2, instance_ownership empty; unwind 6 (lists <= 4 elements + 2)
// @assume pre-state satisfies the representation invariant R1-R3, the KEEP_LAST invariant (<= depth ALIVE samples per instance) and the resource-limit invariant (all re-asserted after the step)
// @assume DataReaderQos::is_consistent() holds; ownership SHARED; time-based filter off (minimum_separation 0)
// @assume negation of the KF-C18-1 trigger: not (the instance holds depth ALIVE samples and (samples of the instance == max_samples_per_instance or ALIVE samples == max_samples))
// @assume <InstanceHandle as PartialEq>::eq replaced by the loop-free handle_eq_stub (equivalence: c18_handle_eq_stub_is_equivalent)
// @enc dcps::dcps_domain_participant::data_reader_entity::DataReaderEntity::add_reader_change
// @enc dcps::dcps_domain_participant::data_reader_entity::InstanceState::update_state
#[kani::proof]
#[kani::unwind(6)]
#[kani::solver(minisat)]
#[kani::stub(<crate::infrastructure::instance::InstanceHandle as HandlePartialEq<crate::infrastructure::instance::InstanceHandle>>::eq, super::support_reader::handle_eq_stub)]
fn c18_keep_last_source_order_n2__rest() {
    let o = c18_check(&plain(2), Hist::KeepLast, BY_SOURCE);
    keep_last_covers_n2(&o);
}

// @check props=C18 tier=thorough
// @desc The KEEP_LAST contract when both instances have an instance_ownership entry (the entry of the instance is refreshed, or removed by a dispose/unregister): the table must not influence the sample cache under SHARED ownership.
// @bounds exactly 2 stored samples, instance_ownership holds both instances, KEEP_LAST(1..=3), BY_RECEPTION_TIMESTAMP, otherwise as c18_keep_last_n2__rest; unwind 6
// @assume pre-state satisfies the representation invariant R1-R3, the KEEP_LAST invariant (<= depth ALIVE samples per instance) and the resource-limit invariant (all re-asserted after the step)
// @assume DataReaderQos::is_consistent() holds; ownership SHARED; time-based filter off (minimum_separation 0)
// @assume negation of the KF-C18-1 trigger: not (the instance holds depth ALIVE samples and (samples of the instance == max_samples_per_instance or ALIVE samples == max_samples))
// @assume <InstanceHandle as PartialEq>::eq replaced by the loop-free handle_eq_stub (equivalence: c18_handle_eq_stub_is_equivalent)
// @enc dcps::dcps_domain_participant::data_reader_entity::DataReaderEntity::add_reader_change
#[kani::proof]
#[kani::unwind(6)]
#[kani::solver(minisat)]
#[kani::stub(<crate::infrastructure::instance::InstanceHandle as HandlePartialEq<crate::infrastructure::instance::InstanceHandle>>::eq, super::support_reader::handle_eq_stub)]
fn c18_keep_last_owned_n2__rest() {
    let st = Structure { n: 2, known: [true, true], owned: [true, true] };
    let o = c18_check(&st, Hist::KeepLast, BY_RECEPTION);
    keep_last_covers_n2(&o);
}

// @check props=C18 tier=thorough
// @desc A change for an instance the reader has never seen (handle 0 not registered; the stored sample belongs to handle 1): an ALIVE change registers the instance and is stored under the same rules, a dispose/unregister is an error and leaves the cache untouched.
// @bounds exactly 1 stored sample (of the registered instance), instance handle 0 unregistered, KEEP_LAST(1..=3), BY_RECEPTION_TIMESTAMP, otherwise as c18_keep_last_n1__rest; unwind 6
// @assume pre-state satisfies the representation invariant R1-R3, the KEEP_LAST invariant (<= depth ALIVE samples per instance) and the resource-limit invariant (all re-asserted after the step)
// @assume DataReaderQos::is_consistent() holds; ownership SHARED; time-based filter off (minimum_separation 0)
// @assume negation of the KF-C18-1 trigger: not (the instance holds depth ALIVE samples and (samples of the instance == max_samples_per_instance or ALIVE samples == max_samples))
// @assume <InstanceHandle as PartialEq>::eq replaced by the loop-free handle_eq_stub (equivalence: c18_handle_eq_stub_is_equivalent)
// @enc dcps::dcps_domain_participant::data_reader_entity::DataReaderEntity::add_reader_change
#[kani::proof]
#[kani::unwind(6)]
#[kani::solver(minisat)]
#[kani::stub(<crate::infrastructure::instance::InstanceHandle as HandlePartialEq<crate::infrastructure::instance::InstanceHandle>>::eq, super::support_reader::handle_eq_stub)]
fn c18_keep_last_new_instance__rest() {
    // rep_ok forces the stored sample into the registered instance 1
    let st = Structure { n: 1, known: [false, true], owned: [false, false] };
    let o = c18_check(&st, Hist::KeepLast, BY_RECEPTION);
    kani::cover!(o.res == StepResult::Error, "dispose/unregister of an unknown instance is an error");
    kani::cover!(o.res == StepResult::Added && !o.replacement_case, "an ALIVE change of a new instance is stored");
}
