// C18 — KEEP_LAST / KEEP_ALL history of the DataReader sample cache.
// Pattern S: ONE real `DataReaderEntity::<()>::add_reader_change` from a directly constructed
// symbolic pre-state (see support_reader.rs for the bounded family and the representation invariant).
use super::support_reader::*;
use crate::infrastructure::qos_policy::{DestinationOrderQosPolicyKind, HistoryQosPolicyKind, Length};
use crate::infrastructure::status::SampleRejectedStatusKind;
use crate::transport::types::ChangeKind;

/// History invariant the implementation maintains: per instance at most `depth` stored ALIVE samples.
fn keep_last_inv_pre(pre: &PreState, depth: usize) -> bool {
    pre.inst_alive(0) <= depth && pre.inst_alive(1) <= depth
}

/// Resource-limit invariant (C19) — needed here because the implementation tests the limits with `==`.
fn limits_inv_pre(pre: &PreState, ms: Length, mi: Length, mspi: Length) -> bool {
    within_limit(pre.alive_total(), ms)
        && within_limit(pre.instances_with_samples(), mi)
        && within_limit(pre.inst_total(0), mspi)
        && within_limit(pre.inst_total(1), mspi)
}

/// Trigger of KF-C18-1: the instance of the incoming change already holds `depth` ALIVE samples (so
/// KEEP_LAST must replace the oldest one and the number of stored samples does not grow) while a
/// resource limit that the replacement would not exceed is "reached".
fn kf_c18_1_trigger(pre: &PreState, c: &Incoming, depth: usize, ms: Length, mspi: Length) -> bool {
    pre.inst_alive(c.inst) == depth
        && (limit_reached(pre.inst_total(c.inst), mspi) || limit_reached(pre.alive_total(), ms))
}

struct Cfg {
    depth: usize,
    ms: Length,
    mi: Length,
    mspi: Length,
    order: DestinationOrderQosPolicyKind,
}

fn keep_last_setup(order: DestinationOrderQosPolicyKind) -> (Cfg, PreState, Incoming) {
    let depth: u32 = kani::any();
    kani::assume(depth >= 1 && depth <= 3);
    let cfg = Cfg {
        depth: depth as usize,
        ms: any_limit(),
        mi: any_limit(),
        mspi: any_limit(),
        order,
    };
    let pre = any_pre_state();
    kani::assume(keep_last_inv_pre(&pre, cfg.depth));
    kani::assume(limits_inv_pre(&pre, cfg.ms, cfg.mi, cfg.mspi));
    let c = any_incoming();
    (cfg, pre, c)
}

fn keep_last_check(cfg: &Cfg, pre: &PreState, c: &Incoming, known_trigger: bool) {
    let qos = reader_qos(
        HistoryQosPolicyKind::KeepLast(cfg.depth as u32),
        cfg.ms,
        cfg.mi,
        cfg.mspi,
        cfg.order,
        zero_separation(),
    );
    let mut r = build_reader(qos, pre);
    let res = step(&mut r, c);
    let post = observe(&r);

    let replacement_case = pre.inst_alive(c.inst) == cfg.depth;

    // (c) never rejected because of depth
    if replacement_case {
        assert!(
            !matches!(res, StepResult::Rejected(_, _)),
            "C18: KEEP_LAST must replace the oldest sample instead of rejecting the new one"
        );
    }
    if known_trigger {
        kani::cover!(matches!(res, StepResult::Rejected(_, _)), "rejected in the replacement case");
        core::mem::forget(r);
        return;
    }
    match res {
        StepResult::Added => {
            // (b) the new sample is stored ...
            let p = post.position_of(NEW_TAG);
            assert!(p < MAX_POST, "C18: the new sample is stored");
            if p < MAX_POST {
                assert!(
                    post.s[p].kind == c.kind && post.s[p].inst == c.inst && post.s[p].ts == c.ts,
                    "C18: the stored sample is the received one"
                );
            }
            if replacement_case {
                // ... the removed one is the OLDEST (first in storage order) ALIVE sample of that instance
                let oldest = pre.first(|s| s.inst == c.inst && s.kind == ChangeKind::Alive);
                assert!(oldest < MAX_STORED, "C18: replacement case has an ALIVE sample");
                assert!(post.n == pre.n, "C18: replacement keeps the number of stored samples");
                assert!(!post.contains(pre.s[oldest].tag), "C18: the oldest ALIVE sample of the instance is the one removed");
                assert!(post.keeps_all_but(pre, oldest), "C18: every other stored sample is kept unchanged, in order");
            } else {
                assert!(post.n == pre.n + 1, "C18: below depth nothing is removed");
                assert!(post.keeps_all_but(pre, MAX_STORED), "C18: below depth every stored sample is kept unchanged, in order");
            }
            if cfg.order == DestinationOrderQosPolicyKind::ByReceptionTimestamp {
                assert!(p + 1 == post.n, "C18: BY_RECEPTION_TIMESTAMP stores the newest sample last");
            }
        }
        StepResult::Rejected(h, reason) => {
            // (d) a rejection is always justified by a reached resource limit, never by depth
            assert!(h == c.inst, "C18: rejection names the instance of the change");
            let justified = match reason {
                SampleRejectedStatusKind::RejectedBySamplesLimit => limit_reached(pre.total(), cfg.ms),
                SampleRejectedStatusKind::RejectedByInstancesLimit => {
                    pre.inst_total(c.inst) == 0 && limit_reached(pre.instances_with_samples(), cfg.mi)
                }
                SampleRejectedStatusKind::RejectedBySamplesPerInstanceLimit => {
                    limit_reached(pre.inst_total(c.inst), cfg.mspi)
                }
                SampleRejectedStatusKind::NotRejected => false,
            };
            assert!(justified, "C18: Rejected only when the named resource limit is reached");
            assert!(post.unchanged(pre), "C18: a rejected change leaves the stored samples untouched");
        }
        StepResult::NotAdded => {
            assert!(false, "C18: without time-based filter and exclusive ownership nothing is silently dropped");
        }
        StepResult::Error => {
            assert!(is_not_alive_kind(c.kind) && !pre.inst[c.inst].known, "C18: Err only for a dispose/unregister of an unknown instance");
            assert!(post.unchanged(pre), "C18: an erroneous change leaves the stored samples untouched");
        }
    }
    // (e) invariant re-established
    assert!(
        post.inst_alive(0) <= cfg.depth && post.inst_alive(1) <= cfg.depth,
        "C18: per instance at most depth ALIVE samples after the step"
    );
    assert!(rep_ok_real(&r), "reader cache representation invariant after the step");

    kani::cover!(res == StepResult::Added && replacement_case && pre.n == 3, "a sample was replaced in a full cache");
    kani::cover!(res == StepResult::Added && !replacement_case && pre.n >= 1, "a sample was appended below depth");
    kani::cover!(matches!(res, StepResult::Rejected(_, _)), "a rejection for a resource limit is reachable");
    core::mem::forget(r);
}

// @check props=C18 tier=quick
// @desc KEEP_LAST(depth), BY_RECEPTION_TIMESTAMP: one real add_reader_change from any cache state with <= depth ALIVE samples per instance: the new sample is stored (last), the sample removed (only when the instance already holds depth ALIVE samples) is the oldest ALIVE sample of that instance, all others are kept in order, a rejection only happens for a reached resource limit, and the invariant (<= depth ALIVE per instance, representation invariant) holds again. Outside the recorded trigger of KF-C18-1.
// @bounds <= 3 stored samples, 2 instance handles, 2 writers, depth 1..=3, each resource limit in {1,2,3,unlimited} (QoS consistent), all 5 change kinds, source timestamps None or sec 0..4 x nanosec {0, 5*10^8}; unwind 18 (16-byte handle compare + <=4-element lists)
// @assume pre-state satisfies the representation invariant R1-R3, the KEEP_LAST invariant and the resource-limit invariant (all re-asserted after the step)
// @assume DataReaderQos::is_consistent() holds; ownership SHARED; time-based filter off (minimum_separation 0)
// @assume negation of the KF-C18-1 trigger: not (instance holds depth ALIVE samples and (samples of the instance == max_samples_per_instance or ALIVE samples == max_samples))
// @enc dcps::dcps_domain_participant::data_reader_entity::DataReaderEntity::add_reader_change
// @enc dcps::dcps_domain_participant::data_reader_entity::InstanceState::update_state
#[kani::proof]
#[kani::unwind(18)]
fn c18_keep_last_reception_order() {
    let (cfg, pre, c) = keep_last_setup(DestinationOrderQosPolicyKind::ByReceptionTimestamp);
    kani::assume(!kf_c18_1_trigger(&pre, &c, cfg.depth, cfg.ms, cfg.mspi));
    keep_last_check(&cfg, &pre, &c, false);
}
