// C34 — worker channels (oneshot / mpsc / notification) never lose values or wake-ups.
//
// Every operation of the three channels is one `critical_section::with` block (read:
// dds/src/dcps/channels/{oneshot,mpsc,notification}.rs), so a thread interleaving of channel users
// is exactly a sequence of these atomic operations. The harnesses make that SCHEDULE symbolic:
// K steps, each step's operation and operands chosen by `kani::any()`, against the REAL channel
// objects; a few integers of shadow state (FIFO of sent-but-not-received values, live-sender
// count, "receiver is parked on waker A/B") are the oracle.
//
// Steps whose operand does not exist (send on a dropped sender slot, poll of a dropped receiver …)
// are no-ops, so a K-step schedule also covers every shorter schedule.
//
// Two counting wakers (A, B) are used; each poll picks one symbolically. `parked` remembers which
// waker the most recent `Pending` poll passed. The Future contract obliges the channel to wake the
// waker of the MOST RECENT poll; "poll never returns Pending without registering the waker" is
// therefore checked as: every later send / notify / last-sender-drop increases the wake counter of
// exactly that waker.
use alloc::sync::Arc;
use core::future::Future;
use core::pin::Pin;
use core::task::{Context, Poll, Waker};

use super::support_cs::{counting_waker, wakes, CountWake};
use crate::dcps::channels::mpsc::{mpsc_channel, MpscReceiver, MpscSender};
use crate::dcps::channels::notification::{notification, NotificationReceiver, NotificationSender};
use crate::dcps::channels::oneshot::{oneshot, OneshotReceiver};

/// The two counting wakers and the "receiver is parked on waker …" flag of the shadow model.
struct Wk {
    ca: Arc<CountWake>,
    wa: Waker,
    cb: Arc<CountWake>,
    wb: Waker,
    /// 0 = receiver not parked, 1 = parked with waker A registered, 2 = parked with waker B
    parked: u8,
    a0: usize,
    b0: usize,
}

impl Wk {
    fn new() -> Self {
        let (ca, wa) = counting_waker();
        let (cb, wb) = counting_waker();
        Wk { ca, wa, cb, wb, parked: 0, a0: 0, b0: 0 }
    }
    /// Symbolic choice of the waker for the next poll (1 = A, 2 = B).
    fn pick(&self) -> u8 {
        if kani::any() {
            1
        } else {
            2
        }
    }
    fn waker(&self, which: u8) -> &Waker {
        if which == 1 {
            &self.wa
        } else {
            &self.wb
        }
    }
    /// Snapshot of the wake counters before an operation.
    fn snap(&mut self) {
        self.a0 = wakes(&self.ca);
        self.b0 = wakes(&self.cb);
    }
    /// true iff the receiver is not parked, or the waker it is parked on was woken since `snap`.
    fn woken_if_parked(&self) -> bool {
        match self.parked {
            1 => wakes(&self.ca) > self.a0,
            2 => wakes(&self.cb) > self.b0,
            _ => true,
        }
    }
}

fn poll_unpin<F: Future + Unpin>(f: &mut F, w: &Waker) -> Poll<F::Output> {
    let mut cx = Context::from_waker(w);
    Pin::new(f).poll(&mut cx)
}

/// One poll of the mpsc receiver. `MpscReceiver::receive` is an `async fn` whose only state is a
/// clone of the shared `Arc` (MpscReceiverFuture { inner }), so polling a fresh `receive()` future
/// once is the same atomic operation as re-polling a kept one.
fn poll_mpsc(rx: &MpscReceiver<u8>, w: &Waker) -> Poll<Option<u8>> {
    let mut cx = Context::from_waker(w);
    let fut = core::pin::pin!(rx.receive());
    fut.poll(&mut cx)
}

// =====================================================================================
// oneshot
// =====================================================================================

/// Symbolic schedule over {send(v), drop sender, poll(waker A|B), drop receiver}.
/// `OneshotSender::send(self, v)` is two back-to-back critical sections (store + wake, then the
/// `Drop` of `self`); they are executed without an interleaved receiver step (stated in @assume).
fn oneshot_schedule<const K: usize>() {
    let (tx, rx) = oneshot::<u8>();
    let mut tx = Some(tx);
    let mut rx: Option<OneshotReceiver<u8>> = Some(rx);
    let mut wk = Wk::new();
    // shadow model
    let mut pending: Option<u8> = None; // sent and not yet received
    let mut sender_live = true; // sender neither consumed by send nor dropped
    let mut done = false; // the receiver future has completed
    let mut got_value = false;
    let mut got_disc = false;
    let mut woken_path = false;
    let mut rereg = false;

    for _ in 0..K {
        let op: u8 = kani::any();
        kani::assume(op < 4);
        wk.snap();
        match op {
            0 => {
                if let Some(s) = tx.take() {
                    let v: u8 = kani::any();
                    s.send(v);
                    pending = Some(v);
                    sender_live = false;
                    assert!(wk.woken_if_parked(), "C34: oneshot send wakes the parked receiver");
                    woken_path |= wk.parked != 0;
                    wk.parked = 0;
                }
            }
            1 => {
                if let Some(s) = tx.take() {
                    drop(s);
                    sender_live = false;
                    assert!(wk.woken_if_parked(), "C34: oneshot sender drop wakes the parked receiver");
                    woken_path |= wk.parked != 0;
                    wk.parked = 0;
                }
            }
            2 => {
                if !done {
                    if let Some(r) = rx.as_mut() {
                        let which = wk.pick();
                        match poll_unpin(r, wk.waker(which)) {
                            Poll::Ready(Ok(x)) => {
                                assert!(pending == Some(x), "C34: oneshot delivers exactly the sent value, once");
                                pending = None;
                                done = true;
                                got_value = true;
                            }
                            Poll::Ready(Err(e)) => {
                                assert!(
                                    pending.is_none() && !sender_live,
                                    "C34: oneshot reports disconnection only if the sender was dropped without sending"
                                );
                                done = true;
                                got_disc = true;
                                core::mem::forget(e);
                            }
                            Poll::Pending => {
                                assert!(
                                    pending.is_none() && sender_live,
                                    "C34: oneshot Pending only while the sender is alive and nothing was sent"
                                );
                                rereg |= wk.parked != 0 && wk.parked != which;
                                wk.parked = which;
                            }
                        }
                    }
                }
            }
            _ => {
                // receiver goes away (caller gave up): later send/drop of the sender must not panic
                if let Some(r) = rx.take() {
                    drop(r);
                    wk.parked = 0;
                    done = true;
                }
            }
        }
    }
    kani::cover!(got_value && woken_path, "oneshot: parked receiver woken by send, value received");
    kani::cover!(got_disc && woken_path, "oneshot: parked receiver woken by sender drop, disconnection reported");
    kani::cover!(rereg && woken_path, "oneshot: waker re-registered (A then B) and the latest one woken");
    kani::cover!(rx.is_none() && !sender_live, "oneshot: sender used after receiver dropped");
    core::mem::forget((tx, rx, wk));
}

// @check props=C34 tier=quick
// @desc oneshot: for every schedule of 5 atomic operations from {send(v), drop sender, poll with waker A|B, drop receiver}: the value is delivered exactly once and unchanged; send / sender-drop while the receiver is parked wakes the most recently registered waker; poll is Ready(Err) iff the sender was dropped without sending and Pending iff the sender is alive and nothing was sent
// @bounds k = 5 operations (shorter schedules included as no-op steps), 1 sender, 1 receiver, 2 wakers, value any u8; unwind 6 = k + 1 (only loop: the schedule)
// @assume critical_section::acquire/release stubbed by no-ops (support_cs.rs): a critical section is a block no other operation interleaves with; true parallelism inside it is outside the claim
// @assume the two critical sections of OneshotSender::send(self) (store+wake, then Drop of self) run back to back (send consumes the sender, a receiver step between them sees data = Some and returns Ready(Ok))
// @enc dcps::channels::oneshot::oneshot
// @enc dcps::channels::oneshot::OneshotSender::send
// @enc <dcps::channels::oneshot::OneshotSender as Drop>::drop
// @enc <dcps::channels::oneshot::OneshotReceiver as Future>::poll
#[kani::proof]
#[kani::unwind(6)]
#[kani::stub(critical_section::acquire, super::support_cs::cs_acquire)]
#[kani::stub(critical_section::release, super::support_cs::cs_release)]
fn c34_oneshot_schedule_k5() {
    oneshot_schedule::<5>();
}

// =====================================================================================
// mpsc
// =====================================================================================

const NS: usize = 3; // sender slots

struct MpscWorld<const K: usize> {
    tx: [Option<MpscSender<u8>>; NS],
    rx: Option<MpscReceiver<u8>>,
    wk: Wk,
    // shadow model
    fifo: [u8; K],
    head: usize,
    tail: usize,
    live: usize,
    // witnesses
    woken_path: bool,
    got_two_in_order: u8,
    cloned_send: bool,
}

impl<const K: usize> MpscWorld<K> {
    fn new() -> Self {
        let (tx0, rx) = mpsc_channel::<u8>();
        MpscWorld {
            tx: [Some(tx0), None, None],
            rx: Some(rx),
            wk: Wk::new(),
            fifo: [0; K],
            head: 0,
            tail: 0,
            live: 1,
            woken_path: false,
            got_two_in_order: 0,
            cloned_send: false,
        }
    }

    /// One symbolic step. `allow_zero`: may this step drop the last live sender?
    /// `check_disc`: are the disconnection obligations (trigger of KF-C34-1) asserted?
    fn step(&mut self, allow_zero: bool, check_disc: bool) {
        let op: u8 = kani::any();
        kani::assume(op < 5);
        let i: usize = kani::any();
        kani::assume(i < NS);
        self.wk.snap();
        match op {
            0 => {
                if let Some(s) = &self.tx[i] {
                    let v: u8 = kani::any();
                    let r = s.send(v);
                    assert!(r.is_ok(), "C34: mpsc send on an open channel succeeds");
                    self.fifo[self.tail] = v;
                    self.tail += 1;
                    if self.rx.is_some() {
                        assert!(self.wk.woken_if_parked(), "C34: mpsc send wakes the parked receiver");
                        self.woken_path |= self.wk.parked != 0;
                    }
                    self.wk.parked = 0;
                    self.cloned_send |= i != 0;
                }
            }
            1 => {
                let j: usize = kani::any();
                kani::assume(j < NS);
                if self.tx[j].is_none() {
                    if let Some(s) = &self.tx[i] {
                        let c = s.clone();
                        self.tx[j] = Some(c);
                        self.live += 1;
                    }
                }
            }
            2 => {
                if self.tx[i].is_some() && (allow_zero || self.live > 1) {
                    let s = self.tx[i].take();
                    drop(s);
                    self.live -= 1;
                    if self.live == 0 && check_disc && self.rx.is_some() {
                        assert!(
                            self.wk.woken_if_parked(),
                            "C34: mpsc drop of the last sender wakes the parked receiver"
                        );
                    }
                }
            }
            3 => self.poll(check_disc),
            _ => {
                if let Some(r) = self.rx.take() {
                    drop(r);
                    self.wk.parked = 0;
                }
            }
        }
    }

    fn poll(&mut self, check_disc: bool) {
        if let Some(r) = &self.rx {
            let which = self.wk.pick();
            match poll_mpsc(r, self.wk.waker(which)) {
                Poll::Ready(Some(x)) => {
                    assert!(self.head < self.tail, "C34: mpsc never delivers a value that was not sent (or twice)");
                    assert!(x == self.fifo[self.head], "C34: mpsc delivers in FIFO order");
                    self.head += 1;
                    if self.got_two_in_order < 2 {
                        self.got_two_in_order += 1;
                    }
                }
                Poll::Ready(None) => {
                    assert!(
                        self.head == self.tail && self.live == 0,
                        "C34: mpsc reports disconnection only if no value is pending and every sender is dropped"
                    );
                }
                Poll::Pending => {
                    assert!(self.head == self.tail, "C34: mpsc never returns Pending while a value is queued");
                    if check_disc {
                        assert!(
                            self.live > 0,
                            "C34: mpsc poll reports disconnection when the queue is empty and every sender is dropped"
                        );
                    }
                    self.wk.parked = which;
                }
            }
        }
    }
}

/// Negated trigger of KF-C34-1: every schedule is explored, including dropping the last sender and
/// continuing (queued values must still come out in order), but the two obligations that concern
/// the state "no live sender and empty queue" are left to the `__known` harness.
fn mpsc_schedule_rest<const K: usize>() {
    let mut w = MpscWorld::<K>::new();
    for _ in 0..K {
        w.step(true, false);
    }
    kani::cover!(w.woken_path && w.got_two_in_order == 2, "mpsc: parked receiver woken, two values received in order");
    kani::cover!(w.cloned_send && w.head > 0, "mpsc: value sent through a cloned sender was received");
    kani::cover!(w.live == 0 && w.head > 0 && w.head == w.tail, "mpsc: queue drained after every sender was dropped");
    core::mem::forget(w);
}

/// Trigger of KF-C34-1: a symbolic prefix that keeps at least one sender alive, then every live
/// sender is dropped (the last of these drops is the trigger), then one poll.
fn mpsc_schedule_last_drop<const P: usize>() {
    let mut w = MpscWorld::<P>::new();
    for _ in 0..P {
        w.step(false, false);
    }
    assert!(w.live >= 1);
    let was_parked = w.wk.parked != 0 && w.rx.is_some();
    for i in 0..NS {
        w.wk.snap();
        if let Some(s) = w.tx[i].take() {
            drop(s);
            w.live -= 1;
            if w.live == 0 && w.rx.is_some() {
                assert!(w.wk.woken_if_parked(), "C34: mpsc drop of the last sender wakes the parked receiver");
            }
        }
    }
    let empty = w.head == w.tail;
    w.poll(true);
    kani::cover!(was_parked, "mpsc: receiver was parked when the last sender was dropped");
    kani::cover!(empty && w.rx.is_some(), "mpsc: polled with empty queue after the last sender was dropped");
    core::mem::forget(w);
}

// @check props=C34 tier=quick
// @desc mpsc (negated trigger of KF-C34-1): for every schedule of 5 atomic operations from {send(i,v), clone sender i->j, drop sender i, poll with waker A|B, drop receiver} on up to 3 senders: every poll returns exactly the head of the FIFO of sent-but-not-received values (each value once, in send order, also after all senders are gone), never Pending while a value is queued, Ready(None) only if queue empty and no sender left; a send while the receiver is parked wakes the most recently registered waker. Not asserted here (KF-C34-1): wake-up on last-sender drop and Ready(None) when queue empty and no sender left
// @bounds k = 5 operations (shorter included), <= 3 live senders, 1 receiver, 2 wakers, values any u8; unwind 6 = k + 1 (schedule loop; VecDeque capacity 64 is never exceeded so it has no loop)
// @assume critical_section::acquire/release stubbed by no-ops (support_cs.rs): a critical section is a block no other operation interleaves with
// @assume each poll step polls a fresh MpscReceiver::receive() future once (the future's only state is a clone of the shared Arc)
// @enc dcps::channels::mpsc::mpsc_channel
// @enc dcps::channels::mpsc::MpscSender::send
// @enc <dcps::channels::mpsc::MpscSender as Clone>::clone
// @enc dcps::channels::mpsc::MpscReceiver::receive
// @enc <dcps::channels::mpsc::MpscReceiverFuture as Future>::poll
#[kani::proof]
#[kani::unwind(6)]
#[kani::stub(critical_section::acquire, super::support_cs::cs_acquire)]
#[kani::stub(critical_section::release, super::support_cs::cs_release)]
fn c34_mpsc_schedule_k5__rest() {
    mpsc_schedule_rest::<5>();
}

// @check props=C34 tier=quick known=KF-C34-1
// @desc mpsc (trigger of KF-C34-1): after any 3-operation prefix that keeps a sender alive, all senders are dropped and the receiver polls once: the drop of the last sender must wake a parked receiver and the poll must be Ready(None) when the queue is empty (Ready(Some(head)) otherwise). Expected to FAIL: MpscInner::is_closed is never set, MpscSender has no Drop impl
// @bounds prefix of 3 symbolic operations, then <= 3 sender drops, then 1 poll; <= 3 senders; unwind 6
// @assume critical_section::acquire/release stubbed by no-ops (support_cs.rs)
// @assume trigger: the live-sender count reaches 0 (last MpscSender dropped)
// @enc dcps::channels::mpsc::MpscSender::send
// @enc <dcps::channels::mpsc::MpscReceiverFuture as Future>::poll
#[kani::proof]
#[kani::unwind(6)]
#[kani::stub(critical_section::acquire, super::support_cs::cs_acquire)]
#[kani::stub(critical_section::release, super::support_cs::cs_release)]
fn c34_mpsc_last_sender_drop__known() {
    mpsc_schedule_last_drop::<3>();
}

// =====================================================================================
// notification
// =====================================================================================

/// Symbolic schedule over {notify(i), clone sender i->j, drop sender i, poll, drop receiver}.
/// A notification coalesces: `lo` = notifications guaranteed pending (0/1), `hi` = notifies not yet
/// consumed. lo >= 1 => poll must be Ready(Ok); hi == 0 => poll must not be Ready(Ok); in between
/// both a counting and a coalescing implementation are accepted.
fn notification_schedule<const K: usize>() {
    let (tx0, rx) = notification();
    let mut tx: [Option<NotificationSender>; NS] = [Some(tx0), None, None];
    let mut rx: Option<NotificationReceiver> = Some(rx);
    let mut wk = Wk::new();
    let mut lo: u8 = 0;
    let mut hi: u8 = 0;
    let mut live: usize = 1;
    let mut woken_by_notify = false;
    let mut woken_by_drop = false;
    let mut coalesced = false;
    let mut got_ok = false;
    let mut got_disc = false;

    for _ in 0..K {
        let op: u8 = kani::any();
        kani::assume(op < 5);
        let i: usize = kani::any();
        kani::assume(i < NS);
        wk.snap();
        match op {
            0 => {
                if let Some(s) = &tx[i] {
                    s.notify();
                    coalesced |= hi >= 1;
                    hi += 1;
                    lo = 1;
                    if rx.is_some() {
                        assert!(wk.woken_if_parked(), "C34: notify wakes the parked receiver");
                        woken_by_notify |= wk.parked != 0;
                    }
                    wk.parked = 0;
                }
            }
            1 => {
                let j: usize = kani::any();
                kani::assume(j < NS);
                if tx[j].is_none() {
                    if let Some(s) = &tx[i] {
                        let c = s.clone();
                        tx[j] = Some(c);
                        live += 1;
                    }
                }
            }
            2 => {
                if tx[i].is_some() {
                    let s = tx[i].take();
                    drop(s);
                    live -= 1;
                    if live == 0 {
                        if rx.is_some() {
                            assert!(
                                wk.woken_if_parked(),
                                "C34: notification drop of the last sender wakes the parked receiver"
                            );
                            woken_by_drop |= wk.parked != 0;
                        }
                        wk.parked = 0;
                    }
                }
            }
            3 => {
                if let Some(r) = rx.as_mut() {
                    let which = wk.pick();
                    match poll_unpin(r, wk.waker(which)) {
                        Poll::Ready(Ok(())) => {
                            assert!(hi >= 1, "C34: notification never delivered without a notify (or more often than notified)");
                            hi -= 1;
                            lo = 0;
                            got_ok = true;
                        }
                        Poll::Ready(Err(e)) => {
                            assert!(lo == 0, "C34: notification pending notify is not lost to disconnection");
                            assert!(live == 0, "C34: notification reports disconnection only if every sender is dropped");
                            hi = 0;
                            got_disc = true;
                            core::mem::forget(e);
                        }
                        Poll::Pending => {
                            assert!(lo == 0, "C34: notification never Pending while a notify is pending");
                            assert!(live > 0, "C34: notification poll reports disconnection when nothing is pending and every sender is dropped");
                            hi = 0;
                            wk.parked = which;
                        }
                    }
                }
            }
            _ => {
                if let Some(r) = rx.take() {
                    drop(r);
                    wk.parked = 0;
                }
            }
        }
    }
    kani::cover!(woken_by_notify && got_ok, "notification: parked receiver woken by notify, poll Ready(Ok)");
    kani::cover!(woken_by_drop && got_disc, "notification: parked receiver woken by last-sender drop, disconnection reported");
    kani::cover!(coalesced && got_ok, "notification: two notifies before a poll (coalescing path)");
    kani::cover!(rx.is_none() && hi > 0, "notification: notify after the receiver was dropped");
    core::mem::forget((tx, rx, wk));
}

// @check props=C34 tier=quick
// @desc notification: for every schedule of 5 atomic operations from {notify(i), clone sender i->j, drop sender i, poll with waker A|B, drop receiver} on up to 3 senders: a poll after >= 1 unconsumed notify is Ready(Ok) (coalescing accepted: n notifies give between 1 and n Ready(Ok)), never Ready(Ok) without a notify; notify / last-sender drop while the receiver is parked wakes the most recently registered waker; Ready(Err) iff nothing pending and every sender dropped (sender_count bookkeeping over clone/drop); otherwise Pending
// @bounds k = 5 operations (shorter included), <= 3 live senders, 1 receiver, 2 wakers; unwind 6 = k + 1
// @assume critical_section::acquire/release stubbed by no-ops (support_cs.rs): a critical section is a block no other operation interleaves with
// @assume NotificationSender::clone is two steps (count += 1 in a critical section, then Arc clone) executed back to back
// @enc dcps::channels::notification::notification
// @enc dcps::channels::notification::NotificationSender::notify
// @enc <dcps::channels::notification::NotificationSender as Clone>::clone
// @enc <dcps::channels::notification::NotificationSender as Drop>::drop
// @enc <dcps::channels::notification::NotificationReceiver as Future>::poll
#[kani::proof]
#[kani::unwind(6)]
#[kani::stub(critical_section::acquire, super::support_cs::cs_acquire)]
#[kani::stub(critical_section::release, super::support_cs::cs_release)]
fn c34_notification_schedule_k5() {
    notification_schedule::<5>();
}

// ------------------------------------------------------------------------------------
// thorough tier: longer schedules
// ------------------------------------------------------------------------------------

// @check props=C34 tier=thorough timeout=1500
// @desc oneshot: as c34_oneshot_schedule_k5 with 7 operations
// @bounds k = 7 operations, 1 sender, 1 receiver, 2 wakers; unwind 8
// @assume critical_section::acquire/release stubbed by no-ops (support_cs.rs)
// @assume the two critical sections of OneshotSender::send(self) run back to back
// @enc dcps::channels::oneshot::OneshotSender::send
// @enc <dcps::channels::oneshot::OneshotReceiver as Future>::poll
#[kani::proof]
#[kani::unwind(8)]
#[kani::stub(critical_section::acquire, super::support_cs::cs_acquire)]
#[kani::stub(critical_section::release, super::support_cs::cs_release)]
fn c34_oneshot_schedule_k7() {
    oneshot_schedule::<7>();
}

// @check props=C34 tier=thorough timeout=1500
// @desc mpsc (negated trigger of KF-C34-1): as c34_mpsc_schedule_k5__rest with 7 operations
// @bounds k = 7 operations, <= 3 live senders, 1 receiver, 2 wakers; unwind 8
// @assume critical_section::acquire/release stubbed by no-ops (support_cs.rs)
// @assume each poll step polls a fresh MpscReceiver::receive() future once
// @enc dcps::channels::mpsc::MpscSender::send
// @enc <dcps::channels::mpsc::MpscReceiverFuture as Future>::poll
#[kani::proof]
#[kani::unwind(8)]
#[kani::stub(critical_section::acquire, super::support_cs::cs_acquire)]
#[kani::stub(critical_section::release, super::support_cs::cs_release)]
fn c34_mpsc_schedule_k7__rest() {
    mpsc_schedule_rest::<7>();
}

// @check props=C34 tier=thorough timeout=1500 known=KF-C34-1
// @desc mpsc (trigger of KF-C34-1): as c34_mpsc_last_sender_drop__known with a 5-operation prefix
// @bounds prefix of 5 symbolic operations, then <= 3 sender drops, then 1 poll; unwind 6
// @assume critical_section::acquire/release stubbed by no-ops (support_cs.rs)
// @assume trigger: the live-sender count reaches 0 (last MpscSender dropped)
// @enc <dcps::channels::mpsc::MpscReceiverFuture as Future>::poll
#[kani::proof]
#[kani::unwind(6)]
#[kani::stub(critical_section::acquire, super::support_cs::cs_acquire)]
#[kani::stub(critical_section::release, super::support_cs::cs_release)]
fn c34_mpsc_last_sender_drop_p5__known() {
    mpsc_schedule_last_drop::<5>();
}

// @check props=C34 tier=thorough timeout=1500
// @desc notification: as c34_notification_schedule_k5 with 7 operations
// @bounds k = 7 operations, <= 3 live senders, 1 receiver, 2 wakers; unwind 8
// @assume critical_section::acquire/release stubbed by no-ops (support_cs.rs)
// @assume NotificationSender::clone is two steps executed back to back
// @enc dcps::channels::notification::NotificationSender::notify
// @enc <dcps::channels::notification::NotificationReceiver as Future>::poll
#[kani::proof]
#[kani::unwind(8)]
#[kani::stub(critical_section::acquire, super::support_cs::cs_acquire)]
#[kani::stub(critical_section::release, super::support_cs::cs_release)]
fn c34_notification_schedule_k7() {
    notification_schedule::<7>();
}

// ---- temporary measurement harnesses ----
// @check props=C34 tier=quick
// @desc tmp
// @bounds tmp
#[kani::proof]
#[kani::unwind(4)]
#[kani::stub(critical_section::acquire, super::support_cs::cs_acquire)]
#[kani::stub(critical_section::release, super::support_cs::cs_release)]
fn c34_tmp_oneshot_k3() {
    oneshot_schedule::<3>();
}
// @check props=C34 tier=quick
// @desc tmp
// @bounds tmp
#[kani::proof]
#[kani::unwind(5)]
#[kani::stub(critical_section::acquire, super::support_cs::cs_acquire)]
#[kani::stub(critical_section::release, super::support_cs::cs_release)]
fn c34_tmp_oneshot_k4() {
    oneshot_schedule::<4>();
}
