// C34 — worker channels (oneshot / mpsc / notification) never lose values or wake-ups.
//
// Every operation of the three channels is one `critical_section::with` block (read:
// dds/src/dcps/channels/{oneshot,mpsc,notification}.rs), so a thread interleaving of channel users
// is exactly a sequence of these atomic operations. The harnesses make that SCHEDULE symbolic:
// K steps, each step's operation and operands chosen by `kani::any()`, against the REAL channel
// objects; a few integers of shadow state (FIFO of sent-but-not-received values, live-sender
// count, "receiver is parked on waker A/B") are the oracle.
//
// Steps whose operand does not exist (send on a dropped sender slot, poll of a dropped receiver …)
// are no-ops, so a K-step schedule also covers every shorter schedule.
//
// Counting wakers: `parked` remembers which waker the most recent `Pending` poll passed. The Future
// contract obliges the channel to wake the waker of the MOST RECENT poll; "poll never returns
// Pending without registering the waker" is therefore checked as: every later send / notify /
// last-sender-drop increases the wake counter of exactly that waker. Harnesses with `TWO = true`
// choose between two wakers (A, B) at every poll (re-registration A -> B is then part of the
// schedule space); `TWO = false` always polls with waker A (half the pointer case splits, so one
// more schedule step fits into the same time/memory budget).
//
// Measured cost drivers (cbmc --program-only profile of the SSA steps per function) and what was
// done about them:
//  * drop glue behind every Arc: after the first merge of two schedule branches every reference
//    count is symbolic, so CBMC explored Arc::drop_slow (destruction of the shared state, layout
//    arithmetic, deallocation) at every drop of a sender / receiver / waker / receive-future — more
//    than 60 % of the formula (oneshot k=4: 280 s / 5 GB). `AtomicUsize::fetch_sub` is stubbed to
//    decrement but never report "last reference" (support_cs.rs): oneshot k=4: 90 s / 1.5 GB.
//    `CountWake::wake` forgets its Arc for the same reason.
//  * the second waker doubles the pointer case splits of every waker operation (k=4: notification
//    170 s vs 80 s, mpsc 215 s vs 100 s): quick harnesses of notification/mpsc use one waker.
//  * mpsc with a non-zero-sized element: the queue length is symbolic, CBMC explores
//    VecDeque::grow + handle_capacity_increase (symbolic-size allocation and copies) at every
//    send: > 12 GB for k=3 (also for a tree of 81 concrete paths). Schedules use element type ();
//    FIFO order of u8 values is checked on one operation sequence with growth asserted unreachable.
//  * cost grows ~1.5-2.5x per schedule step; every harness has 10-15 incremental SAT calls
//    (reachability checks + covers) on a formula of 1-2 M variables.
use alloc::sync::Arc;
use core::future::Future;
use core::pin::Pin;
use core::task::{Context, Poll, Waker};

use super::support_cs::{counting_waker, wakes, CountWake};
use crate::dcps::channels::mpsc::{mpsc_channel, MpscReceiver, MpscSender};
use crate::dcps::channels::notification::{notification, NotificationReceiver, NotificationSender};
use crate::dcps::channels::oneshot::{oneshot, OneshotReceiver};

/// The two counting wakers and the "receiver is parked on waker …" flag of the shadow model.
struct Wk {
    ca: Arc<CountWake>,
    wa: Waker,
    cb: Arc<CountWake>,
    wb: Waker,
    /// 0 = receiver not parked, 1 = parked with waker A registered, 2 = parked with waker B
    parked: u8,
    a0: usize,
    b0: usize,
}

impl Wk {
    fn new() -> Self {
        let (ca, wa) = counting_waker();
        let (cb, wb) = counting_waker();
        Wk { ca, wa, cb, wb, parked: 0, a0: 0, b0: 0 }
    }
    /// Choice of the waker for the next poll (1 = A, 2 = B): symbolic if `two`, else always A.
    fn pick(&self, two: bool) -> u8 {
        if two && kani::any() {
            2
        } else {
            1
        }
    }
    fn waker(&self, which: u8) -> &Waker {
        if which == 1 {
            &self.wa
        } else {
            &self.wb
        }
    }
    /// Snapshot of the wake counters before an operation.
    fn snap(&mut self) {
        self.a0 = wakes(&self.ca);
        self.b0 = wakes(&self.cb);
    }
    /// true iff the receiver is not parked, or the waker it is parked on was woken since `snap`.
    fn woken_if_parked(&self) -> bool {
        match self.parked {
            1 => wakes(&self.ca) > self.a0,
            2 => wakes(&self.cb) > self.b0,
            _ => true,
        }
    }
}

fn poll_unpin<F: Future + Unpin>(f: &mut F, w: &Waker) -> Poll<F::Output> {
    let mut cx = Context::from_waker(w);
    Pin::new(f).poll(&mut cx)
}

/// One poll of the mpsc receiver. `MpscReceiver::receive` is an `async fn` whose only state is a
/// clone of the shared `Arc` (MpscReceiverFuture { inner }), so polling a fresh `receive()` future
/// once is the same atomic operation as re-polling a kept one.
fn poll_mpsc<T>(rx: &MpscReceiver<T>, w: &Waker) -> Poll<Option<T>> {
    let mut cx = Context::from_waker(w);
    let fut = core::pin::pin!(rx.receive());
    fut.poll(&mut cx)
}

// =====================================================================================
// oneshot
// =====================================================================================

/// Symbolic schedule over {send(v), drop sender, poll(waker A|B), drop receiver}.
/// `OneshotSender::send(self, v)` is two back-to-back critical sections (store + wake, then the
/// `Drop` of `self`); they are executed without an interleaved receiver step (stated in @assume).
fn oneshot_schedule<const K: usize, const TWO: bool>() {
    let (tx, rx) = oneshot::<u8>();
    let mut tx = Some(tx);
    let mut rx: Option<OneshotReceiver<u8>> = Some(rx);
    let mut wk = Wk::new();
    // shadow model
    let mut pending: Option<u8> = None; // sent and not yet received
    let mut sender_live = true; // sender neither consumed by send nor dropped
    let mut done = false; // the receiver future has completed
    let mut got_value = false;
    let mut got_disc = false;
    let mut woken_by_send = false;
    let mut woken_by_drop = false;
    let mut rereg = false;

    for _ in 0..K {
        let op: u8 = kani::any();
        kani::assume(op < 4);
        wk.snap();
        match op {
            0 => {
                if let Some(s) = tx.take() {
                    let v: u8 = kani::any();
                    s.send(v);
                    pending = Some(v);
                    sender_live = false;
                    if rx.is_some() {
                        assert!(wk.woken_if_parked(), "C34: oneshot send wakes the parked receiver");
                        woken_by_send |= wk.parked != 0;
                    }
                    wk.parked = 0;
                }
            }
            1 => {
                if let Some(s) = tx.take() {
                    drop(s);
                    sender_live = false;
                    if rx.is_some() {
                        assert!(wk.woken_if_parked(), "C34: oneshot sender drop wakes the parked receiver");
                        woken_by_drop |= wk.parked != 0;
                    }
                    wk.parked = 0;
                }
            }
            2 => {
                if !done {
                    if let Some(r) = rx.as_mut() {
                        let which = wk.pick(TWO);
                        match poll_unpin(r, wk.waker(which)) {
                            Poll::Ready(Ok(x)) => {
                                assert!(pending == Some(x), "C34: oneshot delivers exactly the sent value, once");
                                pending = None;
                                done = true;
                                got_value = true;
                            }
                            Poll::Ready(Err(e)) => {
                                assert!(
                                    pending.is_none() && !sender_live,
                                    "C34: oneshot reports disconnection only if the sender was dropped without sending"
                                );
                                done = true;
                                got_disc = true;
                                core::mem::forget(e);
                            }
                            Poll::Pending => {
                                assert!(
                                    pending.is_none() && sender_live,
                                    "C34: oneshot Pending only while the sender is alive and nothing was sent"
                                );
                                rereg |= wk.parked != 0 && wk.parked != which;
                                wk.parked = which;
                            }
                        }
                    }
                }
            }
            _ => {
                // receiver goes away (caller gave up): later send/drop of the sender must not panic
                if let Some(r) = rx.take() {
                    drop(r);
                    wk.parked = 0;
                    done = true;
                }
            }
        }
    }
    kani::cover!(got_value && woken_by_send && (!TWO || rereg), "oneshot: parked receiver (two wakers: re-registered A<->B) woken by send, value received");
    kani::cover!(got_disc && woken_by_drop, "oneshot: parked receiver woken by sender drop, disconnection reported");
    kani::cover!(rx.is_none() && !sender_live, "oneshot: sender used after receiver dropped");
    core::mem::forget((tx, rx, wk));
}

// =====================================================================================
// mpsc
// =====================================================================================

/// World of the mpsc schedules: NS sender slots, one receiver, shadow FIFO of capacity K.
/// `T = u8`: value identity / FIFO order is observable. `T = ()`: the queue degenerates to a
/// counter (exactly-once = as many receives as sends) — used for the symbolic schedules, because
/// with a non-zero-sized `T` the queue length is symbolic after the first merge and CBMC then
/// explores `VecDeque::grow` + `handle_capacity_increase` (memcpy/memmove of symbolic length on the
/// 64-element buffer) at every send: measured > 12 GB for 3 steps.
struct MpscWorld<T, const K: usize, const NS: usize, const TWO: bool> {
    tx: [Option<MpscSender<T>>; NS],
    rx: Option<MpscReceiver<T>>,
    wk: Wk,
    // shadow model
    fifo: [Option<T>; K],
    head: usize,
    tail: usize,
    live: usize,
    // witnesses
    woken_path: bool,
    woken_by_drop: bool,
    got_in_order: u8,
    got_disc: bool,
    got_after_last_drop: bool,
    cloned_send: bool,
}

impl<T: Copy + PartialEq + kani::Arbitrary, const K: usize, const NS: usize, const TWO: bool> MpscWorld<T, K, NS, TWO> {
    fn new() -> Self {
        let (tx0, rx) = mpsc_channel::<T>();
        let mut tx: [Option<MpscSender<T>>; NS] = [const { None }; NS];
        tx[0] = Some(tx0);
        MpscWorld {
            tx,
            rx: Some(rx),
            wk: Wk::new(),
            fifo: [None; K],
            head: 0,
            tail: 0,
            live: 1,
            woken_path: false,
            woken_by_drop: false,
            got_in_order: 0,
            got_disc: false,
            got_after_last_drop: false,
            cloned_send: false,
        }
    }

    /// Every sender is dropped, the queue is empty, the receiver exists (the state in which the
    /// receiver must see the disconnection; the defect KF-C34-1 found here was repaired by dfad154).
    fn disconnected_and_empty(&self) -> bool {
        self.live == 0 && self.head == self.tail && self.rx.is_some()
    }

    fn op_send(&mut self, i: usize) {
        self.wk.snap();
        if let Some(s) = &self.tx[i] {
            let v: T = kani::any();
            let r = s.send(v);
            assert!(r.is_ok(), "C34: mpsc send on an open channel succeeds");
            self.fifo[self.tail] = Some(v);
            self.tail += 1;
            if self.rx.is_some() {
                assert!(self.wk.woken_if_parked(), "C34: mpsc send wakes the parked receiver");
                self.woken_path |= self.wk.parked != 0;
            }
            self.wk.parked = 0;
            self.cloned_send |= i != 0;
        }
    }

    fn op_clone(&mut self, i: usize, j: usize) {
        if self.tx[j].is_none() {
            if let Some(s) = &self.tx[i] {
                let c = s.clone();
                self.tx[j] = Some(c);
                self.live += 1;
            }
        }
    }

    /// `keep_sender`: the last live sender is not dropped (prefix of the last-sender-drop scenario).
    fn op_drop_sender(&mut self, i: usize, keep_sender: bool) {
        self.wk.snap();
        if self.tx[i].is_some() && !(keep_sender && self.live == 1) {
            let s = self.tx[i].take();
            drop(s);
            self.live -= 1;
            if self.live == 0 {
                if self.rx.is_some() {
                    assert!(self.wk.woken_if_parked(), "C34: mpsc drop of the last sender wakes the parked receiver");
                    self.woken_by_drop |= self.wk.parked != 0;
                }
                self.wk.parked = 0;
            }
        }
    }

    fn op_drop_receiver(&mut self) {
        if let Some(r) = self.rx.take() {
            drop(r);
            self.wk.parked = 0;
        }
    }

    /// One receiver poll with every obligation asserted (also the disconnection ones).
    fn op_poll(&mut self) {
        if let Some(r) = &self.rx {
            let which = self.wk.pick(TWO);
            match poll_mpsc(r, self.wk.waker(which)) {
                Poll::Ready(Some(x)) => {
                    assert!(self.head < self.tail, "C34: mpsc never delivers a value that was not sent (or twice)");
                    assert!(Some(x) == self.fifo[self.head], "C34: mpsc delivers in FIFO order");
                    self.head += 1;
                    self.got_after_last_drop |= self.live == 0;
                    if self.got_in_order < 2 {
                        self.got_in_order += 1;
                    }
                }
                Poll::Ready(None) => {
                    assert!(
                        self.head == self.tail && self.live == 0,
                        "C34: mpsc reports disconnection only if no value is pending and every sender is dropped"
                    );
                    self.got_disc = true;
                }
                Poll::Pending => {
                    assert!(self.head == self.tail, "C34: mpsc never returns Pending while a value is queued");
                    assert!(
                        self.live > 0,
                        "C34: mpsc poll reports disconnection when the queue is empty and every sender is dropped"
                    );
                    self.wk.parked = which;
                }
            }
        }
    }

    /// One symbolic step of the schedule.
    fn step(&mut self, keep_sender: bool) {
        let op: u8 = kani::any();
        kani::assume(op < 5);
        let i: usize = kani::any();
        kani::assume(i < NS);
        match op {
            0 => self.op_send(i),
            1 => {
                let j: usize = kani::any();
                kani::assume(j < NS);
                self.op_clone(i, j);
            }
            2 => self.op_drop_sender(i, keep_sender),
            3 => self.op_poll(),
            _ => self.op_drop_receiver(),
        }
    }
}

/// Every schedule of K operations, every obligation asserted: exactly-once delivery, Pending iff
/// the queue is empty and a sender is alive, Ready(None) iff the queue is empty and every sender is
/// dropped (values queued before the last drop are delivered first), wake-up of a parked receiver
/// by send and by the drop of the last sender.
fn mpsc_schedule<const K: usize, const NS: usize, const TWO: bool>() {
    let mut w = MpscWorld::<(), K, NS, TWO>::new();
    for _ in 0..K {
        w.step(false);
    }
    kani::cover!(w.woken_path && w.got_in_order >= 1, "mpsc: parked receiver woken by send, value received");
    kani::cover!(w.cloned_send && w.got_in_order >= 1, "mpsc: value sent through a cloned sender received");
    kani::cover!(w.woken_by_drop && w.got_disc, "mpsc: parked receiver woken by the drop of the last sender, poll Ready(None)");
    kani::cover!(K < 4 || w.got_in_order == 2, "mpsc: two values received (K >= 4)");
    kani::cover!(
        K < 4 || (w.got_after_last_drop && w.got_disc),
        "K >= 4: value queued before the last sender drop is delivered first, then Ready(None)"
    );
    core::mem::forget(w);
}

/// The scenario that exposed KF-C34-1 (repaired by dfad154): a symbolic prefix of P steps that keeps
/// at least one sender alive and ends with an empty queue and a live receiver; then every live
/// sender is dropped (the last of these drops must wake a parked receiver), then one poll, which
/// must be Ready(None).
fn mpsc_schedule_last_drop<const P: usize, const NS: usize>() {
    let mut w = MpscWorld::<(), P, NS, false>::new();
    for _ in 0..P {
        w.step(true);
    }
    kani::assume(w.live >= 1 && w.head == w.tail && w.rx.is_some());
    let was_parked = w.wk.parked != 0;
    for i in 0..NS {
        w.op_drop_sender(i, false);
    }
    kani::cover!(was_parked && w.disconnected_and_empty(), "mpsc: receiver was parked when the last sender was dropped");
    kani::cover!(!was_parked && w.disconnected_and_empty(), "mpsc: receiver was not parked when the last sender was dropped");
    w.op_poll();
    assert!(w.got_disc, "C34: mpsc poll reports disconnection when the queue is empty and every sender is dropped");
    core::mem::forget(w);
}

/// FIFO order with observable values (`u8`), one operation sequence with symbolic values. A
/// symbolic SCHEDULE with a non-zero-sized element type is out of reach (see MpscWorld); a tree-shaped
/// exploration of {send, poll}^4 (81 paths) also exceeded 12 GB.
fn mpsc_fifo_three_values() {
    let mut w = MpscWorld::<u8, 3, 2, false>::new();
    w.op_clone(0, 1);
    w.op_send(0);
    w.op_send(1);
    w.op_poll();
    w.op_send(1);
    w.op_poll();
    w.op_poll();
    w.op_poll();
    kani::cover!(w.head == 3 && w.tail == 3 && w.wk.parked != 0, "mpsc fifo: three values received, then Pending");
    kani::cover!(w.head == 3 && w.fifo[0] != w.fifo[1] && w.fifo[1] != w.fifo[2], "mpsc fifo: three different values");
    core::mem::forget(w);
}

// =====================================================================================
// notification
// =====================================================================================

/// Symbolic schedule over {notify(i), clone sender i->j, drop sender i, poll, drop receiver}.
/// A notification coalesces: `lo` = notifications guaranteed pending (0/1), `hi` = notifies not yet
/// consumed. lo >= 1 => poll must be Ready(Ok); hi == 0 => poll must not be Ready(Ok); in between
/// both a counting and a coalescing implementation are accepted.
fn notification_schedule<const K: usize, const NS: usize, const TWO: bool>() {
    let (tx0, rx) = notification();
    let mut tx: [Option<NotificationSender>; NS] = [const { None }; NS];
    tx[0] = Some(tx0);
    let mut rx: Option<NotificationReceiver> = Some(rx);
    let mut wk = Wk::new();
    let mut lo: u8 = 0;
    let mut hi: u8 = 0;
    let mut live: usize = 1;
    let mut woken_by_notify = false;
    let mut woken_by_drop = false;
    let mut coalesced = false;
    let mut got_ok = false;
    let mut got_disc = false;
    let mut cloned = false;

    for _ in 0..K {
        let op: u8 = kani::any();
        kani::assume(op < 5);
        let i: usize = kani::any();
        kani::assume(i < NS);
        wk.snap();
        match op {
            0 => {
                if let Some(s) = &tx[i] {
                    s.notify();
                    coalesced |= hi >= 1;
                    hi += 1;
                    lo = 1;
                    if rx.is_some() {
                        assert!(wk.woken_if_parked(), "C34: notify wakes the parked receiver");
                        woken_by_notify |= wk.parked != 0;
                    }
                    wk.parked = 0;
                }
            }
            1 => {
                let j: usize = kani::any();
                kani::assume(j < NS);
                if tx[j].is_none() {
                    if let Some(s) = &tx[i] {
                        let c = s.clone();
                        tx[j] = Some(c);
                        live += 1;
                        cloned = true;
                    }
                }
            }
            2 => {
                if tx[i].is_some() {
                    let s = tx[i].take();
                    drop(s);
                    live -= 1;
                    if live == 0 {
                        if rx.is_some() {
                            assert!(
                                wk.woken_if_parked(),
                                "C34: notification drop of the last sender wakes the parked receiver"
                            );
                            woken_by_drop |= wk.parked != 0;
                        }
                        wk.parked = 0;
                    }
                }
            }
            3 => {
                if let Some(r) = rx.as_mut() {
                    let which = wk.pick(TWO);
                    match poll_unpin(r, wk.waker(which)) {
                        Poll::Ready(Ok(())) => {
                            assert!(hi >= 1, "C34: notification never delivered without a notify (or more often than notified)");
                            hi -= 1;
                            lo = 0;
                            got_ok = true;
                        }
                        Poll::Ready(Err(e)) => {
                            assert!(lo == 0, "C34: notification pending notify is not lost to disconnection");
                            assert!(live == 0, "C34: notification reports disconnection only if every sender is dropped");
                            hi = 0;
                            got_disc = true;
                            core::mem::forget(e);
                        }
                        Poll::Pending => {
                            assert!(lo == 0, "C34: notification never Pending while a notify is pending");
                            assert!(live > 0, "C34: notification poll reports disconnection when nothing is pending and every sender is dropped");
                            hi = 0;
                            wk.parked = which;
                        }
                    }
                }
            }
            _ => {
                if let Some(r) = rx.take() {
                    drop(r);
                    wk.parked = 0;
                }
            }
        }
    }
    kani::cover!(woken_by_notify && got_ok, "notification: parked receiver woken by notify, poll Ready(Ok)");
    kani::cover!(woken_by_drop && got_disc, "notification: parked receiver woken by last-sender drop, disconnection reported");
    kani::cover!(coalesced && got_ok, "notification: two notifies before a poll (coalescing path)");
    kani::cover!(cloned && live == 0, "notification: every sender dropped after a clone");
    core::mem::forget((tx, rx, wk));
}

// =====================================================================================
// quick tier
// =====================================================================================

// @check props=C34 tier=quick
// @desc oneshot: for every schedule of 4 atomic operations from {send(v), drop sender, poll with waker A|B, drop receiver}: the value is delivered exactly once and unchanged; send / sender-drop while the receiver is parked wakes the most recently registered waker; poll is Ready(Err) iff the sender was dropped without sending and Pending iff the sender is alive and nothing was sent; sender operations after the receiver is gone do not panic
// @bounds k = 4 operations (shorter schedules included as no-op steps), 1 sender, 1 receiver, 2 wakers chosen symbolically at each poll, value any u8; unwind 5 = k + 1 (only loop: the schedule)
// @assume critical_section::acquire/release stubbed by no-ops (support_cs.rs): a critical section is a block no other operation interleaves with; true parallelism inside it is outside the claim
// @assume AtomicUsize::fetch_sub stubbed (support_cs.rs fetch_sub_never_last: decrements, reports "other references exist"): the shared state behind an Arc is never destroyed or freed; Drop impls of the channel handle types run for real, Arc::drop_slow and deallocation are outside the claim
// @assume the two critical sections of OneshotSender::send(self) (store+wake, then Drop of self) run back to back (send consumes the sender; a receiver step between them sees data = Some and returns Ready(Ok))
// @enc dcps::channels::oneshot::oneshot
// @enc dcps::channels::oneshot::OneshotSender::send
// @enc <dcps::channels::oneshot::OneshotSender as Drop>::drop
// @enc <dcps::channels::oneshot::OneshotReceiver as Future>::poll
#[kani::proof]
#[kani::unwind(5)]
#[kani::stub(critical_section::acquire, super::support_cs::cs_acquire)]
#[kani::stub(critical_section::release, super::support_cs::cs_release)]
#[kani::stub(core::sync::atomic::Atomic::<usize>::fetch_sub, super::support_cs::fetch_sub_never_last)]
fn c34_oneshot_schedule_k4() {
    oneshot_schedule::<4, true>();
}

// @check props=C34 tier=quick
// @desc notification: for every schedule of 4 atomic operations from {notify(i), clone sender i->j, drop sender i, poll, drop receiver} on up to 2 senders: a poll after >= 1 unconsumed notify is Ready(Ok) (coalescing accepted: n notifies before a poll give between 1 and n Ready(Ok)), never Ready(Ok) without a notify; notify / last-sender drop while the receiver is parked wakes the registered waker; Ready(Err) iff nothing pending and every sender dropped (sender_count bookkeeping over clone/drop); otherwise Pending
// @bounds k = 4 operations (shorter included), <= 2 live senders, 1 receiver, 1 waker; unwind 5 = k + 1
// @assume critical_section::acquire/release stubbed by no-ops (support_cs.rs): a critical section is a block no other operation interleaves with; true parallelism inside it is outside the claim
// @assume AtomicUsize::fetch_sub stubbed (support_cs.rs fetch_sub_never_last: decrements, reports "other references exist"): the shared state behind an Arc is never destroyed or freed; Drop impls of the channel handle types run for real, Arc::drop_slow and deallocation are outside the claim
// @assume NotificationSender::clone is two steps (sender_count += 1 in a critical section, then Arc clone) executed back to back; the cloning thread holds a live sender, so the count is >= 1 in between
// @enc dcps::channels::notification::notification
// @enc dcps::channels::notification::NotificationSender::notify
// @enc <dcps::channels::notification::NotificationSender as Clone>::clone
// @enc <dcps::channels::notification::NotificationSender as Drop>::drop
// @enc <dcps::channels::notification::NotificationReceiver as Future>::poll
#[kani::proof]
#[kani::unwind(5)]
#[kani::stub(critical_section::acquire, super::support_cs::cs_acquire)]
#[kani::stub(critical_section::release, super::support_cs::cs_release)]
#[kani::stub(core::sync::atomic::Atomic::<usize>::fetch_sub, super::support_cs::fetch_sub_never_last)]
fn c34_notification_schedule_k4() {
    notification_schedule::<4, 2, false>();
}

// @check props=C34 tier=quick
// @desc mpsc, element type (): for every schedule of 3 atomic operations from {send(i), clone sender i->j, drop sender i, poll, drop receiver} on up to 2 senders: send through a live handle always succeeds; every poll is Ready(Some) iff the number of sends exceeds the number of receives (each sent element received exactly once; elements queued before the last sender drop are delivered first), Pending iff the queue is empty and a sender is alive, Ready(None) iff the queue is empty and every sender is dropped; a send and the drop of the last sender while the receiver is parked wake the registered waker
// @bounds k = 3 operations (shorter included), <= 2 live senders, 1 receiver, 1 waker, element type () (queue = counter; value identity / FIFO order: see c34_mpsc_fifo_three_values); unwind 4 = k + 1
// @assume critical_section::acquire/release stubbed by no-ops (support_cs.rs): a critical section is a block no other operation interleaves with; true parallelism inside it is outside the claim
// @assume AtomicUsize::fetch_sub stubbed (support_cs.rs fetch_sub_never_last: decrements, reports "other references exist"): the shared state behind an Arc is never destroyed or freed; Drop impls of the channel handle types run for real, Arc::drop_slow and deallocation are outside the claim
// @assume each poll step polls a fresh MpscReceiver::receive() future once (the future's only state is a clone of the shared Arc)
// @assume MpscSender::clone is two steps (sender_count += 1 in a critical section, then Arc clone) executed back to back; the cloning thread holds a live sender, so the count is >= 1 in between
// @enc dcps::channels::mpsc::mpsc_channel
// @enc dcps::channels::mpsc::MpscSender::send
// @enc <dcps::channels::mpsc::MpscSender as Clone>::clone
// @enc <dcps::channels::mpsc::MpscSender as Drop>::drop
// @enc dcps::channels::mpsc::MpscReceiver::receive
// @enc <dcps::channels::mpsc::MpscReceiverFuture as Future>::poll
#[kani::proof]
#[kani::unwind(4)]
#[kani::stub(critical_section::acquire, super::support_cs::cs_acquire)]
#[kani::stub(critical_section::release, super::support_cs::cs_release)]
#[kani::stub(core::sync::atomic::Atomic::<usize>::fetch_sub, super::support_cs::fetch_sub_never_last)]
fn c34_mpsc_schedule_k3() {
    mpsc_schedule::<3, 2, false>();
}

// @check props=C34 tier=quick
// @desc mpsc FIFO order with observable values: clone the sender, send v1 through the original, send v2 through the clone, poll, send v3 through the clone, poll, poll, poll with v1, v2, v3 any u8: the polls return Some(v1), Some(v2), Some(v3), Pending in this order (push_back/pop_front pairing of mpsc.rs); the amortized growth of the 64-element queue buffer is asserted unreachable
// @bounds one operation sequence (7 channel operations), 3 symbolic u8 values, 2 sender handles, 1 waker; no loop (unwind 2)
// @assume critical_section::acquire/release stubbed by no-ops (support_cs.rs): a critical section is a block no other operation interleaves with; true parallelism inside it is outside the claim
// @assume AtomicUsize::fetch_sub stubbed (support_cs.rs fetch_sub_never_last: decrements, reports "other references exist"): the shared state behind an Arc is never destroyed or freed; Drop impls of the channel handle types run for real, Arc::drop_slow and deallocation are outside the claim
// @assume each poll step polls a fresh MpscReceiver::receive() future once (the future's only state is a clone of the shared Arc)
// @assume alloc::raw_vec::min_non_zero_cap stubbed by a panicking function (support_cs.rs growth_unreachable): a CHECKED obligation (the panic must be proved unreachable), it removes the allocation of a grown buffer from the formula
// @enc dcps::channels::mpsc::mpsc_channel
// @enc dcps::channels::mpsc::MpscSender::send
// @enc <dcps::channels::mpsc::MpscSender as Clone>::clone
// @enc <dcps::channels::mpsc::MpscSender as Drop>::drop
// @enc dcps::channels::mpsc::MpscReceiver::receive
// @enc <dcps::channels::mpsc::MpscReceiverFuture as Future>::poll
#[kani::proof]
#[kani::unwind(2)]
#[kani::stub(critical_section::acquire, super::support_cs::cs_acquire)]
#[kani::stub(critical_section::release, super::support_cs::cs_release)]
#[kani::stub(core::sync::atomic::Atomic::<usize>::fetch_sub, super::support_cs::fetch_sub_never_last)]
#[kani::stub(alloc::raw_vec::min_non_zero_cap, super::support_cs::growth_unreachable)]
fn c34_mpsc_fifo_three_values() {
    mpsc_fifo_three_values();
}

// @check props=C34 tier=quick
// @desc mpsc last-sender drop (the scenario that exposed KF-C34-1, repaired by dfad154): after any 1-operation prefix that keeps a sender alive and leaves the queue empty and the receiver alive, every sender is dropped and the receiver polls once: the drop of the last sender wakes a parked receiver and the poll is Ready(None)
// @bounds prefix of 1 symbolic operation, then <= 2 sender drops, then 1 poll; <= 2 senders, 1 waker, element type (); unwind 4
// @assume critical_section::acquire/release stubbed by no-ops (support_cs.rs): a critical section is a block no other operation interleaves with; true parallelism inside it is outside the claim
// @assume AtomicUsize::fetch_sub stubbed (support_cs.rs fetch_sub_never_last: decrements, reports "other references exist"): the shared state behind an Arc is never destroyed or freed; Drop impls of the channel handle types run for real, Arc::drop_slow and deallocation are outside the claim
// @assume each poll step polls a fresh MpscReceiver::receive() future once (the future's only state is a clone of the shared Arc)
// @assume scenario: the prefix ends with >= 1 live sender, an empty queue and a live receiver (kani::assume)
// @enc dcps::channels::mpsc::MpscSender::send
// @enc <dcps::channels::mpsc::MpscSender as Drop>::drop
// @enc <dcps::channels::mpsc::MpscReceiverFuture as Future>::poll
#[kani::proof]
#[kani::unwind(4)]
#[kani::stub(critical_section::acquire, super::support_cs::cs_acquire)]
#[kani::stub(critical_section::release, super::support_cs::cs_release)]
#[kani::stub(core::sync::atomic::Atomic::<usize>::fetch_sub, super::support_cs::fetch_sub_never_last)]
fn c34_mpsc_last_sender_drop() {
    mpsc_schedule_last_drop::<1, 2>();
}

// =====================================================================================
// thorough tier: longer schedules, two wakers, three sender slots
// =====================================================================================

// @check props=C34 tier=thorough timeout=1500
// @desc oneshot: for every schedule of 5 atomic operations from {send(v), drop sender, poll with waker A|B, drop receiver}: the value is delivered exactly once and unchanged; send / sender-drop while the receiver is parked wakes the most recently registered waker; poll is Ready(Err) iff the sender was dropped without sending and Pending iff the sender is alive and nothing was sent; sender operations after the receiver is gone do not panic
// @bounds k = 5 operations (shorter schedules included as no-op steps), 1 sender, 1 receiver, 2 wakers chosen symbolically at each poll, value any u8; unwind 6 = k + 1 (only loop: the schedule)
// @assume critical_section::acquire/release stubbed by no-ops (support_cs.rs): a critical section is a block no other operation interleaves with; true parallelism inside it is outside the claim
// @assume AtomicUsize::fetch_sub stubbed (support_cs.rs fetch_sub_never_last: decrements, reports "other references exist"): the shared state behind an Arc is never destroyed or freed; Drop impls of the channel handle types run for real, Arc::drop_slow and deallocation are outside the claim
// @assume the two critical sections of OneshotSender::send(self) (store+wake, then Drop of self) run back to back (send consumes the sender; a receiver step between them sees data = Some and returns Ready(Ok))
// @enc dcps::channels::oneshot::oneshot
// @enc dcps::channels::oneshot::OneshotSender::send
// @enc <dcps::channels::oneshot::OneshotSender as Drop>::drop
// @enc <dcps::channels::oneshot::OneshotReceiver as Future>::poll
#[kani::proof]
#[kani::unwind(6)]
#[kani::stub(critical_section::acquire, super::support_cs::cs_acquire)]
#[kani::stub(critical_section::release, super::support_cs::cs_release)]
#[kani::stub(core::sync::atomic::Atomic::<usize>::fetch_sub, super::support_cs::fetch_sub_never_last)]
fn c34_oneshot_schedule_k5() {
    oneshot_schedule::<5, true>();
}

// @check props=C34 tier=thorough timeout=1500
// @desc oneshot: for every schedule of 6 atomic operations from {send(v), drop sender, poll, drop receiver}: the value is delivered exactly once and unchanged; send / sender-drop while the receiver is parked wakes the registered waker; poll is Ready(Err) iff the sender was dropped without sending and Pending iff the sender is alive and nothing was sent; sender operations after the receiver is gone do not panic
// @bounds k = 6 operations (shorter schedules included as no-op steps), 1 sender, 1 receiver, 1 waker, value any u8; unwind 7 = k + 1 (only loop: the schedule)
// @assume critical_section::acquire/release stubbed by no-ops (support_cs.rs): a critical section is a block no other operation interleaves with; true parallelism inside it is outside the claim
// @assume AtomicUsize::fetch_sub stubbed (support_cs.rs fetch_sub_never_last: decrements, reports "other references exist"): the shared state behind an Arc is never destroyed or freed; Drop impls of the channel handle types run for real, Arc::drop_slow and deallocation are outside the claim
// @assume the two critical sections of OneshotSender::send(self) (store+wake, then Drop of self) run back to back (send consumes the sender; a receiver step between them sees data = Some and returns Ready(Ok))
// @enc dcps::channels::oneshot::oneshot
// @enc dcps::channels::oneshot::OneshotSender::send
// @enc <dcps::channels::oneshot::OneshotSender as Drop>::drop
// @enc <dcps::channels::oneshot::OneshotReceiver as Future>::poll
#[kani::proof]
#[kani::unwind(7)]
#[kani::stub(critical_section::acquire, super::support_cs::cs_acquire)]
#[kani::stub(critical_section::release, super::support_cs::cs_release)]
#[kani::stub(core::sync::atomic::Atomic::<usize>::fetch_sub, super::support_cs::fetch_sub_never_last)]
fn c34_oneshot_schedule_k6() {
    oneshot_schedule::<6, false>();
}

// @check props=C34 tier=thorough timeout=1500
// @desc notification: for every schedule of 4 atomic operations from {notify(i), clone sender i->j, drop sender i, poll with waker A|B, drop receiver} on up to 2 senders: a poll after >= 1 unconsumed notify is Ready(Ok) (coalescing accepted: n notifies before a poll give between 1 and n Ready(Ok)), never Ready(Ok) without a notify; notify / last-sender drop while the receiver is parked wakes the most recently registered waker; Ready(Err) iff nothing pending and every sender dropped (sender_count bookkeeping over clone/drop); otherwise Pending
// @bounds k = 4 operations (shorter included), <= 2 live senders, 1 receiver, 2 wakers; unwind 5 = k + 1
// @assume critical_section::acquire/release stubbed by no-ops (support_cs.rs): a critical section is a block no other operation interleaves with; true parallelism inside it is outside the claim
// @assume AtomicUsize::fetch_sub stubbed (support_cs.rs fetch_sub_never_last: decrements, reports "other references exist"): the shared state behind an Arc is never destroyed or freed; Drop impls of the channel handle types run for real, Arc::drop_slow and deallocation are outside the claim
// @assume NotificationSender::clone is two steps (sender_count += 1 in a critical section, then Arc clone) executed back to back; the cloning thread holds a live sender, so the count is >= 1 in between
// @enc dcps::channels::notification::notification
// @enc dcps::channels::notification::NotificationSender::notify
// @enc <dcps::channels::notification::NotificationSender as Clone>::clone
// @enc <dcps::channels::notification::NotificationSender as Drop>::drop
// @enc <dcps::channels::notification::NotificationReceiver as Future>::poll
#[kani::proof]
#[kani::unwind(5)]
#[kani::stub(critical_section::acquire, super::support_cs::cs_acquire)]
#[kani::stub(critical_section::release, super::support_cs::cs_release)]
#[kani::stub(core::sync::atomic::Atomic::<usize>::fetch_sub, super::support_cs::fetch_sub_never_last)]
fn c34_notification_schedule_k4_two_wakers() {
    notification_schedule::<4, 2, true>();
}

// @check props=C34 tier=thorough timeout=1500
// @desc notification: for every schedule of 5 atomic operations from {notify(i), clone sender i->j, drop sender i, poll, drop receiver} on up to 3 senders: a poll after >= 1 unconsumed notify is Ready(Ok) (coalescing accepted: n notifies before a poll give between 1 and n Ready(Ok)), never Ready(Ok) without a notify; notify / last-sender drop while the receiver is parked wakes the registered waker; Ready(Err) iff nothing pending and every sender dropped (sender_count bookkeeping over clone/drop); otherwise Pending
// @bounds k = 5 operations (shorter included), <= 3 live senders, 1 receiver, 1 waker; unwind 6 = k + 1
// @assume critical_section::acquire/release stubbed by no-ops (support_cs.rs): a critical section is a block no other operation interleaves with; true parallelism inside it is outside the claim
// @assume AtomicUsize::fetch_sub stubbed (support_cs.rs fetch_sub_never_last: decrements, reports "other references exist"): the shared state behind an Arc is never destroyed or freed; Drop impls of the channel handle types run for real, Arc::drop_slow and deallocation are outside the claim
// @assume NotificationSender::clone is two steps (sender_count += 1 in a critical section, then Arc clone) executed back to back; the cloning thread holds a live sender, so the count is >= 1 in between
// @enc dcps::channels::notification::notification
// @enc dcps::channels::notification::NotificationSender::notify
// @enc <dcps::channels::notification::NotificationSender as Clone>::clone
// @enc <dcps::channels::notification::NotificationSender as Drop>::drop
// @enc <dcps::channels::notification::NotificationReceiver as Future>::poll
#[kani::proof]
#[kani::unwind(6)]
#[kani::stub(critical_section::acquire, super::support_cs::cs_acquire)]
#[kani::stub(critical_section::release, super::support_cs::cs_release)]
#[kani::stub(core::sync::atomic::Atomic::<usize>::fetch_sub, super::support_cs::fetch_sub_never_last)]
fn c34_notification_schedule_k5() {
    notification_schedule::<5, 3, false>();
}

// @check props=C34 tier=thorough timeout=1500
// @desc mpsc, element type (): for every schedule of 4 atomic operations from {send(i), clone sender i->j, drop sender i, poll, drop receiver} on up to 2 senders: send through a live handle always succeeds; every poll is Ready(Some) iff the number of sends exceeds the number of receives (each sent element received exactly once; elements queued before the last sender drop are delivered first), Pending iff the queue is empty and a sender is alive, Ready(None) iff the queue is empty and every sender is dropped; a send and the drop of the last sender while the receiver is parked wake the registered waker
// @bounds k = 4 operations (shorter included), <= 2 live senders, 1 receiver, 1 waker, element type () (queue = counter; value identity / FIFO order: see c34_mpsc_fifo_three_values); unwind 5 = k + 1
// @assume critical_section::acquire/release stubbed by no-ops (support_cs.rs): a critical section is a block no other operation interleaves with; true parallelism inside it is outside the claim
// @assume AtomicUsize::fetch_sub stubbed (support_cs.rs fetch_sub_never_last: decrements, reports "other references exist"): the shared state behind an Arc is never destroyed or freed; Drop impls of the channel handle types run for real, Arc::drop_slow and deallocation are outside the claim
// @assume each poll step polls a fresh MpscReceiver::receive() future once (the future's only state is a clone of the shared Arc)
// @assume MpscSender::clone is two steps (sender_count += 1 in a critical section, then Arc clone) executed back to back; the cloning thread holds a live sender, so the count is >= 1 in between
// @enc dcps::channels::mpsc::mpsc_channel
// @enc dcps::channels::mpsc::MpscSender::send
// @enc <dcps::channels::mpsc::MpscSender as Clone>::clone
// @enc <dcps::channels::mpsc::MpscSender as Drop>::drop
// @enc dcps::channels::mpsc::MpscReceiver::receive
// @enc <dcps::channels::mpsc::MpscReceiverFuture as Future>::poll
#[kani::proof]
#[kani::unwind(5)]
#[kani::stub(critical_section::acquire, super::support_cs::cs_acquire)]
#[kani::stub(critical_section::release, super::support_cs::cs_release)]
#[kani::stub(core::sync::atomic::Atomic::<usize>::fetch_sub, super::support_cs::fetch_sub_never_last)]
fn c34_mpsc_schedule_k4() {
    mpsc_schedule::<4, 2, false>();
}

// @check props=C34 tier=thorough timeout=1500
// @desc mpsc, element type (): for every schedule of 3 atomic operations from {send(i), clone sender i->j, drop sender i, poll with waker A|B, drop receiver} on up to 2 senders: send through a live handle always succeeds; every poll is Ready(Some) iff the number of sends exceeds the number of receives (each sent element received exactly once; elements queued before the last sender drop are delivered first), Pending iff the queue is empty and a sender is alive, Ready(None) iff the queue is empty and every sender is dropped; a send and the drop of the last sender while the receiver is parked wake the most recently registered waker
// @bounds k = 3 operations (shorter included), <= 2 live senders, 1 receiver, 2 wakers, element type () (queue = counter; value identity / FIFO order: see c34_mpsc_fifo_three_values); unwind 4 = k + 1
// @assume critical_section::acquire/release stubbed by no-ops (support_cs.rs): a critical section is a block no other operation interleaves with; true parallelism inside it is outside the claim
// @assume AtomicUsize::fetch_sub stubbed (support_cs.rs fetch_sub_never_last: decrements, reports "other references exist"): the shared state behind an Arc is never destroyed or freed; Drop impls of the channel handle types run for real, Arc::drop_slow and deallocation are outside the claim
// @assume each poll step polls a fresh MpscReceiver::receive() future once (the future's only state is a clone of the shared Arc)
// @assume MpscSender::clone is two steps (sender_count += 1 in a critical section, then Arc clone) executed back to back; the cloning thread holds a live sender, so the count is >= 1 in between
// @enc dcps::channels::mpsc::mpsc_channel
// @enc dcps::channels::mpsc::MpscSender::send
// @enc <dcps::channels::mpsc::MpscSender as Clone>::clone
// @enc <dcps::channels::mpsc::MpscSender as Drop>::drop
// @enc dcps::channels::mpsc::MpscReceiver::receive
// @enc <dcps::channels::mpsc::MpscReceiverFuture as Future>::poll
#[kani::proof]
#[kani::unwind(4)]
#[kani::stub(critical_section::acquire, super::support_cs::cs_acquire)]
#[kani::stub(critical_section::release, super::support_cs::cs_release)]
#[kani::stub(core::sync::atomic::Atomic::<usize>::fetch_sub, super::support_cs::fetch_sub_never_last)]
fn c34_mpsc_schedule_k3_two_wakers() {
    mpsc_schedule::<3, 2, true>();
}

// @check props=C34 tier=thorough timeout=1500
// @desc mpsc, element type (): for every schedule of 5 atomic operations from {send(i), clone sender i->j, drop sender i, poll, drop receiver} on up to 3 senders: send through a live handle always succeeds; every poll is Ready(Some) iff the number of sends exceeds the number of receives (each sent element received exactly once; elements queued before the last sender drop are delivered first), Pending iff the queue is empty and a sender is alive, Ready(None) iff the queue is empty and every sender is dropped; a send and the drop of the last sender while the receiver is parked wake the registered waker
// @bounds k = 5 operations (shorter included), <= 3 live senders, 1 receiver, 1 waker, element type () (queue = counter; value identity / FIFO order: see c34_mpsc_fifo_three_values); unwind 6 = k + 1
// @assume critical_section::acquire/release stubbed by no-ops (support_cs.rs): a critical section is a block no other operation interleaves with; true parallelism inside it is outside the claim
// @assume AtomicUsize::fetch_sub stubbed (support_cs.rs fetch_sub_never_last: decrements, reports "other references exist"): the shared state behind an Arc is never destroyed or freed; Drop impls of the channel handle types run for real, Arc::drop_slow and deallocation are outside the claim
// @assume each poll step polls a fresh MpscReceiver::receive() future once (the future's only state is a clone of the shared Arc)
// @assume MpscSender::clone is two steps (sender_count += 1 in a critical section, then Arc clone) executed back to back; the cloning thread holds a live sender, so the count is >= 1 in between
// @enc dcps::channels::mpsc::mpsc_channel
// @enc dcps::channels::mpsc::MpscSender::send
// @enc <dcps::channels::mpsc::MpscSender as Clone>::clone
// @enc <dcps::channels::mpsc::MpscSender as Drop>::drop
// @enc dcps::channels::mpsc::MpscReceiver::receive
// @enc <dcps::channels::mpsc::MpscReceiverFuture as Future>::poll
#[kani::proof]
#[kani::unwind(6)]
#[kani::stub(critical_section::acquire, super::support_cs::cs_acquire)]
#[kani::stub(critical_section::release, super::support_cs::cs_release)]
#[kani::stub(core::sync::atomic::Atomic::<usize>::fetch_sub, super::support_cs::fetch_sub_never_last)]
fn c34_mpsc_schedule_k5() {
    mpsc_schedule::<5, 3, false>();
}

// @check props=C34 tier=thorough timeout=1500
// @desc mpsc last-sender drop: as c34_mpsc_last_sender_drop with a 2-operation prefix: after any 2-operation prefix that keeps a sender alive and leaves the queue empty and the receiver alive, every sender is dropped and the receiver polls once: the drop of the last sender wakes a parked receiver and the poll is Ready(None)
// @bounds prefix of 2 symbolic operations, then <= 2 sender drops, then 1 poll; <= 2 senders, 1 waker, element type (); unwind 4
// @assume critical_section::acquire/release stubbed by no-ops (support_cs.rs): a critical section is a block no other operation interleaves with; true parallelism inside it is outside the claim
// @assume AtomicUsize::fetch_sub stubbed (support_cs.rs fetch_sub_never_last: decrements, reports "other references exist"): the shared state behind an Arc is never destroyed or freed; Drop impls of the channel handle types run for real, Arc::drop_slow and deallocation are outside the claim
// @assume each poll step polls a fresh MpscReceiver::receive() future once (the future's only state is a clone of the shared Arc)
// @assume scenario: the prefix ends with >= 1 live sender, an empty queue and a live receiver (kani::assume)
// @enc dcps::channels::mpsc::MpscSender::send
// @enc <dcps::channels::mpsc::MpscSender as Drop>::drop
// @enc <dcps::channels::mpsc::MpscReceiverFuture as Future>::poll
#[kani::proof]
#[kani::unwind(4)]
#[kani::stub(critical_section::acquire, super::support_cs::cs_acquire)]
#[kani::stub(critical_section::release, super::support_cs::cs_release)]
#[kani::stub(core::sync::atomic::Atomic::<usize>::fetch_sub, super::support_cs::fetch_sub_never_last)]
fn c34_mpsc_last_sender_drop_p2() {
    mpsc_schedule_last_drop::<2, 2>();
}
