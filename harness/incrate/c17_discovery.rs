// C17 — participant discovery, domain isolation, lease expiry, ignore_participant.
// Pattern A: a real DcpsDomainParticipant (support_participant.rs), the discovered-participant list / ignore
// set installed directly, ONE real operation, oracle from the property statement.
use super::support_part1 as s1;
use super::support_participant as sp;
use crate::dcps::dcps_domain_participant::builtin_constants::{
    ENTITYID_SEDP_BUILTIN_PUBLICATIONS_ANNOUNCER, ENTITYID_SEDP_BUILTIN_SUBSCRIPTIONS_ANNOUNCER,
};
use crate::dcps::data_representation_builtin_endpoints::spdp_discovered_participant_data::BuiltinEndpointSet;
use crate::dcps::dcps_domain_participant::participant_entity::DcpsDomainParticipant;
use crate::infrastructure::error::DdsError;
use crate::infrastructure::instance::InstanceHandle;
use crate::infrastructure::time::{Duration, Time};
use crate::transport::types::Guid;
use alloc::string::String;

fn listed(p: &DcpsDomainParticipant, i: u8) -> usize {
    let key = s1::remote_participant_key(i);
    let mut n = 0;
    for d in p.domain_participant.discovered_participant_list.iter() {
        if d.dds_participant_data.key.value == key {
            n += 1;
        }
    }
    n
}

// @check props=C17 tier=quick
// @desc remove_stale_participants(now) with one discovered participant (symbolic lease_duration, last_communication_timestamp, now): the participant is removed IF AND ONLY IF now - last > lease (never earlier than the lease; at the first worker wake-up after it), and time_until_stale_participant(now) is exactly the remaining lease (<= remaining lease; negative iff already stale), so with C31 the removal happens no later than lease + one worker period
// @bounds one discovered participant; lease, last, now over the full normalized domain with 0 <= last <= now, lease >= 0
// @assume clock readings are non-negative and non-decreasing (0 <= last_communication_timestamp <= now); lease_duration >= 0; Durations/Times normalized (nanosec < 10^9, C14)
// @enc DcpsDomainParticipant::remove_stale_participants
// @enc DcpsDomainParticipant::remove_discovered_participant
// @enc DcpsDomainParticipant::time_until_stale_participant
#[kani::proof]
#[kani::unwind(2)]
#[kani::stub(critical_section::acquire, super::support_cs::cs_acquire)]
#[kani::stub(critical_section::release, super::support_cs::cs_release)]
fn c17_stale_removal_one() {
    s1::link_drop_glue();
    let cap = sp::Capture::new();
    let mut p = sp::participant(&cap, 0);
    let lease = s1::any_duration();
    let last = s1::any_time();
    let now = s1::any_time();
    let zero = Duration::new(0, 0);
    kani::assume(lease >= zero && last >= Time::new(0, 0) && now >= last);
    p.domain_participant.discovered_participant_list.push(s1::discovered(1, lease, last));
    let expired = s1::lease_expired(now, last, lease);

    let t = p.time_until_stale_participant(now);
    match t {
        Some(d) => {
            assert!((d < zero) == expired, "C17: time_until_stale_participant is negative exactly when the lease is exceeded");
            assert!(d <= lease, "C17: time_until_stale_participant is at most the lease (never sleeps past the expiry)");
            if now == last {
                assert!(d == lease, "C17: with no time elapsed the whole lease remains");
            }
        }
        None => assert!(false, "C17: a discovered participant yields a lease duty"),
    }

    p.remove_stale_participants(now);
    let n = listed(&p, 1);
    assert!(n == if expired { 0 } else { 1 }, "C17: participant removed iff now - last_communication > lease_duration");
    assert!(p.domain_participant.discovered_participant_list.len() == n, "C17: nothing else is added or removed");
    kani::cover!(expired && lease > Duration::new(1, 0), "a lease of more than 1 s expired");
    kani::cover!(!expired && now > last, "time elapsed but lease not exceeded");
    kani::cover!(!expired && now > last && (now.sec() as i64) == (last.sec() as i64) + (lease.sec() as i64) && lease.nanosec() == 0 && now.nanosec() == last.nanosec(), "exactly at the lease boundary: kept");
    core::mem::forget(p);
}

// PARKED (not run, not claimed): thorough variant not measured after the per-loop bounds were introduced (unwind 15: no answer in 900 s)
// @parked props=C17 tier=thorough
// @desc remove_stale_participants(now) with two discovered participants (independent symbolic leases / last-communication times): each is removed iff ITS lease is exceeded, the other one stays, order of the survivors is kept; time_until_stale_participant(now) <= remaining lease of each
// @bounds two discovered participants with distinct keys; full normalized domain with 0 <= last_i <= now, lease_i >= 0
// @assume clock readings non-negative and non-decreasing; leases >= 0; participant keys distinct (add_discovered_participant replaces an entry with an equal key)
// @enc DcpsDomainParticipant::remove_stale_participants
// @enc DcpsDomainParticipant::remove_discovered_participant
#[kani::proof]
#[kani::unwind(3)]
#[kani::stub(critical_section::acquire, super::support_cs::cs_acquire)]
#[kani::stub(critical_section::release, super::support_cs::cs_release)]
fn c17_stale_removal_two() {
    s1::link_drop_glue();
    let cap = sp::Capture::new();
    let mut p = sp::participant(&cap, 0);
    let zero = Duration::new(0, 0);
    let now = s1::any_time();
    let (l1, t1) = (s1::any_duration(), s1::any_time());
    let (l2, t2) = (s1::any_duration(), s1::any_time());
    kani::assume(l1 >= zero && t1 >= Time::new(0, 0) && now >= t1);
    kani::assume(l2 >= zero && t2 >= Time::new(0, 0) && now >= t2);
    p.domain_participant.discovered_participant_list.push(s1::discovered(1, l1, t1));
    p.domain_participant.discovered_participant_list.push(s1::discovered(2, l2, t2));
    let e1 = s1::lease_expired(now, t1, l1);
    let e2 = s1::lease_expired(now, t2, l2);

    if let Some(d) = p.time_until_stale_participant(now) {
        assert!(d <= l1 && d <= l2, "C17: time_until_stale_participant is at most every lease");
        assert!((d < zero) == (e1 || e2), "C17: negative iff some lease is exceeded");
    } else {
        assert!(false, "C17: discovered participants yield a lease duty");
    }

    p.remove_stale_participants(now);
    assert!(listed(&p, 1) == if e1 { 0 } else { 1 }, "C17: first participant removed iff its lease is exceeded");
    assert!(listed(&p, 2) == if e2 { 0 } else { 1 }, "C17: second participant removed iff its lease is exceeded");
    let len = p.domain_participant.discovered_participant_list.len();
    assert!(len == (!e1) as usize + (!e2) as usize, "C17: only stale participants are removed");
    if !e1 && !e2 {
        assert!(
            p.domain_participant.discovered_participant_list[0].guid_prefix == s1::remote_prefix(1),
            "C17: order kept"
        );
    }
    kani::cover!(e1 && !e2, "only the first is stale");
    kani::cover!(!e1 && e2, "only the second is stale");
    kani::cover!(e1 && e2, "both stale");
    core::mem::forget(p);
}

// The two SEDP endpoints announced by the remote participant in the quick harnesses: its publications DETECTOR (the
// local publications writer gets a reliable reader proxy) and its subscriptions ANNOUNCER (the local subscriptions
// reader gets a writer proxy). The other eight add_matched_* calls of add_discovered_participant are the same code
// shape behind the same guard; they are exercised (bit clear => nothing added) but add no proxy here.
// The quick harnesses announce NO builtin endpoint (every add_matched_* call of add_discovered_participant then finds its
// bit clear and adds nothing): with endpoints announced the proxies pushed into the builtin writers / readers made the
// harness exceed 10 GB (two endpoints) / ~20 GB (all ten).
const NO_ENDPOINTS: u32 = 0;
#[allow(dead_code)]
const SEDP_TWO: u32 = BuiltinEndpointSet::BUILTIN_ENDPOINT_PUBLICATIONS_DETECTOR | BuiltinEndpointSet::BUILTIN_ENDPOINT_SUBSCRIPTIONS_ANNOUNCER;

#[allow(dead_code)]
fn has_reliable_proxy(w: &crate::rtps::stateful_writer::RtpsStatefulWriter) -> bool {
    // a reliable reader proxy starts with highest_acked = 0: is_change_acknowledged(1) is false iff one exists
    !w.is_change_acknowledged(1)
}

// PARKED (not run, not claimed): measured with two announced SEDP endpoints: CBMC out of memory at 10 GB after 126-157 s (all ten endpoints: ~20 GB); this reduced shape (no endpoint announced) also ran out of 10 GB after 68-85 s (the cost is in add_discovered_participant itself: ten add_matched_* calls on the builtin endpoints plus the BTreeSet / list look-ups)
// @parked props=C17 tier=quick
// @desc add_discovered_participant (through the guarded hook verif_add_discovered_participant) with a directly constructed SpdpDiscoveredParticipantData: symbolic local domain id, symbolic announced domain id (None / Some(any i32)), domain tag equal or unequal, the participant ignored or not, already discovered or not. It is added (list entry with the announced lease and the clock reading) IF AND ONLY IF (id absent or equal) AND tags equal AND not ignored AND not yet discovered; otherwise the discovered list is unchanged (different domain ids / tags never match; an ignored participant is never (re)discovered)
// @bounds local domain id symbolic i32; announced id Option<i32> symbolic; tags "" / "t"; ignore set of 0-1 entries; discovered list of 0-1 entries; the remote participant announces no builtin endpoint (the matching of announced SEDP endpoints is outside); empty locator lists
// @assume the local participant is not enabled (announce_participant inside add_discovered_participant is then a no-op by its own guard; enabling announces through XTypes)
// @assume the SpdpDiscoveredParticipantData value is constructed directly (the decoder from_bytes runs through ParameterList/DynamicData code)
// @assume stub: tracing LevelFilter::current() returns OFF (process without a tracing subscriber; otherwise #[tracing::instrument] Debug-formats the announcement)
// @enc DcpsDomainParticipant::add_discovered_participant
#[kani::proof]
#[kani::unwind(2)]
#[kani::stub(critical_section::acquire, super::support_cs::cs_acquire)]
#[kani::stub(critical_section::release, super::support_cs::cs_release)]
#[kani::stub(tracing::level_filters::LevelFilter::current, super::support_qos::tracing_off)]
fn c17_spdp_add() {
    s1::link_drop_glue();
    let cap = sp::Capture::new();
    let local_id: i32 = kani::any();
    let local_tagged: bool = kani::any();
    let mut p = s1::participant_with_tag(&cap, local_id, if local_tagged { String::from("t") } else { String::new() });

    let announced_id: Option<i32> = if kani::any() { Some(kani::any()) } else { None };
    let remote_tagged: bool = kani::any();
    let ignored: bool = kani::any();
    let already: bool = kani::any();
    let old_lease = Duration::new(7, 0);
    let old_last = Time::new(3, 0);
    if already {
        p.domain_participant.discovered_participant_list.push(s1::discovered(1, old_lease, old_last));
    }
    if ignored {
        p.domain_participant.ignored_participants.insert(s1::remote_participant_handle(1));
    }
    let lease = s1::any_duration();
    let now = s1::any_time();
    let data = s1::spdp(
        1,
        announced_id,
        if remote_tagged { String::from("t") } else { String::new() },
        NO_ENDPOINTS,
        lease,
    );

    p.verif_add_discovered_participant(&data, &s1::rt(now));

    let id_ok = match announced_id {
        Some(i) => i == local_id,
        None => true,
    };
    let expect_added = id_ok && (remote_tagged == local_tagged) && !ignored && !already;
    let n = listed(&p, 1);
    if expect_added {
        assert!(n == 1, "C17: matching participant is discovered");
        let d = &p.domain_participant.discovered_participant_list[0];
        assert!(d.lease_duration == lease, "C17: announced lease stored");
        assert!(d.last_communication_timestamp == now, "C17: lease clock starts at the discovery time");
    } else {
        assert!(n == already as usize, "C17: non-matching / ignored / known participant does not change the discovered list");
        if already {
            let d = &p.domain_participant.discovered_participant_list[0];
            assert!(d.lease_duration == old_lease && d.last_communication_timestamp == old_last, "C17: existing entry untouched");
        }
    }
    assert!(p.domain_participant.discovered_participant_list.len() == n, "C17: no other entry appears");
    kani::cover!(expect_added && announced_id.is_none(), "added with the domain id absent");
    kani::cover!(expect_added && announced_id.is_some() && local_tagged, "added with equal id and equal non-empty tag");
    kani::cover!(!id_ok && !ignored && !already && remote_tagged == local_tagged, "rejected only for the domain id");
    kani::cover!(id_ok && !ignored && !already && remote_tagged != local_tagged, "rejected only for the domain tag");
    kani::cover!(id_ok && ignored && !already && remote_tagged == local_tagged, "rejected only because ignored");
    core::mem::forget(p);
    core::mem::forget(data);
}

// PARKED (not run, not claimed): measured with two announced SEDP endpoints: CBMC out of memory at 10 GB after 126-157 s (all ten endpoints: ~20 GB); this reduced shape (no endpoint announced) also ran out of 10 GB after 68-85 s (the cost is in add_discovered_participant itself: ten add_matched_* calls on the builtin endpoints plus the BTreeSet / list look-ups)
// @parked props=C17 tier=quick
// @desc ignore_participant(handle) on an enabled participant that has discovered that participant (or not yet) and a second one: Ok, the participant is removed from the discovered list, the other one stays, the handle is in the ignore set; a following SPDP announcement of the ignored participant (matching domain id and tag) through add_discovered_participant does NOT re-add it
// @bounds discovered list of 1-2 entries (the ignored one present or not, symbolic); one ignore + one re-announcement
// @assume `enabled` is set directly on the participant (enable_domain_participant announces through XTypes)
// @assume stub: announce_participant (SPDP self-announcement, ParameterList/XTypes serializer) is a no-op; it does not touch the discovered list or the ignore set
// @assume stub: tracing LevelFilter::current() returns OFF
// @enc DcpsDomainParticipant::ignore_participant
// @enc DcpsDomainParticipant::remove_discovered_participant
// @enc DcpsDomainParticipant::add_discovered_participant
#[kani::proof]
#[kani::unwind(3)]
#[kani::stub(critical_section::acquire, super::support_cs::cs_acquire)]
#[kani::stub(critical_section::release, super::support_cs::cs_release)]
#[kani::stub(crate::dcps::dcps_domain_participant::participant_entity::DcpsDomainParticipant::announce_participant, super::support_part1::announce_participant_stub)]
#[kani::stub(tracing::level_filters::LevelFilter::current, super::support_qos::tracing_off)]
fn c17_spdp_ignored() {
    s1::link_drop_glue();
    let cap = sp::Capture::new();
    let mut p = sp::participant(&cap, 0);
    p.domain_participant.enabled = true;
    let known: bool = kani::any();
    if known {
        p.domain_participant.discovered_participant_list.push(s1::discovered(1, Duration::new(100, 0), Time::new(1, 0)));
    }
    p.domain_participant.discovered_participant_list.push(s1::discovered(2, Duration::new(100, 0), Time::new(1, 0)));

    let h = s1::remote_participant_handle(1);
    let r = p.ignore_participant(&h);
    assert!(r.is_ok(), "C17: ignore_participant succeeds on an enabled participant");
    assert!(listed(&p, 1) == 0, "C17: ignored participant is removed from the discovered list");
    assert!(listed(&p, 2) == 1, "C17: other participants stay discovered");
    assert!(p.domain_participant.ignored_participants.contains(&h), "C17: handle recorded as ignored");

    // the ignored participant announces itself again (same domain, same tag)
    let again = s1::spdp(1, Some(0), String::new(), NO_ENDPOINTS, Duration::new(100, 0));
    p.verif_add_discovered_participant(&again, &s1::rt(Time::new(2, 0)));
    assert!(listed(&p, 1) == 0, "C17: an ignored participant is never rediscovered");
    assert!(p.domain_participant.discovered_participant_list.len() == 1, "C17: discovered list otherwise unchanged");
    kani::cover!(known, "ignoring a discovered participant");
    kani::cover!(!known, "ignoring a not yet discovered participant");
    core::mem::forget(again);
    core::mem::forget(r);
    core::mem::forget(p);
}

// @check props=C17 tier=quick
// @desc ignore_participant on a participant that is NOT enabled fails with NotEnabled and changes neither the discovered list nor the ignore set
// @bounds one discovered participant
// @enc DcpsDomainParticipant::ignore_participant
#[kani::proof]
#[kani::unwind(2)]
#[kani::stub(critical_section::acquire, super::support_cs::cs_acquire)]
#[kani::stub(critical_section::release, super::support_cs::cs_release)]
#[kani::stub(tracing::level_filters::LevelFilter::current, super::support_qos::tracing_off)]
fn c17_spdp_ignore_not_enabled() {
    s1::link_drop_glue();
    let cap = sp::Capture::new();
    let mut p = sp::participant(&cap, 0);
    p.domain_participant.discovered_participant_list.push(s1::discovered(1, Duration::new(100, 0), Time::new(1, 0)));
    let h = s1::remote_participant_handle(1);
    let r = p.ignore_participant(&h);
    assert!(matches!(r, Err(DdsError::NotEnabled)), "C17: ignore_participant on a disabled participant is NotEnabled");
    assert!(listed(&p, 1) == 1, "C17: failed ignore changes nothing");
    assert!(p.domain_participant.ignored_participants.is_empty(), "C17: failed ignore records nothing");
    kani::cover!(r.is_err(), "NotEnabled path");
    core::mem::forget(r);
    core::mem::forget(p);
}
