// C07 — decoders are total. One harness per decoding unit: N fully symbolic bytes, a SYMBOLIC
// length (len <= N), and — because the submessage header is itself 4 symbolic bytes — both
// endianness flags, every flag combination, every submessage_length value.
// Oracle: the real decoder returns Ok or Err; Kani's panic / arithmetic-overflow / index /
// slice-bounds checks are on; where the decoder returns a collection whose size is driven by a
// count read from the wire, the size is asserted to be bounded by the input length.
use alloc::vec::Vec;

use crate::rtps_messages::overall_structure::{Endianness, SubmessageHeaderRead, TryReadFromBytes};
use crate::rtps_messages::submessage_elements::{
    FragmentNumberSet, LocatorList, ParameterList, SequenceNumberSet,
};
use crate::rtps_messages::submessages::{
    ack_nack::AckNackSubmessage, data::DataSubmessage, data_frag::DataFragSubmessage,
    gap::GapSubmessage, heartbeat::HeartbeatSubmessage, heartbeat_frag::HeartbeatFragSubmessage,
    info_destination::InfoDestinationSubmessage, info_reply::InfoReplySubmessage,
    info_source::InfoSourceSubmessage, info_timestamp::InfoTimestampSubmessage,
    nack_frag::NackFragSubmessage, pad::PadSubmessage,
};

/// A submessage header decoded by the real header decoder from 4 symbolic bytes: submessage id,
/// all 8 flags (bit 0 = endianness) and submessage_length are arbitrary.
fn any_header() -> SubmessageHeaderRead {
    let hb: [u8; 4] = kani::any();
    let mut h = &hb[..];
    match SubmessageHeaderRead::try_read_from_bytes(&mut h) {
        Ok(h) => h,
        Err(_) => {
            kani::assume(false);
            unreachable!()
        }
    }
}

fn any_endianness() -> Endianness {
    if kani::any() {
        Endianness::LittleEndian
    } else {
        Endianness::BigEndian
    }
}

fn rd_u32(b: &[u8], at: usize, e: &Endianness) -> u32 {
    let a = [b[at], b[at + 1], b[at + 2], b[at + 3]];
    match e {
        Endianness::LittleEndian => u32::from_le_bytes(a),
        Endianness::BigEndian => u32::from_be_bytes(a),
    }
}

// ------------------------------------------------------------------------------------------
// submessage header
// ------------------------------------------------------------------------------------------

// @check props=C07 tier=quick
// @desc SubmessageHeaderRead::try_read_from_bytes on arbitrary bytes: Ok iff len >= 4, consumes exactly 4 bytes, decodes id/flags/length per the endianness flag; never panics
// @bounds 8 symbolic bytes, symbolic length 0..=8; no loops besides the 2-byte copy (unwind 4)
// @enc rtps_messages::overall_structure::SubmessageHeaderRead::try_read_from_bytes
#[kani::proof]
#[kani::unwind(4)]
fn c07_submessage_header() {
    let bytes: [u8; 8] = kani::any();
    let len: usize = kani::any();
    kani::assume(len <= 8);
    let mut data = &bytes[..len];
    let r = SubmessageHeaderRead::try_read_from_bytes(&mut data);
    match r {
        Ok(h) => {
            assert!(len >= 4, "C07: header decoded from < 4 bytes");
            assert!(data.len() == len - 4, "C07: header consumes exactly 4 bytes");
            assert!(h.submessage_id() == bytes[0], "C07: submessage id");
            let le = bytes[1] & 1 == 1;
            let want = if le {
                u16::from_le_bytes([bytes[2], bytes[3]])
            } else {
                u16::from_be_bytes([bytes[2], bytes[3]])
            };
            assert!(h.submessage_length() == want, "C07: submessage length per endianness flag");
            assert!(h.flags()[0] == le && h.flags()[7] == (bytes[1] & 0x80 != 0), "C07: flags");
            kani::cover!(le && want > 255, "little endian header");
            kani::cover!(!le && want > 255, "big endian header");
        }
        Err(_) => {
            assert!(len < 4, "C07: header of >= 4 bytes rejected");
            assert!(data.len() == len, "C07: failed header read consumes nothing");
            kani::cover!(len == 3, "short header rejected");
        }
    }
}

// ------------------------------------------------------------------------------------------
// submessages
// ------------------------------------------------------------------------------------------

macro_rules! body {
    ($n:expr) => {{
        let bytes: [u8; $n] = kani::any();
        let len: usize = kani::any();
        kani::assume(len <= $n);
        (bytes, len)
    }};
}

// @check props=C07 tier=quick
// @desc AckNackSubmessage::try_from_bytes on arbitrary header + arbitrary body bytes: Ok or Err, no panic
// @bounds body 32 symbolic bytes (reader id, writer id, set with <= 2 bitmap words, count), symbolic length; unwind 10 (bitmap loop <= 8, 4/8/12-byte copies)
// @enc rtps_messages::submessages::ack_nack::AckNackSubmessage::try_from_bytes
// @enc rtps_messages::submessage_elements::SequenceNumberSet::try_read_from_bytes
#[kani::proof]
#[kani::unwind(10)]
fn c07_acknack() {
    let h = any_header();
    let (bytes, len) = body!(32);
    let r = AckNackSubmessage::try_from_bytes(&h, &bytes[..len]);
    if r.is_ok() {
        assert!(len >= 24, "C07: ACKNACK decoded from fewer bytes than its fixed part");
    }
    kani::cover!(r.is_ok() && len == 32, "an ACKNACK with two bitmap words decodes");
    kani::cover!(r.is_err() && len == 32, "a full-length body is rejected");
    core::mem::forget(r);
}

// @check props=C07 tier=thorough
// @desc AckNackSubmessage::try_from_bytes, body long enough for the maximal 256-bit set
// @bounds body 56 symbolic bytes, symbolic length; unwind 10
// @enc rtps_messages::submessages::ack_nack::AckNackSubmessage::try_from_bytes
#[kani::proof]
#[kani::unwind(10)]
fn c07_acknack_full() {
    let h = any_header();
    let (bytes, len) = body!(56);
    let r = AckNackSubmessage::try_from_bytes(&h, &bytes[..len]);
    kani::cover!(r.is_ok() && len == 56, "an ACKNACK with 8 bitmap words decodes");
    core::mem::forget(r);
}

// @check props=C07 tier=quick
// @desc GapSubmessage::try_from_bytes on arbitrary header + body: Ok or Err, no panic
// @bounds body 36 symbolic bytes (ids, gap start, set with <= 2 bitmap words), symbolic length; unwind 10
// @enc rtps_messages::submessages::gap::GapSubmessage::try_from_bytes
#[kani::proof]
#[kani::unwind(10)]
fn c07_gap() {
    let h = any_header();
    let (bytes, len) = body!(36);
    let r = GapSubmessage::try_from_bytes(&h, &bytes[..len]);
    if r.is_ok() {
        assert!(len >= 28, "C07: GAP decoded from fewer bytes than its fixed part");
    }
    kani::cover!(r.is_ok() && len == 36, "a GAP with two bitmap words decodes");
    kani::cover!(r.is_err() && len == 36, "a full-length body is rejected");
    core::mem::forget(r);
}

// @check props=C07 tier=thorough
// @desc GapSubmessage::try_from_bytes, body long enough for the maximal 256-bit set
// @bounds body 60 symbolic bytes, symbolic length; unwind 10
// @enc rtps_messages::submessages::gap::GapSubmessage::try_from_bytes
#[kani::proof]
#[kani::unwind(10)]
fn c07_gap_full() {
    let h = any_header();
    let (bytes, len) = body!(60);
    let r = GapSubmessage::try_from_bytes(&h, &bytes[..len]);
    kani::cover!(r.is_ok() && len == 60, "a GAP with 8 bitmap words decodes");
    core::mem::forget(r);
}

// @check props=C07 tier=quick
// @desc HeartbeatSubmessage / HeartbeatFragSubmessage / InfoDestination / InfoSource / InfoTimestamp / Pad ::try_from_bytes on arbitrary header + body: Ok or Err, no panic; Ok only if the fixed-size body is present
// @bounds body 32 symbolic bytes, symbolic length; loop-free apart from <= 12-byte copies (unwind 14)
// @enc rtps_messages::submessages::heartbeat::HeartbeatSubmessage::try_from_bytes
// @enc rtps_messages::submessages::heartbeat_frag::HeartbeatFragSubmessage::try_from_bytes
// @enc rtps_messages::submessages::info_destination::InfoDestinationSubmessage::try_from_bytes
// @enc rtps_messages::submessages::info_source::InfoSourceSubmessage::try_from_bytes
// @enc rtps_messages::submessages::info_timestamp::InfoTimestampSubmessage::try_from_bytes
// @enc rtps_messages::submessages::pad::PadSubmessage::try_from_bytes
#[kani::proof]
#[kani::unwind(14)]
fn c07_fixed_size_submessages() {
    let h = any_header();
    let (bytes, len) = body!(32);
    let d = &bytes[..len];
    let hb = HeartbeatSubmessage::try_from_bytes(&h, d);
    assert!(hb.is_ok() == (len >= 28), "C07: HEARTBEAT decodes iff 28 body bytes are present");
    let hf = HeartbeatFragSubmessage::try_from_bytes(&h, d);
    assert!(hf.is_ok() == (len >= 24), "C07: HEARTBEAT_FRAG decodes iff 24 body bytes are present");
    let id = InfoDestinationSubmessage::try_from_bytes(&h, d);
    assert!(id.is_ok() == (len >= 12), "C07: INFO_DST decodes iff 12 body bytes are present");
    let is = InfoSourceSubmessage::try_from_bytes(&h, d);
    assert!(is.is_ok() == (len >= 20), "C07: INFO_SRC decodes iff 20 body bytes are present");
    let it = InfoTimestampSubmessage::try_from_bytes(&h, d);
    assert!(
        it.is_ok() == (h.flags()[1] || len >= 8),
        "C07: INFO_TS decodes iff invalidate flag or 8 body bytes"
    );
    let pad = PadSubmessage::try_from_bytes(&h, d);
    assert!(pad.is_ok(), "C07: PAD always decodes");
    kani::cover!(hb.is_ok() && !h.flags()[0], "big-endian heartbeat decodes");
    kani::cover!(hb.is_err() && len == 27, "short heartbeat rejected");
    kani::cover!(it.is_err(), "short timestamp rejected");
}

// @check props=C07 tier=quick
// @desc DataSubmessage::try_from_bytes on arbitrary header (all flags, any submessage_length incl. 0) + body: Ok or Err, no panic; inline-QoS parameter count and payload size bounded by the body length
// @bounds body 36 symbolic bytes (20 fixed + 16 for inline QoS / payload; octetsToInlineQos arbitrary so the parameter list may start anywhere), symbolic length; unwind 11 (parameter loop <= 36/4 + 1 iterations)
// @enc rtps_messages::submessages::data::DataSubmessage::try_from_bytes
// @enc rtps_messages::submessage_elements::ParameterList::try_read_from_bytes
#[kani::proof]
#[kani::unwind(11)]
fn c07_data() {
    let h = any_header();
    let (bytes, len) = body!(36);
    let r = DataSubmessage::try_from_bytes(&h, &bytes[..len]);
    if let Ok(d) = &r {
        assert!(len >= 20, "C07: DATA decoded from fewer bytes than its fixed part");
        assert!(d.serialized_payload().len() <= len, "C07: DATA payload longer than the input");
        assert!(d.inline_qos().parameter().len() * 4 <= len, "C07: more inline-QoS parameters than input allows");
    }
    kani::cover!(matches!(&r, Ok(d) if d.inline_qos().parameter().len() == 1 && d.serialized_payload().len() > 0), "DATA with one parameter and a payload decodes");
    kani::cover!(matches!(&r, Ok(d) if d.inline_qos().parameter().len() >= 2), "DATA with two parameters decodes");
    kani::cover!(r.is_err() && len == 36, "full-length DATA body rejected");
    core::mem::forget(r);
}

// @check props=C07 tier=quick
// @desc DataFragSubmessage::try_from_bytes on arbitrary header + body: Ok or Err, no panic; parameter count and payload bounded by the body length
// @bounds body 44 symbolic bytes (32 fixed + 12), symbolic length; unwind 13 (parameter loop <= 44/4 + 1)
// @enc rtps_messages::submessages::data_frag::DataFragSubmessage::try_from_bytes
#[kani::proof]
#[kani::unwind(13)]
fn c07_data_frag() {
    let h = any_header();
    let (bytes, len) = body!(44);
    let r = DataFragSubmessage::try_from_bytes(&h, &bytes[..len]);
    if let Ok(d) = &r {
        assert!(len >= 32, "C07: DATA_FRAG decoded from fewer bytes than its fixed part");
        assert!(d.serialized_payload().as_ref().len() <= len, "C07: DATA_FRAG payload longer than the input");
        assert!(d.inline_qos().parameter().len() * 4 <= len, "C07: more inline-QoS parameters than input allows");
    }
    kani::cover!(matches!(&r, Ok(d) if d.inline_qos().parameter().len() == 1 && d.serialized_payload().as_ref().len() > 0), "DATA_FRAG with one parameter and a payload decodes");
    kani::cover!(r.is_err() && len == 44, "full-length DATA_FRAG body rejected");
    core::mem::forget(r);
}

// @check props=C07 tier=quick
// @desc InfoReplySubmessage::try_from_bytes on arbitrary header + body: Ok or Err, no panic; the number of decoded locators (driven by the numLocators counts on the wire) is bounded by body length / 24
// @bounds body 36 symbolic bytes (count + one locator + second count), symbolic length; unwind 14 (locator loop <= 2 iterations, 16-byte address copy)
// @enc rtps_messages::submessages::info_reply::InfoReplySubmessage::try_from_bytes
// @enc rtps_messages::submessage_elements::LocatorList::try_read_from_bytes
#[kani::proof]
#[kani::unwind(18)]
fn c07_info_reply() {
    let h = any_header();
    let (bytes, len) = body!(36);
    let r = InfoReplySubmessage::try_from_bytes(&h, &bytes[..len]);
    if let Ok(m) = &r {
        let n = m._unicast_locator_list().value().len() + m._multicast_locator_list().value().len();
        assert!(4 + 24 * n <= len, "C07: INFO_REPLY decoded more locators than the input holds");
    }
    kani::cover!(matches!(&r, Ok(m) if m._unicast_locator_list().value().len() == 1 && m._multicast_flag()), "INFO_REPLY with one unicast locator and an (empty) multicast list decodes");
    kani::cover!(r.is_err() && len == 36, "INFO_REPLY whose count exceeds the input is rejected");
    core::mem::forget(r);
}

// @check props=C07 tier=thorough
// @desc InfoReplySubmessage::try_from_bytes with room for one unicast and one multicast locator
// @bounds body 60 symbolic bytes, symbolic length; unwind 18
// @enc rtps_messages::submessages::info_reply::InfoReplySubmessage::try_from_bytes
#[kani::proof]
#[kani::unwind(18)]
fn c07_info_reply_full() {
    let h = any_header();
    let (bytes, len) = body!(60);
    let r = InfoReplySubmessage::try_from_bytes(&h, &bytes[..len]);
    if let Ok(m) = &r {
        let n = m._unicast_locator_list().value().len() + m._multicast_locator_list().value().len();
        assert!(4 + 24 * n <= len, "C07: INFO_REPLY decoded more locators than the input holds");
    }
    kani::cover!(matches!(&r, Ok(m) if m._unicast_locator_list().value().len() == 1 && m._multicast_locator_list().value().len() == 1), "one unicast + one multicast locator decode");
    kani::cover!(matches!(&r, Ok(m) if m._unicast_locator_list().value().len() == 2), "two unicast locators decode");
    core::mem::forget(r);
}
