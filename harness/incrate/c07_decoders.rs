// C07 — decoders are total. One harness per decoding unit: N fully symbolic bytes, a SYMBOLIC
// length (len <= N), and — because the submessage header is itself 4 symbolic bytes — both
// endianness flags, every flag combination, every submessage_length value.
// Oracle: the real decoder returns Ok or Err; Kani's panic / arithmetic-overflow / index /
// slice-bounds checks are on; where the decoder returns a collection whose size is driven by a
// count read from the wire, the size is asserted to be bounded by the input length.
//
// Genuine defects found here are kept as `__known` harnesses (restricted to the recorded trigger,
// expected to fail) next to `__rest` harnesses (negated trigger, must pass):
//   KF-C07-1  FragmentNumberSet::try_read_from_bytes: numBits > 256 -> index out of bounds
//   KF-C07-2  FragmentNumberSet::try_read_from_bytes: bitmapBase + delta overflows u32 (debug build)
//   KF-C07-3  String::cdr_deserialize: CDR string length 0 -> `length as usize - 1` underflow
use alloc::string::String;

use crate::dcps::data_representation_builtin_endpoints::rtps_data_representation::{
    CdrDeserialize, CdrDeserializer, CdrError, Endianness as CdrEndianness,
    ParameterList as DiscoveryParameterList,
};
use crate::dcps::data_representation_builtin_endpoints::spdp_discovered_participant_data::{
    BuiltinEndpointQos, BuiltinEndpointSet,
};
use crate::infrastructure::time::Duration;
use crate::rtps_messages::overall_structure::{Endianness, SubmessageHeaderRead, TryReadFromBytes};
use crate::rtps_messages::submessage_elements::{
    FragmentNumberSet, LocatorList, ParameterList, SequenceNumberSet,
};
use crate::rtps_messages::submessages::{
    ack_nack::AckNackSubmessage, data::DataSubmessage, data_frag::DataFragSubmessage,
    gap::GapSubmessage, heartbeat::HeartbeatSubmessage, heartbeat_frag::HeartbeatFragSubmessage,
    info_destination::InfoDestinationSubmessage, info_reply::InfoReplySubmessage,
    info_source::InfoSourceSubmessage, info_timestamp::InfoTimestampSubmessage,
    nack_frag::NackFragSubmessage, pad::PadSubmessage,
};
use crate::transport::types::{EntityId, Locator, ProtocolVersion};

/// A submessage header decoded by the real header decoder from 4 symbolic bytes: submessage id,
/// all 8 flags (bit 0 = endianness) and submessage_length are arbitrary.
fn any_header() -> SubmessageHeaderRead {
    let hb: [u8; 4] = kani::any();
    let mut h = &hb[..];
    match SubmessageHeaderRead::try_read_from_bytes(&mut h) {
        Ok(h) => h,
        Err(_) => {
            kani::assume(false);
            unreachable!()
        }
    }
}

fn any_endianness() -> Endianness {
    if kani::any() {
        Endianness::LittleEndian
    } else {
        Endianness::BigEndian
    }
}

fn rd_u32(b: &[u8], at: usize, e: &Endianness) -> u32 {
    let a = [b[at], b[at + 1], b[at + 2], b[at + 3]];
    match e {
        Endianness::LittleEndian => u32::from_le_bytes(a),
        Endianness::BigEndian => u32::from_be_bytes(a),
    }
}

fn rd_u16(b: &[u8], at: usize, e: &Endianness) -> u16 {
    let a = [b[at], b[at + 1]];
    match e {
        Endianness::LittleEndian => u16::from_le_bytes(a),
        Endianness::BigEndian => u16::from_be_bytes(a),
    }
}

macro_rules! body {
    ($n:expr) => {{
        let bytes: [u8; $n] = kani::any();
        let len: usize = kani::any();
        kani::assume(len <= $n);
        (bytes, len)
    }};
}

// ------------------------------------------------------------------------------------------
// submessage header
// ------------------------------------------------------------------------------------------

// @check props=C07 tier=quick
// @desc SubmessageHeaderRead::try_read_from_bytes on arbitrary bytes: Ok iff len >= 4, consumes exactly 4 bytes, decodes id/flags/length per the endianness flag; never panics
// @bounds 8 symbolic bytes, symbolic length 0..=8; no loops besides the 2-byte copy (unwind 4)
// @enc rtps_messages::overall_structure::SubmessageHeaderRead::try_read_from_bytes
#[kani::proof]
#[kani::unwind(4)]
fn c07_submessage_header() {
    let bytes: [u8; 8] = kani::any();
    let len: usize = kani::any();
    kani::assume(len <= 8);
    let mut data = &bytes[..len];
    let r = SubmessageHeaderRead::try_read_from_bytes(&mut data);
    match r {
        Ok(h) => {
            assert!(len >= 4, "C07: header decoded from < 4 bytes");
            assert!(data.len() == len - 4, "C07: header consumes exactly 4 bytes");
            assert!(h.submessage_id() == bytes[0], "C07: submessage id");
            let le = bytes[1] & 1 == 1;
            let want = if le {
                u16::from_le_bytes([bytes[2], bytes[3]])
            } else {
                u16::from_be_bytes([bytes[2], bytes[3]])
            };
            assert!(h.submessage_length() == want, "C07: submessage length per endianness flag");
            assert!(h.flags()[0] == le && h.flags()[7] == (bytes[1] & 0x80 != 0), "C07: flags");
            kani::cover!(le && want > 255, "little endian header");
            kani::cover!(!le && want > 255, "big endian header");
        }
        Err(_) => {
            assert!(len < 4, "C07: header of >= 4 bytes rejected");
            assert!(data.len() == len, "C07: failed header read consumes nothing");
            kani::cover!(len == 3, "short header rejected");
        }
    }
}

// ------------------------------------------------------------------------------------------
// submessages with a SequenceNumberSet
// ------------------------------------------------------------------------------------------

// @check props=C07 tier=quick
// @desc AckNackSubmessage::try_from_bytes on arbitrary header + arbitrary body bytes: Ok or Err, no panic
// @bounds body 32 symbolic bytes (reader id, writer id, set with <= 2 bitmap words, count), symbolic length; unwind 10 (bitmap loop <= 8, 4/8/12-byte copies)
// @enc rtps_messages::submessages::ack_nack::AckNackSubmessage::try_from_bytes
// @enc rtps_messages::submessage_elements::SequenceNumberSet::try_read_from_bytes
#[kani::proof]
#[kani::unwind(10)]
fn c07_acknack() {
    let h = any_header();
    let (bytes, len) = body!(32);
    let r = AckNackSubmessage::try_from_bytes(&h, &bytes[..len]);
    if r.is_ok() {
        assert!(len >= 24, "C07: ACKNACK decoded from fewer bytes than its fixed part");
    }
    kani::cover!(r.is_ok() && len == 32, "an ACKNACK with two bitmap words decodes");
    kani::cover!(r.is_err() && len == 32, "a full-length body is rejected");
    core::mem::forget(r);
}

// @check props=C07 tier=thorough
// @desc AckNackSubmessage::try_from_bytes, body long enough for the maximal 256-bit set
// @bounds body 56 symbolic bytes, symbolic length; unwind 10
// @enc rtps_messages::submessages::ack_nack::AckNackSubmessage::try_from_bytes
#[kani::proof]
#[kani::unwind(10)]
fn c07_acknack_full() {
    let h = any_header();
    let (bytes, len) = body!(56);
    let r = AckNackSubmessage::try_from_bytes(&h, &bytes[..len]);
    kani::cover!(r.is_ok() && len == 56, "an ACKNACK with 8 bitmap words decodes");
    core::mem::forget(r);
}

// @check props=C07 tier=quick
// @desc GapSubmessage::try_from_bytes on arbitrary header + body: Ok or Err, no panic
// @bounds body 36 symbolic bytes (ids, gap start, set with <= 2 bitmap words), symbolic length; unwind 10
// @enc rtps_messages::submessages::gap::GapSubmessage::try_from_bytes
#[kani::proof]
#[kani::unwind(10)]
fn c07_gap() {
    let h = any_header();
    let (bytes, len) = body!(36);
    let r = GapSubmessage::try_from_bytes(&h, &bytes[..len]);
    if r.is_ok() {
        assert!(len >= 28, "C07: GAP decoded from fewer bytes than its fixed part");
    }
    kani::cover!(r.is_ok() && len == 36, "a GAP with two bitmap words decodes");
    kani::cover!(r.is_err() && len == 36, "a full-length body is rejected");
    core::mem::forget(r);
}

// @check props=C07 tier=thorough
// @desc GapSubmessage::try_from_bytes, body long enough for the maximal 256-bit set
// @bounds body 60 symbolic bytes, symbolic length; unwind 10
// @enc rtps_messages::submessages::gap::GapSubmessage::try_from_bytes
#[kani::proof]
#[kani::unwind(10)]
fn c07_gap_full() {
    let h = any_header();
    let (bytes, len) = body!(60);
    let r = GapSubmessage::try_from_bytes(&h, &bytes[..len]);
    kani::cover!(r.is_ok() && len == 60, "a GAP with 8 bitmap words decodes");
    core::mem::forget(r);
}

// ------------------------------------------------------------------------------------------
// fixed-size submessages
// ------------------------------------------------------------------------------------------

// @check props=C07 tier=quick
// @desc HeartbeatSubmessage / HeartbeatFragSubmessage / InfoDestination / InfoSource / InfoTimestamp / Pad ::try_from_bytes on arbitrary header + body: Ok or Err, no panic; Ok only if the fixed-size body is present
// @bounds body 32 symbolic bytes, symbolic length; loop-free apart from <= 12-byte copies (unwind 14)
// @enc rtps_messages::submessages::heartbeat::HeartbeatSubmessage::try_from_bytes
// @enc rtps_messages::submessages::heartbeat_frag::HeartbeatFragSubmessage::try_from_bytes
// @enc rtps_messages::submessages::info_destination::InfoDestinationSubmessage::try_from_bytes
// @enc rtps_messages::submessages::info_source::InfoSourceSubmessage::try_from_bytes
// @enc rtps_messages::submessages::info_timestamp::InfoTimestampSubmessage::try_from_bytes
// @enc rtps_messages::submessages::pad::PadSubmessage::try_from_bytes
#[kani::proof]
#[kani::unwind(14)]
fn c07_fixed_size_submessages() {
    let h = any_header();
    let (bytes, len) = body!(32);
    let d = &bytes[..len];
    let hb = HeartbeatSubmessage::try_from_bytes(&h, d);
    assert!(hb.is_ok() == (len >= 28), "C07: HEARTBEAT decodes iff 28 body bytes are present");
    let hf = HeartbeatFragSubmessage::try_from_bytes(&h, d);
    assert!(hf.is_ok() == (len >= 24), "C07: HEARTBEAT_FRAG decodes iff 24 body bytes are present");
    let id = InfoDestinationSubmessage::try_from_bytes(&h, d);
    assert!(id.is_ok() == (len >= 12), "C07: INFO_DST decodes iff 12 body bytes are present");
    let is = InfoSourceSubmessage::try_from_bytes(&h, d);
    assert!(is.is_ok() == (len >= 20), "C07: INFO_SRC decodes iff 20 body bytes are present");
    let it = InfoTimestampSubmessage::try_from_bytes(&h, d);
    assert!(
        it.is_ok() == (h.flags()[1] || len >= 8),
        "C07: INFO_TS decodes iff invalidate flag or 8 body bytes"
    );
    let pad = PadSubmessage::try_from_bytes(&h, d);
    assert!(pad.is_ok(), "C07: PAD always decodes");
    kani::cover!(hb.is_ok() && !h.flags()[0], "big-endian heartbeat decodes");
    kani::cover!(hb.is_err() && len == 27, "short heartbeat rejected");
    kani::cover!(it.is_err(), "short timestamp rejected");
}

// ------------------------------------------------------------------------------------------
// DATA
// ------------------------------------------------------------------------------------------

/// Oracle shared by the DATA harnesses: Ok => fixed part present, payload and every decoded
/// inline-QoS parameter (count and first value) bounded by the input length.
fn check_data(h: &SubmessageHeaderRead, body: &[u8]) -> Result<DataSubmessage, ()> {
    let len = body.len();
    let r = DataSubmessage::try_from_bytes(h, body);
    match r {
        Ok(d) => {
            assert!(len >= 20, "C07: DATA decoded from fewer bytes than its fixed part");
            assert!(d.serialized_payload().len() <= len, "C07: DATA payload longer than the input");
            let np = d.inline_qos().parameter().len();
            assert!(np * 4 <= len, "C07: more inline-QoS parameters than input allows");
            if np >= 1 {
                assert!(
                    d.inline_qos().parameter()[0].value().len() + d.serialized_payload().len() <= len,
                    "C07: first parameter value + payload longer than the input"
                );
            }
            if !h.flags()[1] {
                assert!(np == 0, "C07: parameters decoded although the inline-QoS flag is clear");
            }
            if !h.flags()[2] && !h.flags()[3] {
                assert!(d.serialized_payload().len() == 0, "C07: payload decoded although D and K flags are clear");
            }
            Ok(d)
        }
        Err(_) => Err(()),
    }
}

// @check props=C07 tier=quick
// @desc DataSubmessage::try_from_bytes, inline-QoS flag clear: arbitrary other flags, arbitrary submessage_length (incl. 0 = to end of buffer), arbitrary octetsToInlineQos (payload may start anywhere) + arbitrary body: Ok or Err, no panic; payload size bounded by the body length
// @bounds body 28 symbolic bytes (20 fixed + 8 payload), symbolic length; loop-free (unwind 6)
// @assume header flag bit 1 (inline QoS) is 0 — the flag-set half is c07_data_inline_qos
// @enc rtps_messages::submessages::data::DataSubmessage::try_from_bytes
#[kani::proof]
#[kani::unwind(6)]
fn c07_data_no_inline_qos() {
    let h = any_header();
    kani::assume(!h.flags()[1]);
    let (bytes, len) = body!(28);
    let r = check_data(&h, &bytes[..len]);
    kani::cover!(matches!(&r, Ok(d) if d.serialized_payload().len() == 8), "DATA with an 8-byte payload decodes");
    kani::cover!(matches!(&r, Ok(d) if d.serialized_payload().len() == 3 && h.submessage_length() == 0), "DATA with submessage_length 0 and a payload not at the standard offset decodes");
    kani::cover!(r.is_err() && len == 28, "full-length DATA body rejected");
    core::mem::forget(r);
}

// @check props=C07 tier=quick
// @desc DataSubmessage::try_from_bytes, inline-QoS flag set, octetsToInlineQos = 16 (the standard offset), arbitrary other flags / submessage_length / body: Ok or Err, no panic; parameter count, first parameter value and payload bounded by the body length
// @bounds body 32 symbolic bytes (20 fixed + 12: one 4-byte parameter + sentinel, or sentinel + payload), symbolic length; unwind 5 (parameter loop <= 3 iterations)
// @assume header flag bit 1 (inline QoS) is 1 and the octetsToInlineQos field is 16 (arbitrary offsets: thorough tier c07_data_inline_qos_any_offset)
// @enc rtps_messages::submessages::data::DataSubmessage::try_from_bytes
// @enc rtps_messages::submessage_elements::ParameterList::try_read_from_bytes
#[kani::proof]
#[kani::unwind(5)]
fn c07_data_inline_qos() {
    let h = any_header();
    kani::assume(h.flags()[1]);
    let (bytes, len) = body!(32);
    kani::assume(rd_u16(&bytes, 2, h.endianness()) == 16);
    let r = check_data(&h, &bytes[..len]);
    kani::cover!(matches!(&r, Ok(d) if d.inline_qos().parameter().len() == 1 && d.inline_qos().parameter()[0].value().len() == 4), "DATA with one 4-byte parameter decodes");
    kani::cover!(matches!(&r, Ok(d) if d.inline_qos().parameter().len() == 0 && d.serialized_payload().len() > 0), "DATA with an empty parameter list and a payload decodes");
    kani::cover!(r.is_err() && len == 32, "full-length DATA body rejected");
    core::mem::forget(r);
}

// @check props=C07 tier=thorough timeout=1500
// @desc DataSubmessage::try_from_bytes, all flags, arbitrary octetsToInlineQos (the parameter list may start anywhere, also inside the fixed part), arbitrary submessage_length + body: Ok or Err, no panic; parameter count and payload bounded
// @bounds body 32 symbolic bytes, symbolic length; unwind 9 (parameter loop <= 32/4 iterations)
// @enc rtps_messages::submessages::data::DataSubmessage::try_from_bytes
// @enc rtps_messages::submessage_elements::ParameterList::try_read_from_bytes
#[kani::proof]
#[kani::unwind(9)]
fn c07_data_inline_qos_any_offset() {
    let h = any_header();
    let (bytes, len) = body!(32);
    let r = check_data(&h, &bytes[..len]);
    kani::cover!(matches!(&r, Ok(d) if d.inline_qos().parameter().len() >= 2), "DATA with two parameters decodes");
    kani::cover!(r.is_err() && len == 32, "full-length DATA body rejected");
    core::mem::forget(r);
}

// ------------------------------------------------------------------------------------------
// DATA_FRAG
// ------------------------------------------------------------------------------------------

fn check_data_frag(h: &SubmessageHeaderRead, body: &[u8]) -> Result<DataFragSubmessage, ()> {
    let len = body.len();
    let r = DataFragSubmessage::try_from_bytes(h, body);
    match r {
        Ok(d) => {
            assert!(len >= 32, "C07: DATA_FRAG decoded from fewer bytes than its fixed part");
            assert!(d.serialized_payload().as_ref().len() <= len, "C07: DATA_FRAG payload longer than the input");
            let np = d.inline_qos().parameter().len();
            assert!(np * 4 <= len, "C07: more inline-QoS parameters than input allows");
            if np >= 1 {
                assert!(
                    d.inline_qos().parameter()[0].value().len() + d.serialized_payload().as_ref().len() <= len,
                    "C07: first parameter value + payload longer than the input"
                );
            }
            if !h.flags()[1] {
                assert!(np == 0, "C07: parameters decoded although the inline-QoS flag is clear");
            }
            Ok(d)
        }
        Err(_) => Err(()),
    }
}

// @check props=C07 tier=quick
// @desc DataFragSubmessage::try_from_bytes, inline-QoS flag clear: arbitrary other flags, submessage_length (incl. 0 and values shorter than the fixed part), octetsToInlineQos, fragment fields + body: Ok or Err, no panic; payload bounded by the body length
// @bounds body 40 symbolic bytes (32 fixed + 8 payload), symbolic length; loop-free (unwind 6)
// @assume header flag bit 1 (inline QoS) is 0 — the flag-set half is c07_datafrag_inline_qos
// @enc rtps_messages::submessages::data_frag::DataFragSubmessage::try_from_bytes
#[kani::proof]
#[kani::unwind(6)]
fn c07_datafrag_no_inline_qos() {
    let h = any_header();
    kani::assume(!h.flags()[1]);
    let (bytes, len) = body!(40);
    let r = check_data_frag(&h, &bytes[..len]);
    kani::cover!(matches!(&r, Ok(d) if d.serialized_payload().as_ref().len() == 8), "DATA_FRAG with an 8-byte payload decodes");
    kani::cover!(matches!(&r, Ok(d) if d.fragment_size() == 0 && d.fragments_in_submessage() == 0), "DATA_FRAG with fragment size 0 decodes (the decoder does not validate fragment fields)");
    kani::cover!(r.is_err() && len == 40, "full-length DATA_FRAG body rejected");
    core::mem::forget(r);
}

// @check props=C07 tier=quick
// @desc DataFragSubmessage::try_from_bytes, inline-QoS flag set, octetsToInlineQos = 28 (standard offset), arbitrary other flags / submessage_length / fragment fields / body: Ok or Err, no panic; parameter count, first value and payload bounded
// @bounds body 44 symbolic bytes (32 fixed + 12), symbolic length; unwind 5 (parameter loop <= 3 iterations)
// @assume header flag bit 1 (inline QoS) is 1 and octetsToInlineQos field is 28 (arbitrary offsets: thorough tier c07_datafrag_inline_qos_any_offset)
// @enc rtps_messages::submessages::data_frag::DataFragSubmessage::try_from_bytes
// @enc rtps_messages::submessage_elements::ParameterList::try_read_from_bytes
#[kani::proof]
#[kani::unwind(5)]
fn c07_datafrag_inline_qos() {
    let h = any_header();
    kani::assume(h.flags()[1]);
    let (bytes, len) = body!(44);
    kani::assume(rd_u16(&bytes, 2, h.endianness()) == 28);
    let r = check_data_frag(&h, &bytes[..len]);
    kani::cover!(matches!(&r, Ok(d) if d.inline_qos().parameter().len() == 1 && d.inline_qos().parameter()[0].value().len() == 4), "DATA_FRAG with one 4-byte parameter decodes");
    kani::cover!(matches!(&r, Ok(d) if d.inline_qos().parameter().len() == 0 && d.serialized_payload().as_ref().len() > 0), "DATA_FRAG with an empty parameter list and a payload decodes");
    kani::cover!(r.is_err() && len == 44, "full-length DATA_FRAG body rejected");
    core::mem::forget(r);
}

// @check props=C07 tier=thorough timeout=1500
// @desc DataFragSubmessage::try_from_bytes, all flags, arbitrary octetsToInlineQos / submessage_length / body: Ok or Err, no panic
// @bounds body 40 symbolic bytes, symbolic length; unwind 11 (parameter loop <= 40/4 iterations)
// @enc rtps_messages::submessages::data_frag::DataFragSubmessage::try_from_bytes
#[kani::proof]
#[kani::unwind(11)]
fn c07_datafrag_inline_qos_any_offset() {
    let h = any_header();
    let (bytes, len) = body!(40);
    let r = check_data_frag(&h, &bytes[..len]);
    kani::cover!(matches!(&r, Ok(d) if d.inline_qos().parameter().len() >= 1), "DATA_FRAG with a parameter decodes");
    kani::cover!(r.is_err() && len == 40, "full-length DATA_FRAG body rejected");
    core::mem::forget(r);
}

// ------------------------------------------------------------------------------------------
// INFO_REPLY / LocatorList
// ------------------------------------------------------------------------------------------

fn check_info_reply(h: &SubmessageHeaderRead, body: &[u8]) -> Result<InfoReplySubmessage, ()> {
    let len = body.len();
    match InfoReplySubmessage::try_from_bytes(h, body) {
        Ok(m) => {
            let n = m._unicast_locator_list().value().len() + m._multicast_locator_list().value().len();
            assert!(4 + 24 * n <= len, "C07: INFO_REPLY decoded more locators than the input holds");
            Ok(m)
        }
        Err(_) => Err(()),
    }
}

// @check props=C07 tier=quick
// @desc InfoReplySubmessage::try_from_bytes on arbitrary header + body: Ok or Err, no panic; the number of decoded locators (driven by the numLocators counts on the wire, any u32) is bounded by (body length - 4) / 24
// @bounds body 32 symbolic bytes (count + one locator + second count), symbolic length; unwind 4 (each locator loop <= 2 iterations: a third locator cannot fit)
// @enc rtps_messages::submessages::info_reply::InfoReplySubmessage::try_from_bytes
// @enc rtps_messages::submessage_elements::LocatorList::try_read_from_bytes
#[kani::proof]
#[kani::unwind(4)]
fn c07_info_reply() {
    let h = any_header();
    let (bytes, len) = body!(32);
    let r = check_info_reply(&h, &bytes[..len]);
    kani::cover!(matches!(&r, Ok(m) if m._unicast_locator_list().value().len() == 1 && m._multicast_flag()), "INFO_REPLY with one unicast locator and an (empty) multicast list decodes");
    kani::cover!(r.is_err() && len == 32, "INFO_REPLY whose count exceeds the input is rejected");
    core::mem::forget(r);
}

// @check props=C07 tier=thorough
// @desc InfoReplySubmessage::try_from_bytes with room for one unicast and one multicast locator / two unicast locators
// @bounds body 60 symbolic bytes, symbolic length; unwind 5
// @enc rtps_messages::submessages::info_reply::InfoReplySubmessage::try_from_bytes
#[kani::proof]
#[kani::unwind(5)]
fn c07_info_reply_full() {
    let h = any_header();
    let (bytes, len) = body!(60);
    let r = check_info_reply(&h, &bytes[..len]);
    kani::cover!(matches!(&r, Ok(m) if m._unicast_locator_list().value().len() == 1 && m._multicast_locator_list().value().len() == 1), "one unicast + one multicast locator decode");
    kani::cover!(matches!(&r, Ok(m) if m._unicast_locator_list().value().len() == 2), "two unicast locators decode");
    core::mem::forget(r);
}

// ------------------------------------------------------------------------------------------
// submessage elements, called directly with a symbolic endianness
// ------------------------------------------------------------------------------------------

// @check props=C07 tier=quick
// @desc SequenceNumberSet::try_read_from_bytes on arbitrary bytes, both endiannesses: Ok implies numBits <= 256 and exactly 12 + 4*ceil(numBits/32) bytes consumed (<= input length); never panics
// @bounds 28 symbolic bytes (<= 4 bitmap words), symbolic length; unwind 10 (bitmap loop <= 8)
// @enc rtps_messages::submessage_elements::SequenceNumberSet::try_read_from_bytes
#[kani::proof]
#[kani::unwind(10)]
fn c07_sequence_number_set() {
    let e = any_endianness();
    let (bytes, len) = body!(28);
    let mut d = &bytes[..len];
    let r = SequenceNumberSet::try_read_from_bytes(&mut d, &e);
    if let Ok(s) = &r {
        assert!(len >= 12, "C07: SequenceNumberSet decoded from < 12 bytes");
        let nb = rd_u32(&bytes, 8, &e);
        assert!(nb <= 256, "C07: SequenceNumberSet with numBits > 256 accepted");
        let words = ((nb + 31) / 32) as usize;
        assert!(len - d.len() == 12 + 4 * words, "C07: SequenceNumberSet consumed a wrong number of bytes");
        let hi = rd_u32(&bytes, 0, &e) as i32 as i64;
        let lo = rd_u32(&bytes, 4, &e) as i64;
        assert!(s.base() == (hi << 32) + lo, "C07: SequenceNumberSet base");
    }
    kani::cover!(r.is_ok() && len == 28, "a set with 4 bitmap words decodes");
    kani::cover!(matches!(&r, Ok(s) if s.base() < 0), "a negative base decodes");
    kani::cover!(r.is_err() && len == 28, "a set whose numBits needs more words than present is rejected");
    core::mem::forget(r);
}

// @check props=C07 tier=thorough
// @desc SequenceNumberSet::try_read_from_bytes with room for the maximal 8 bitmap words
// @bounds 44 symbolic bytes, symbolic length; unwind 10
// @enc rtps_messages::submessage_elements::SequenceNumberSet::try_read_from_bytes
#[kani::proof]
#[kani::unwind(10)]
fn c07_sequence_number_set_full() {
    let e = any_endianness();
    let (bytes, len) = body!(44);
    let mut d = &bytes[..len];
    let r = SequenceNumberSet::try_read_from_bytes(&mut d, &e);
    if r.is_ok() {
        let nb = rd_u32(&bytes, 8, &e);
        assert!(nb <= 256, "C07: SequenceNumberSet with numBits > 256 accepted");
        assert!(len - d.len() == 12 + 4 * (((nb + 31) / 32) as usize), "C07: SequenceNumberSet consumed a wrong number of bytes");
    }
    kani::cover!(r.is_ok() && len == 44 && d.len() == 0, "a set with 8 bitmap words decodes");
    core::mem::forget(r);
}

// @check props=C07 tier=quick
// @desc LocatorList::try_read_from_bytes on arbitrary bytes, both endiannesses, numLocators any u32: Ok implies numLocators*24 + 4 bytes consumed <= input, list length == numLocators; never panics
// @bounds 32 symbolic bytes, symbolic length; unwind 4 (<= 2 loop iterations fit)
// @enc rtps_messages::submessage_elements::LocatorList::try_read_from_bytes
#[kani::proof]
#[kani::unwind(4)]
fn c07_locator_list() {
    let e = any_endianness();
    let (bytes, len) = body!(32);
    let mut d = &bytes[..len];
    let r = LocatorList::try_read_from_bytes(&mut d, &e);
    if let Ok(l) = &r {
        let n = rd_u32(&bytes, 0, &e) as usize;
        assert!(l.value().len() == n, "C07: LocatorList length differs from numLocators");
        assert!(4 + 24 * n <= len, "C07: LocatorList longer than the input allows");
        assert!(len - d.len() == 4 + 24 * n, "C07: LocatorList consumed a wrong number of bytes");
    }
    kani::cover!(matches!(&r, Ok(l) if l.value().len() == 1), "one locator decodes");
    kani::cover!(r.is_err() && len == 32, "a count larger than the input is rejected");
    core::mem::forget(r);
}

// @check props=C07 tier=quick
// @desc ParameterList::try_read_from_bytes (and the private Parameter reader under it) on arbitrary bytes, both endiannesses: Ok implies a sentinel was found, parameter count <= (len-4)/4 and every value length is a multiple of 4; never panics
// @bounds 20 symbolic bytes, symbolic length; unwind 7 (parameter loop <= 5 iterations)
// @enc rtps_messages::submessage_elements::ParameterList::try_read_from_bytes
#[kani::proof]
#[kani::unwind(7)]
fn c07_parameter_list() {
    let e = any_endianness();
    let (bytes, len) = body!(20);
    let mut d = &bytes[..len];
    let r = ParameterList::try_read_from_bytes(&mut d, &e);
    if let Ok(l) = &r {
        let n = l.parameter().len();
        assert!(len >= 4 && 4 * n <= len - 4, "C07: more parameters than the input allows");
        if n >= 1 {
            let v = l.parameter()[0].value().len();
            assert!(v % 4 == 0 && v <= len - 8, "C07: first parameter value length");
            assert!(l.parameter()[0].parameter_id() != 1, "C07: sentinel stored as a parameter");
        }
    }
    kani::cover!(matches!(&r, Ok(l) if l.parameter().len() == 2), "two parameters + sentinel decode");
    kani::cover!(matches!(&r, Ok(l) if l.parameter().len() == 1 && l.parameter()[0].value().len() == 8), "a parameter with an 8-byte value decodes");
    kani::cover!(r.is_err() && len == 20, "a list without sentinel is rejected");
    core::mem::forget(r);
}

// ------------------------------------------------------------------------------------------
// FragmentNumberSet / NACK_FRAG  (KF-C07-1, KF-C07-2)
// ------------------------------------------------------------------------------------------

/// numBits > 256: the bitmap reader stops after 8 words (`take`), the member loop does not.
fn fns_trigger_1(num_bits: u32) -> bool {
    num_bits > 256
}
/// base + (numBits - 1) does not fit in u32: `base + delta_n as u32` can overflow for a set bit.
fn fns_trigger_2(base: u32, num_bits: u32) -> bool {
    num_bits >= 1 && num_bits <= 256 && (base as u64) + (num_bits as u64 - 1) > u32::MAX as u64
}

// @check props=C07,C06 tier=quick known=KF-C07-1
// @desc KNOWN DEFECT: FragmentNumberSet::try_read_from_bytes with numBits > 256 and 8 bitmap words present indexes bitmap[256/32] out of bounds (no numBits <= 256 check, unlike SequenceNumberSet)
// @bounds 40 symbolic bytes: base arbitrary, numBits arbitrary > 256, bitmap words zero (so that no element is pushed before the out-of-bounds index is reached); unwind 259
// @assume trigger: numBits > 256, all 8 bitmap words zero, 40 bytes present
// @enc rtps_messages::submessage_elements::FragmentNumberSet::try_read_from_bytes
#[kani::proof]
#[kani::unwind(259)]
fn c07_fragment_number_set_numbits__known() {
    let e = any_endianness();
    let head: [u8; 8] = kani::any();
    let mut bytes = [0u8; 40];
    bytes[..8].copy_from_slice(&head);
    kani::assume(fns_trigger_1(rd_u32(&bytes, 4, &e)));
    let mut d = &bytes[..];
    let r = FragmentNumberSet::try_read_from_bytes(&mut d, &e);
    kani::cover!(r.is_ok(), "unreachable if the defect is present");
    core::mem::forget(r);
}

// @check props=C07,C06 tier=quick known=KF-C07-2
// @desc KNOWN DEFECT (builds with overflow checks): FragmentNumberSet::try_read_from_bytes computes `base + delta_n as u32` for every set bit; with bitmapBase close to u32::MAX the addition overflows
// @bounds 16 symbolic bytes (base, numBits <= 32, one bitmap word), unwind 35
// @assume trigger: 1 <= numBits <= 32 and base + numBits - 1 > u32::MAX
// @enc rtps_messages::submessage_elements::FragmentNumberSet::try_read_from_bytes
#[kani::proof]
#[kani::unwind(35)]
fn c07_fragment_number_set_base_overflow__known() {
    let e = any_endianness();
    let bytes: [u8; 16] = kani::any();
    let base = rd_u32(&bytes, 0, &e);
    let nb = rd_u32(&bytes, 4, &e);
    kani::assume(nb <= 32 && fns_trigger_2(base, nb));
    let mut d = &bytes[..];
    let r = FragmentNumberSet::try_read_from_bytes(&mut d, &e);
    kani::cover!(r.is_ok(), "inputs in the trigger region whose overflowing bit is clear still decode");
    core::mem::forget(r);
}

// @check props=C07 tier=quick
// @desc FragmentNumberSet::try_read_from_bytes outside the two recorded triggers: arbitrary bytes, both endiannesses: Ok or Err, no panic; Ok implies 8 + 4*ceil(numBits/32) bytes consumed
// @bounds 16 symbolic bytes, symbolic length, numBits <= 32 whenever 8 bytes are present (one bitmap word; member loops <= 32 iterations, unwind 35); larger numBits: thorough tier
// @assume NOT trigger KF-C07-1 (numBits > 256) and NOT trigger KF-C07-2 (base + numBits - 1 > u32::MAX); numBits <= 32
// @enc rtps_messages::submessage_elements::FragmentNumberSet::try_read_from_bytes
// @enc rtps_messages::submessage_elements::FragmentNumberSet::new
#[kani::proof]
#[kani::unwind(35)]
fn c07_fragment_number_set__rest() {
    let e = any_endianness();
    let (bytes, len) = body!(16);
    if len >= 8 {
        let base = rd_u32(&bytes, 0, &e);
        let nb = rd_u32(&bytes, 4, &e);
        kani::assume(!fns_trigger_1(nb) && !fns_trigger_2(base, nb));
        kani::assume(nb <= 32);
    }
    let mut d = &bytes[..len];
    let r = FragmentNumberSet::try_read_from_bytes(&mut d, &e);
    if let Ok(s) = &r {
        let nb = rd_u32(&bytes, 4, &e);
        assert!(len - d.len() == 8 + 4 * (((nb + 31) / 32) as usize), "C07: FragmentNumberSet consumed a wrong number of bytes");
        assert!(s.base() == rd_u32(&bytes, 0, &e), "C07: FragmentNumberSet base");
    }
    kani::cover!(r.is_ok() && len == 12 && rd_u32(&bytes, 4, &e) == 32, "a set with 32 bits decodes");
    kani::cover!(r.is_err() && len == 11, "a set with a truncated bitmap word is rejected");
    core::mem::forget(r);
}

// @check props=C07 tier=thorough timeout=1500
// @desc FragmentNumberSet::try_read_from_bytes outside the two recorded triggers with up to 3 bitmap words
// @bounds 20 symbolic bytes, symbolic length, numBits <= 96 (unwind 99)
// @assume NOT trigger KF-C07-1 and NOT trigger KF-C07-2; numBits <= 96
// @enc rtps_messages::submessage_elements::FragmentNumberSet::try_read_from_bytes
#[kani::proof]
#[kani::unwind(99)]
fn c07_fragment_number_set_wide__rest() {
    let e = any_endianness();
    let (bytes, len) = body!(20);
    if len >= 8 {
        let base = rd_u32(&bytes, 0, &e);
        let nb = rd_u32(&bytes, 4, &e);
        kani::assume(!fns_trigger_1(nb) && !fns_trigger_2(base, nb));
        kani::assume(nb <= 96);
    }
    let mut d = &bytes[..len];
    let r = FragmentNumberSet::try_read_from_bytes(&mut d, &e);
    kani::cover!(r.is_ok() && len == 20 && rd_u32(&bytes, 4, &e) == 96, "a set with 96 bits decodes");
    core::mem::forget(r);
}

// @check props=C07 tier=quick
// @desc NackFragSubmessage::try_from_bytes outside the two recorded FragmentNumberSet triggers: arbitrary header + body: Ok or Err, no panic; Ok only if the fixed part is present
// @bounds body 32 symbolic bytes (ids 8, writerSN 8, base 4, numBits 4, one bitmap word, count), symbolic length, numBits <= 32 (unwind 35)
// @assume NOT trigger KF-C07-1 and NOT trigger KF-C07-2; numBits <= 32
// @enc rtps_messages::submessages::nack_frag::NackFragSubmessage::try_from_bytes
#[kani::proof]
#[kani::unwind(35)]
fn c07_nack_frag__rest() {
    let h = any_header();
    let (bytes, len) = body!(32);
    if len >= 24 {
        let base = rd_u32(&bytes, 16, h.endianness());
        let nb = rd_u32(&bytes, 20, h.endianness());
        kani::assume(!fns_trigger_1(nb) && !fns_trigger_2(base, nb));
        kani::assume(nb <= 32);
    }
    let r = NackFragSubmessage::try_from_bytes(&h, &bytes[..len]);
    if r.is_ok() {
        assert!(len >= 28, "C07: NACK_FRAG decoded from fewer bytes than its fixed part");
    }
    kani::cover!(r.is_ok() && len == 32, "a NACK_FRAG with one bitmap word decodes");
    kani::cover!(r.is_err() && len == 32, "a full-length NACK_FRAG body is rejected");
    core::mem::forget(r);
}

// ------------------------------------------------------------------------------------------
// discovery parameter-list framing and CDR primitives (rtps_data_representation.rs)
// ------------------------------------------------------------------------------------------

fn any_cdr_endianness() -> CdrEndianness {
    if kani::any() {
        CdrEndianness::Little
    } else {
        CdrEndianness::Big
    }
}

// @check props=C07 tier=quick
// @desc CdrDeserialize primitives (u8, bool, i16, u16, i32, u32, [u8;2], [u8;3], [u8;16], Locator, ProtocolVersion, Duration, EntityId, BuiltinEndpointSet, BuiltinEndpointQos) on arbitrary bytes, both endiannesses, also after a 1-byte read so that the alignment padding path runs: Ok iff enough bytes, never panics
// @bounds 28 symbolic bytes, symbolic length; loop-free (unwind 4)
// @enc dcps::data_representation_builtin_endpoints::rtps_data_representation::CdrDeserialize::cdr_deserialize
// @enc dcps::data_representation_builtin_endpoints::rtps_data_representation::CdrDeserializer::seek_padding
#[kani::proof]
#[kani::unwind(4)]
fn c07_cdr_primitives() {
    let e = any_cdr_endianness();
    let (bytes, len) = body!(28);
    let d = &bytes[..len];
    macro_rules! rd {
        ($t:ty, $need:expr) => {{
            let r = <$t as CdrDeserialize>::cdr_deserialize(&mut CdrDeserializer::new(d, e));
            assert!(r.is_ok() == (len >= $need), "C07: CDR primitive decodes iff enough bytes");
            r
        }};
    }
    let _ = rd!(u8, 1);
    let _ = rd!(bool, 1);
    let _ = rd!(i16, 2);
    let u = rd!(u16, 2);
    let _ = rd!(i32, 4);
    let _ = rd!(u32, 4);
    let _ = rd!([u8; 2], 2);
    let _ = rd!([u8; 3], 3);
    let _ = rd!([u8; 16], 16);
    let loc = rd!(Locator, 24);
    let _ = rd!(ProtocolVersion, 2);
    let _ = rd!(Duration, 8);
    let _ = rd!(EntityId, 4);
    let _ = rd!(BuiltinEndpointSet, 4);
    let _ = rd!(BuiltinEndpointQos, 4);
    if let Ok(v) = u {
        let want = match e {
            CdrEndianness::Little => u16::from_le_bytes([bytes[0], bytes[1]]),
            CdrEndianness::Big => u16::from_be_bytes([bytes[0], bytes[1]]),
        };
        assert!(v == want, "C07: CDR u16 value");
    }
    // alignment: one octet, then a u32 (3 padding bytes), then a u16 (aligned), then an octet, then a u16 (1 padding byte)
    let mut de = CdrDeserializer::new(d, e);
    let a = u8::cdr_deserialize(&mut de);
    let b = u32::cdr_deserialize(&mut de);
    let c = u16::cdr_deserialize(&mut de);
    let f = u8::cdr_deserialize(&mut de);
    let g = u16::cdr_deserialize(&mut de);
    assert!(a.is_ok() == (len >= 1), "C07: octet");
    assert!(b.is_ok() == (len >= 8), "C07: u32 after an octet needs 3 padding bytes + 4");
    if b.is_ok() {
        assert!(c.is_ok() == (len >= 10) && f.is_ok() == (len >= 11) && g.is_ok() == (len >= 14), "C07: aligned reads after padding");
    }
    kani::cover!(loc.is_ok(), "a locator decodes");
    kani::cover!(matches!(b, Err(CdrError::NotEnoughData)) && len == 7, "padding + value running past the end is an error");
    kani::cover!(g.is_ok(), "the whole aligned sequence decodes");
}

/// Parameter list image with the 4-byte representation header forced to a supported value
/// (PL_CDR_BE / PL_CDR_LE) half of the time, arbitrary otherwise.
fn pl_bytes<const N: usize>() -> ([u8; N], usize) {
    let bytes: [u8; N] = kani::any();
    let len: usize = kani::any();
    kani::assume(len <= N);
    (bytes, len)
}

// @check props=C07 tier=quick
// @desc discovery ParameterList::new + get_optional_parameter / get_non_optional_parameter (PidIterator, seek_to_pid, endianness) for the scalar value types on arbitrary bytes and an arbitrary pid: Ok or Err, no panic; a value is only returned when the list has a supported representation header
// @bounds 20 symbolic bytes (header + up to 4 parameters), symbolic length, symbolic pid; unwind 7 (PidIterator <= 5 items)
// @enc dcps::data_representation_builtin_endpoints::rtps_data_representation::ParameterList::new
// @enc dcps::data_representation_builtin_endpoints::rtps_data_representation::ParameterList::get_optional_parameter
// @enc dcps::data_representation_builtin_endpoints::rtps_data_representation::ParameterList::get_non_optional_parameter
// @enc dcps::data_representation_builtin_endpoints::rtps_data_representation::PidIterator::next
#[kani::proof]
#[kani::unwind(7)]
fn c07_discovery_parameter_scalars() {
    let (bytes, len) = pl_bytes::<20>();
    let pid: i16 = kani::any();
    match DiscoveryParameterList::new(&bytes[..len]) {
        Err(_) => {
            assert!(len < 4, "C07: a parameter list of >= 4 bytes is rejected by new()");
        }
        Ok(pl) => {
            assert!(len >= 4, "C07: a parameter list of < 4 bytes accepted");
            let supported = bytes[1] == 2 || bytes[1] == 3;
            let a = pl.get_optional_parameter::<i32>(pid, 7);
            let b = pl.get_non_optional_parameter::<[u8; 2]>(pid);
            let c = pl.get_optional_parameter::<bool>(pid, false);
            let d = pl.get_optional_parameter::<Duration>(pid, Duration { sec: 0, nanosec: 0 });
            let f = pl.get_non_optional_parameter::<BuiltinEndpointSet>(pid);
            let g = pl.get_optional_parameter::<EntityId>(pid, EntityId { entity_key: [0; 3], entity_kind: 0 });
            if !supported {
                assert!(a.is_err() && b.is_err() && c.is_err() && d.is_err() && f.is_err() && g.is_err(), "C07: value returned from a list with an unsupported representation header");
            }
            kani::cover!(matches!(a, Ok(v) if v != 7) && bytes[1] == 2, "a big-endian i32 parameter is found and decoded");
            kani::cover!(matches!(a, Ok(7)) && matches!(b, Err(CdrError::PidNotFound(_))), "pid not found: default / PidNotFound");
            kani::cover!(matches!(d, Err(CdrError::NotEnoughData)), "a found parameter too short for its type is an error");
            kani::cover!(matches!(&d, Ok(v) if v.nanosec > 0) && bytes[1] == 3, "a little-endian Duration parameter is decoded");
        }
    }
}

// @check props=C07 tier=quick
// @desc discovery ParameterList::get_locator_list on arbitrary bytes, arbitrary pid: Ok or Err, no panic; the number of returned locators is bounded by (len - 4) / 28
// @bounds 36 symbolic bytes (header + one 24-byte locator parameter + 4), symbolic length; unwind 10 (PidIterator <= 9 items)
// @enc dcps::data_representation_builtin_endpoints::rtps_data_representation::ParameterList::get_locator_list
#[kani::proof]
#[kani::unwind(10)]
fn c07_discovery_locator_list() {
    let (bytes, len) = pl_bytes::<36>();
    kani::assume(len >= 4);
    let pid: i16 = kani::any();
    let pl = match DiscoveryParameterList::new(&bytes[..len]) {
        Ok(pl) => pl,
        Err(_) => {
            assert!(false, "C07: a parameter list of >= 4 bytes is rejected by new()");
            return;
        }
    };
    let r = pl.get_locator_list(pid);
    if let Ok(l) = &r {
        assert!(28 * l.len() + 4 <= len, "C07: more locators than the input allows");
    }
    kani::cover!(matches!(&r, Ok(l) if l.len() == 1), "one locator parameter is found and decoded");
    kani::cover!(matches!(&r, Ok(l) if l.is_empty()), "no parameter with that pid");
    kani::cover!(matches!(&r, Err(CdrError::NotEnoughData)), "a locator parameter shorter than 24 bytes is an error");
    core::mem::forget(r);
}

// @check props=C07,C06 tier=quick known=KF-C07-3
// @desc KNOWN DEFECT: a string-valued discovery parameter (PID_DOMAIN_TAG of SPDP participant data is read with get_optional_parameter::<String>) whose CDR length field is 0 makes String::cdr_deserialize compute `length as usize - 1`
// @bounds 16 bytes: representation header PL_CDR_LE or PL_CDR_BE (symbolic), parameter header (pid symbolic, length 4), CDR string length 0, sentinel; unwind 6
// @assume trigger: the parameter found for the requested pid has >= 4 value bytes and its CDR string length field is 0
// @enc dcps::data_representation_builtin_endpoints::rtps_data_representation::ParameterList::get_optional_parameter
// @enc dcps::data_representation_builtin_endpoints::rtps_data_representation::String::cdr_deserialize
#[kani::proof]
#[kani::unwind(6)]
fn c07_discovery_string_zero_length__known() {
    let le: bool = kani::any();
    let pid: i16 = kani::any();
    kani::assume(pid != 1 && pid != if le { 0x0300 } else { 0x0002 });
    let p = if le { pid.to_le_bytes() } else { pid.to_be_bytes() };
    let l = if le { 4u16.to_le_bytes() } else { 4u16.to_be_bytes() };
    let bytes: [u8; 16] = [
        0, if le { 3 } else { 2 }, 0, 0, // representation header
        p[0], p[1], l[0], l[1], // pid, length 4
        0, 0, 0, 0, // CDR string length 0
        if le { 1 } else { 0 }, if le { 0 } else { 1 }, 0, 0, // sentinel
    ];
    let pl = match DiscoveryParameterList::new(&bytes[..]) {
        Ok(pl) => pl,
        Err(_) => return,
    };
    let r = pl.get_optional_parameter::<String>(pid, String::new());
    kani::cover!(r.is_ok(), "unreachable if the defect is present");
    core::mem::forget(r);
}

// @check props=C07 tier=quick
// @desc String::cdr_deserialize outside the recorded trigger (length field != 0): arbitrary bytes, both endiannesses, length field any non-zero u32: Ok or Err, no panic; the decoded string is not longer than the input
// @bounds 10 symbolic bytes (length + up to 5 characters + terminator), symbolic length; unwind 12 (UTF-8 validation <= 6 bytes, byte copies)
// @assume NOT trigger KF-C07-3: if 4 bytes are present the CDR string length field is not 0
// @enc dcps::data_representation_builtin_endpoints::rtps_data_representation::String::cdr_deserialize
#[kani::proof]
#[kani::unwind(12)]
fn c07_cdr_string__rest() {
    let e = any_cdr_endianness();
    let (bytes, len) = body!(10);
    if len >= 4 {
        kani::assume(bytes[0] != 0 || bytes[1] != 0 || bytes[2] != 0 || bytes[3] != 0);
    }
    let r = String::cdr_deserialize(&mut CdrDeserializer::new(&bytes[..len], e));
    if let Ok(s) = &r {
        assert!(s.len() + 5 <= len, "C07: decoded string longer than the input allows");
    }
    kani::cover!(matches!(&r, Ok(s) if s.len() == 3), "a 3-character string decodes");
    kani::cover!(matches!(&r, Ok(s) if s.is_empty()), "the empty string (length 1) decodes");
    kani::cover!(matches!(&r, Err(CdrError::InvalidData)), "invalid UTF-8 is an error");
    kani::cover!(matches!(&r, Err(CdrError::NotEnoughData)) && len == 10, "a length larger than the input is an error");
    core::mem::forget(r);
}
