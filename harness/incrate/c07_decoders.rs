// C07 — decoders are total. One harness per decoding unit: N fully symbolic bytes, a SYMBOLIC
// length (len <= N), and — because the submessage header is itself 4 symbolic bytes — both
// endianness flags, every flag combination, every submessage_length value.
// Oracle: the real decoder returns Ok or Err; Kani's panic / arithmetic-overflow / index /
// slice-bounds checks are on; where the decoder returns a collection whose size is driven by a
// count read from the wire, the size is asserted to be bounded by the input length.
//
// Three defects found by these harnesses have been repaired in /repo (FragmentNumberSet numBits > 256,
// FragmentNumberSet / SequenceNumberSet members beyond the number range, CDR string length 0);
// the former trigger scenarios are now ordinary obligations asserting the rejection.
use alloc::string::String;

use crate::dcps::data_representation_builtin_endpoints::rtps_data_representation::{
    CdrDeserialize, CdrDeserializer, CdrError, Endianness as CdrEndianness,
    ParameterList as DiscoveryParameterList,
};
use crate::dcps::data_representation_builtin_endpoints::spdp_discovered_participant_data::{
    BuiltinEndpointQos, BuiltinEndpointSet,
};
use crate::infrastructure::time::Duration;
use crate::rtps_messages::overall_structure::{Endianness, SubmessageHeaderRead, TryReadFromBytes};
use crate::rtps_messages::submessage_elements::{
    FragmentNumberSet, LocatorList, ParameterList, SequenceNumberSet,
};
use crate::rtps_messages::submessages::{
    ack_nack::AckNackSubmessage, data::DataSubmessage, data_frag::DataFragSubmessage,
    gap::GapSubmessage, heartbeat::HeartbeatSubmessage, heartbeat_frag::HeartbeatFragSubmessage,
    info_destination::InfoDestinationSubmessage, info_reply::InfoReplySubmessage,
    info_source::InfoSourceSubmessage, info_timestamp::InfoTimestampSubmessage,
    nack_frag::NackFragSubmessage, pad::PadSubmessage,
};
use crate::transport::types::{EntityId, Locator, ProtocolVersion};

/// A submessage header decoded by the real header decoder from 4 symbolic bytes: submessage id,
/// all 8 flags (bit 0 = endianness) and submessage_length are arbitrary.
fn any_header() -> SubmessageHeaderRead {
    let hb: [u8; 4] = kani::any();
    let mut h = &hb[..];
    match SubmessageHeaderRead::try_read_from_bytes(&mut h) {
        Ok(h) => h,
        Err(_) => {
            kani::assume(false);
            unreachable!()
        }
    }
}

fn any_endianness() -> Endianness {
    if kani::any() {
        Endianness::LittleEndian
    } else {
        Endianness::BigEndian
    }
}

fn rd_u32(b: &[u8], at: usize, e: &Endianness) -> u32 {
    let a = [b[at], b[at + 1], b[at + 2], b[at + 3]];
    match e {
        Endianness::LittleEndian => u32::from_le_bytes(a),
        Endianness::BigEndian => u32::from_be_bytes(a),
    }
}

fn rd_u16(b: &[u8], at: usize, e: &Endianness) -> u16 {
    let a = [b[at], b[at + 1]];
    match e {
        Endianness::LittleEndian => u16::from_le_bytes(a),
        Endianness::BigEndian => u16::from_be_bytes(a),
    }
}

macro_rules! body {
    ($n:expr) => {{
        let bytes: [u8; $n] = kani::any();
        let len: usize = kani::any();
        kani::assume(len <= $n);
        (bytes, len)
    }};
}

// ------------------------------------------------------------------------------------------
// submessage header
// ------------------------------------------------------------------------------------------

// @check props=C07 tier=quick
// @desc SubmessageHeaderRead::try_read_from_bytes on arbitrary bytes: Ok iff len >= 4, consumes exactly 4 bytes, decodes id/flags/length per the endianness flag; never panics
// @bounds 8 symbolic bytes, symbolic length 0..=8; no loops besides the 2-byte copy (unwind 4)
// @enc rtps_messages::overall_structure::SubmessageHeaderRead::try_read_from_bytes
#[kani::proof]
#[kani::unwind(4)]
fn c07_submessage_header() {
    let bytes: [u8; 8] = kani::any();
    let len: usize = kani::any();
    kani::assume(len <= 8);
    let mut data = &bytes[..len];
    let r = SubmessageHeaderRead::try_read_from_bytes(&mut data);
    match r {
        Ok(h) => {
            assert!(len >= 4, "C07: header decoded from < 4 bytes");
            assert!(data.len() == len - 4, "C07: header consumes exactly 4 bytes");
            assert!(h.submessage_id() == bytes[0], "C07: submessage id");
            let le = bytes[1] & 1 == 1;
            let want = if le {
                u16::from_le_bytes([bytes[2], bytes[3]])
            } else {
                u16::from_be_bytes([bytes[2], bytes[3]])
            };
            assert!(h.submessage_length() == want, "C07: submessage length per endianness flag");
            assert!(h.flags()[0] == le && h.flags()[7] == (bytes[1] & 0x80 != 0), "C07: flags");
            kani::cover!(le && want > 255, "little endian header");
            kani::cover!(!le && want > 255, "big endian header");
        }
        Err(_) => {
            assert!(len < 4, "C07: header of >= 4 bytes rejected");
            assert!(data.len() == len, "C07: failed header read consumes nothing");
            kani::cover!(len == 3, "short header rejected");
        }
    }
}

// ------------------------------------------------------------------------------------------
// submessages with a SequenceNumberSet
// ------------------------------------------------------------------------------------------

// @check props=C07 tier=quick
// @desc AckNackSubmessage::try_from_bytes on arbitrary header + arbitrary body bytes: Ok or Err, no panic
// @bounds body 32 symbolic bytes (reader id, writer id, set with <= 2 bitmap words, count), symbolic length; unwind 10 (bitmap loop <= 8, 4/8/12-byte copies)
// @enc rtps_messages::submessages::ack_nack::AckNackSubmessage::try_from_bytes
// @enc rtps_messages::submessage_elements::SequenceNumberSet::try_read_from_bytes
#[kani::proof]
#[kani::unwind(10)]
fn c07_acknack() {
    let h = any_header();
    let (bytes, len) = body!(32);
    let r = AckNackSubmessage::try_from_bytes(&h, &bytes[..len]);
    if r.is_ok() {
        assert!(len >= 24, "C07: ACKNACK decoded from fewer bytes than its fixed part");
    }
    kani::cover!(r.is_ok() && len == 32, "an ACKNACK with two bitmap words decodes");
    kani::cover!(r.is_err() && len == 32, "a full-length body is rejected");
    core::mem::forget(r);
}

// @check props=C07 tier=thorough
// @desc AckNackSubmessage::try_from_bytes, body long enough for the maximal 256-bit set
// @bounds body 56 symbolic bytes, symbolic length; unwind 10
// @enc rtps_messages::submessages::ack_nack::AckNackSubmessage::try_from_bytes
#[kani::proof]
#[kani::unwind(10)]
fn c07_acknack_full() {
    let h = any_header();
    let (bytes, len) = body!(56);
    let r = AckNackSubmessage::try_from_bytes(&h, &bytes[..len]);
    kani::cover!(r.is_ok() && len == 56, "an ACKNACK with 8 bitmap words decodes");
    core::mem::forget(r);
}

// @check props=C07 tier=quick
// @desc GapSubmessage::try_from_bytes on arbitrary header + body: Ok or Err, no panic
// @bounds body 36 symbolic bytes (ids, gap start, set with <= 2 bitmap words), symbolic length; unwind 10
// @enc rtps_messages::submessages::gap::GapSubmessage::try_from_bytes
#[kani::proof]
#[kani::unwind(10)]
fn c07_gap() {
    let h = any_header();
    let (bytes, len) = body!(36);
    let r = GapSubmessage::try_from_bytes(&h, &bytes[..len]);
    if r.is_ok() {
        assert!(len >= 28, "C07: GAP decoded from fewer bytes than its fixed part");
    }
    kani::cover!(r.is_ok() && len == 36, "a GAP with two bitmap words decodes");
    kani::cover!(r.is_err() && len == 36, "a full-length body is rejected");
    core::mem::forget(r);
}

// @check props=C07 tier=thorough
// @desc GapSubmessage::try_from_bytes, body long enough for the maximal 256-bit set
// @bounds body 60 symbolic bytes, symbolic length; unwind 10
// @enc rtps_messages::submessages::gap::GapSubmessage::try_from_bytes
#[kani::proof]
#[kani::unwind(10)]
fn c07_gap_full() {
    let h = any_header();
    let (bytes, len) = body!(60);
    let r = GapSubmessage::try_from_bytes(&h, &bytes[..len]);
    kani::cover!(r.is_ok() && len == 60, "a GAP with 8 bitmap words decodes");
    core::mem::forget(r);
}

// ------------------------------------------------------------------------------------------
// fixed-size submessages
// ------------------------------------------------------------------------------------------

// @check props=C07 tier=quick
// @desc HeartbeatSubmessage / HeartbeatFragSubmessage / InfoDestination / InfoSource / InfoTimestamp / Pad ::try_from_bytes on arbitrary header + body: Ok or Err, no panic; Ok only if the fixed-size body is present
// @bounds body 32 symbolic bytes, symbolic length; loop-free apart from <= 12-byte copies (unwind 14)
// @enc rtps_messages::submessages::heartbeat::HeartbeatSubmessage::try_from_bytes
// @enc rtps_messages::submessages::heartbeat_frag::HeartbeatFragSubmessage::try_from_bytes
// @enc rtps_messages::submessages::info_destination::InfoDestinationSubmessage::try_from_bytes
// @enc rtps_messages::submessages::info_source::InfoSourceSubmessage::try_from_bytes
// @enc rtps_messages::submessages::info_timestamp::InfoTimestampSubmessage::try_from_bytes
// @enc rtps_messages::submessages::pad::PadSubmessage::try_from_bytes
#[kani::proof]
#[kani::unwind(14)]
fn c07_fixed_size_submessages() {
    let h = any_header();
    let (bytes, len) = body!(32);
    let d = &bytes[..len];
    let hb = HeartbeatSubmessage::try_from_bytes(&h, d);
    assert!(hb.is_ok() == (len >= 28), "C07: HEARTBEAT decodes iff 28 body bytes are present");
    let hf = HeartbeatFragSubmessage::try_from_bytes(&h, d);
    assert!(hf.is_ok() == (len >= 24), "C07: HEARTBEAT_FRAG decodes iff 24 body bytes are present");
    let id = InfoDestinationSubmessage::try_from_bytes(&h, d);
    assert!(id.is_ok() == (len >= 12), "C07: INFO_DST decodes iff 12 body bytes are present");
    let is = InfoSourceSubmessage::try_from_bytes(&h, d);
    assert!(is.is_ok() == (len >= 20), "C07: INFO_SRC decodes iff 20 body bytes are present");
    let it = InfoTimestampSubmessage::try_from_bytes(&h, d);
    assert!(
        it.is_ok() == (h.flags()[1] || len >= 8),
        "C07: INFO_TS decodes iff invalidate flag or 8 body bytes"
    );
    let pad = PadSubmessage::try_from_bytes(&h, d);
    assert!(pad.is_ok(), "C07: PAD always decodes");
    kani::cover!(hb.is_ok() && !h.flags()[0], "big-endian heartbeat decodes");
    kani::cover!(hb.is_err() && len == 27, "short heartbeat rejected");
    kani::cover!(it.is_err(), "short timestamp rejected");
}

// ------------------------------------------------------------------------------------------
// DATA / DATA_FRAG
//
// Measured (see the ptab entry): ParameterList::try_read_from_bytes does not scale in CBMC as soon
// as the slice it works on has a symbolic length or a symbolic start offset (8 fully symbolic
// bytes: 345 s / 5.4 GB; 12 bytes: > 10 GB), and a symbolic inline-QoS flag keeps that code in the
// formula. The obligations are therefore split:
//   * inline-QoS flag clear (every such flags octet enumerated concretely): body, body length,
//     submessage_length and octetsToInlineQos fully symbolic;
//   * inline-QoS flag set: a family of images whose *control* fields (flags octet, length fields,
//     sentinel position, slice end) are concrete and enumerated over every branch outcome of the
//     parser (well-formed with 0..3 parameters, missing sentinel, length not a multiple of 4,
//     length beyond the end, truncated header, empty region), everything else symbolic.
// ------------------------------------------------------------------------------------------

/// Submessage header with a CONCRETE flags octet, symbolic id and symbolic submessage_length.
fn header_with_flags(flags: u8) -> SubmessageHeaderRead {
    let id: u8 = kani::any();
    let l: [u8; 2] = kani::any();
    let hb = [id, flags, l[0], l[1]];
    let mut h = &hb[..];
    match SubmessageHeaderRead::try_read_from_bytes(&mut h) {
        Ok(h) => h,
        Err(_) => {
            kani::assume(false);
            unreachable!()
        }
    }
}

/// Submessage header with concrete flags octet and concrete submessage_length, symbolic id.
fn header_conc(flags: u8, len: u16) -> SubmessageHeaderRead {
    let id: u8 = kani::any();
    let l = if flags & 1 == 1 { len.to_le_bytes() } else { len.to_be_bytes() };
    let hb = [id, flags, l[0], l[1]];
    let mut h = &hb[..];
    match SubmessageHeaderRead::try_read_from_bytes(&mut h) {
        Ok(h) => h,
        Err(_) => {
            kani::assume(false);
            unreachable!()
        }
    }
}

fn put_u16(b: &mut [u8], at: usize, v: u16, le: bool) {
    let x = if le { v.to_le_bytes() } else { v.to_be_bytes() };
    b[at] = x[0];
    b[at + 1] = x[1];
}

/// One member of the inline-QoS image family: value lengths of the parameters, whether a
/// sentinel follows them, the end of the submessage relative to the start of the inline-QoS
/// region, and the expected verdict (Some(number of bytes after the list) = decodes).
struct QosCase {
    lengths: &'static [u16],
    sentinel: bool,
    end: usize,
    payload: Option<usize>,
}

const QOS_CASES: [QosCase; 13] = [
    QosCase { lengths: &[], sentinel: true, end: 4, payload: Some(0) },
    QosCase { lengths: &[], sentinel: true, end: 12, payload: Some(8) },
    QosCase { lengths: &[0], sentinel: true, end: 10, payload: Some(2) },
    QosCase { lengths: &[4], sentinel: true, end: 16, payload: Some(4) },
    QosCase { lengths: &[8], sentinel: true, end: 16, payload: Some(0) },
    QosCase { lengths: &[4, 4], sentinel: true, end: 24, payload: Some(4) },
    QosCase { lengths: &[0, 0, 0], sentinel: true, end: 16, payload: Some(0) },
    QosCase { lengths: &[4], sentinel: false, end: 8, payload: None }, // no sentinel before the end
    QosCase { lengths: &[3], sentinel: false, end: 24, payload: None }, // length not a multiple of 4
    QosCase { lengths: &[0xfffc], sentinel: false, end: 24, payload: None }, // length beyond the end
    QosCase { lengths: &[8], sentinel: false, end: 8, payload: None }, // value truncated
    QosCase { lengths: &[], sentinel: false, end: 2, payload: None }, // truncated parameter header
    QosCase { lengths: &[], sentinel: false, end: 0, payload: None }, // empty region
];

/// Parameter ids used by the family (the decoder only distinguishes the sentinel from the rest;
/// a symbolic id keeps the sentinel branch alive at every position and is not tractable).
const PIDS: [i16; 4] = [0x0070, 0x0071, -1, 0x7fff];

/// Lays the case out in `b` from `start`: parameter ids and lengths concrete, values symbolic,
/// then (if requested) the sentinel with a symbolic length field.
fn lay_out_qos(b: &mut [u8], start: usize, le: bool, c: &QosCase) {
    let mut off = start;
    for &l in c.lengths {
        if off + 4 > b.len() {
            break;
        }
        put_u16(b, off, PIDS[(off / 4) % 4] as u16, le);
        put_u16(b, off + 2, l, le);
        off += 4 + l as usize;
    }
    if c.sentinel && off + 4 <= b.len() {
        put_u16(b, off, 1, le);
    }
}

/// Oracle shared by the DATA harnesses: Ok => fixed part present, payload and every decoded
/// inline-QoS parameter (count and first value) bounded by the input length.
fn check_data(h: &SubmessageHeaderRead, body: &[u8]) -> Result<DataSubmessage, ()> {
    let len = body.len();
    let r = DataSubmessage::try_from_bytes(h, body);
    match r {
        Ok(d) => {
            assert!(len >= 20, "C07: DATA decoded from fewer bytes than its fixed part");
            assert!(d.serialized_payload().len() <= len, "C07: DATA payload longer than the input");
            let np = d.inline_qos().parameter().len();
            assert!(np * 4 <= len, "C07: more inline-QoS parameters than input allows");
            if np >= 1 {
                assert!(
                    d.inline_qos().parameter()[0].value().len() + d.serialized_payload().len() <= len,
                    "C07: first parameter value + payload longer than the input"
                );
            }
            if !h.flags()[1] {
                assert!(np == 0, "C07: parameters decoded although the inline-QoS flag is clear");
            }
            if !h.flags()[2] && !h.flags()[3] {
                assert!(d.serialized_payload().len() == 0, "C07: payload decoded although D and K flags are clear");
            }
            Ok(d)
        }
        Err(_) => Err(()),
    }
}

// @check props=C07 tier=quick
// @desc DataSubmessage::try_from_bytes, inline-QoS flag clear, for 2 flag octets (little-endian with D, big-endian with K): arbitrary submessage_length (incl. 0 = to end of buffer), arbitrary octetsToInlineQos (payload may start anywhere) + arbitrary body of arbitrary length: Ok or Err, no panic; payload size bounded by the body length
// @bounds body 28 symbolic bytes (20 fixed + 8 payload), symbolic length 0..=28; flags octet enumerated concretely: {0b0101, 0b1000} (E, D, K; Q = 0, N and unused bits 0; the other six E/D/K octets: thorough tier); unwind 3 (flag loop; the decoder is loop-free)
// @enc rtps_messages::submessages::data::DataSubmessage::try_from_bytes
#[kani::proof]
#[kani::unwind(3)]
fn c07_data_no_inline_qos() {
    for flags in [0b0101u8, 0b1000] {
        let h = header_with_flags(flags);
        let (bytes, len) = body!(28);
        let r = check_data(&h, &bytes[..len]);
        if flags == 0b0101 {
            kani::cover!(matches!(&r, Ok(d) if d.serialized_payload().len() == 8), "little-endian DATA with an 8-byte payload decodes");
            kani::cover!(r.is_err() && len == 28, "full-length DATA body rejected (octetsToInlineQos / submessage_length beyond the end)");
        }
        if flags == 0b1000 {
            kani::cover!(matches!(&r, Ok(d) if d.serialized_payload().len() == 3 && h.submessage_length() == 0), "big-endian key-only DATA with submessage_length 0 and a non-standard payload offset decodes");
        }
        core::mem::forget(r);
    }
}

/// Runs the DATA decoder over the family; member i is little-endian iff (i even) != swap, so the
/// quick harness (swap = false) and the thorough harness (swap = true) together cover both
/// endiannesses for every member.
fn data_family(swap: bool) {
    let mut i = 0usize;
    for c in &QOS_CASES {
        let le = (i % 2 == 0) != swap;
        i += 1;
        let mut b: [u8; 44] = kani::any();
        put_u16(&mut b, 2, 16, le);
        lay_out_qos(&mut b, 20, le, c);
        let end = 20 + c.end;
        let r = if le {
            // submessage_length = exact end; the bytes after it belong to the next submessage
            let h = header_conc(0b0111, end as u16);
            check_data(&h, &b[..])
        } else {
            // submessage_length = 0: the submessage extends to the end of the buffer
            let h = header_conc(0b0110, 0);
            check_data(&h, &b[..end])
        };
        match c.payload {
            Some(p) => {
                assert!(r.is_ok(), "C07: well-formed DATA with inline QoS rejected");
                if let Ok(d) = &r {
                    assert!(d.inline_qos().parameter().len() == c.lengths.len(), "C07: DATA inline-QoS parameter count");
                    assert!(d.serialized_payload().len() == p, "C07: DATA payload length after inline QoS");
                    if c.lengths.len() == 2 {
                        assert!(d.inline_qos().parameter()[1].value() == &b[32..36], "C07: second parameter value bytes");
                        kani::cover!(d.serialized_payload().as_ref()[3] == 0xAB, "payload bytes after two parameters are the wire bytes");
                    }
                }
            }
            None => assert!(r.is_err(), "C07: malformed inline QoS accepted"),
        }
        core::mem::forget(r);
    }
}

// @check props=C07 tier=quick
// @desc DataSubmessage::try_from_bytes, inline-QoS flag set, over the inline-QoS image family (0..3 parameters + sentinel + payload; missing sentinel; length not multiple of 4; length beyond end; truncated value / header; empty region): decodes exactly the well-formed members with the expected parameter count and payload length, rejects the others, never panics
// @bounds image 44 bytes: fixed part symbolic (ids, extraFlags, writerSN) with octetsToInlineQos = 16, parameter values and payload symbolic; control fields concrete: flags octet (Q,D set; E per member), parameter ids, parameter lengths in {0,3,4,8,0xfffc}, sentinel position, slice end; even members little-endian with submessage_length = exact end and trailing bytes after the submessage, odd members big-endian with submessage_length = 0 (to end of buffer); unwind 14 (13 family members; parameter loop <= 4)
// @assume control fields of the image are taken from the enumerated family (see QOS_CASES), not arbitrary
// @enc rtps_messages::submessages::data::DataSubmessage::try_from_bytes
// @enc rtps_messages::submessage_elements::ParameterList::try_read_from_bytes
// @enc rtps_messages::submessage_elements::Parameter::try_read_from_bytes
#[kani::proof]
#[kani::unwind(14)]
fn c07_data_inline_qos_family() {
    data_family(false);
}

// @check props=C07 tier=thorough
// @desc as c07_data_inline_qos_family with the endianness / submessage_length mode of every member swapped
// @bounds as c07_data_inline_qos_family; odd members little-endian, even members big-endian
// @assume control fields of the image are taken from the enumerated family (see QOS_CASES), not arbitrary
// @enc rtps_messages::submessages::data::DataSubmessage::try_from_bytes
#[kani::proof]
#[kani::unwind(14)]
fn c07_data_inline_qos_family_swapped() {
    data_family(true);
}

// @check props=C07 tier=thorough
// @desc DataSubmessage::try_from_bytes, inline-QoS flag clear, the 6 flag octets over {E, D, K} not covered in the quick tier (incl. D and K both clear: no payload)
// @bounds as c07_data_no_inline_qos; flags octets {0b0000, 0b0001, 0b0100, 0b1001, 0b1100, 0b1101}; unwind 7
// @enc rtps_messages::submessages::data::DataSubmessage::try_from_bytes
#[kani::proof]
#[kani::unwind(7)]
fn c07_data_no_inline_qos_other_flags() {
    for flags in [0b0000u8, 0b0001, 0b0100, 0b1001, 0b1100, 0b1101] {
        let h = header_with_flags(flags);
        let (bytes, len) = body!(28);
        let r = check_data(&h, &bytes[..len]);
        if flags == 0b0100 {
            kani::cover!(matches!(&r, Ok(d) if d.serialized_payload().len() == 8), "big-endian DATA with an 8-byte payload decodes");
        }
        core::mem::forget(r);
    }
}

// ------------------------------------------------------------------------------------------

fn check_data_frag(h: &SubmessageHeaderRead, body: &[u8]) -> Result<DataFragSubmessage, ()> {
    let len = body.len();
    let r = DataFragSubmessage::try_from_bytes(h, body);
    match r {
        Ok(d) => {
            assert!(len >= 32, "C07: DATA_FRAG decoded from fewer bytes than its fixed part");
            assert!(d.fragment_size() != 0, "C07: DATA_FRAG with fragmentSize 0 accepted");
            assert!(d.serialized_payload().as_ref().len() <= len, "C07: DATA_FRAG payload longer than the input");
            let np = d.inline_qos().parameter().len();
            assert!(np * 4 <= len, "C07: more inline-QoS parameters than input allows");
            if np >= 1 {
                assert!(
                    d.inline_qos().parameter()[0].value().len() + d.serialized_payload().as_ref().len() <= len,
                    "C07: first parameter value + payload longer than the input"
                );
            }
            if !h.flags()[1] {
                assert!(np == 0, "C07: parameters decoded although the inline-QoS flag is clear");
            }
            Ok(d)
        }
        Err(_) => Err(()),
    }
}

// @check props=C07 tier=quick
// @desc DataFragSubmessage::try_from_bytes, inline-QoS flag clear, for 2 flag octets (little-endian without K, big-endian with K): arbitrary submessage_length (incl. 0 and values shorter than the fixed part), octetsToInlineQos, fragment fields + arbitrary body of arbitrary length: Ok or Err, no panic; payload bounded by the body length
// @bounds body 40 symbolic bytes (32 fixed + 8 payload), symbolic length 0..=40; flags octet enumerated concretely: {0b0001, 0b0100} (E, K; Q = 0, N and unused bits 0; the other two: thorough tier); unwind 3
// @enc rtps_messages::submessages::data_frag::DataFragSubmessage::try_from_bytes
#[kani::proof]
#[kani::unwind(3)]
fn c07_datafrag_no_inline_qos() {
    for flags in [0b0001u8, 0b0100] {
        let h = header_with_flags(flags);
        let (bytes, len) = body!(40);
        let r = check_data_frag(&h, &bytes[..len]);
        if flags == 0b0001 {
            kani::cover!(matches!(&r, Ok(d) if d.serialized_payload().as_ref().len() == 8), "DATA_FRAG with an 8-byte payload decodes");
            kani::cover!(r.is_err() && len == 40 && bytes[26] == 0 && bytes[27] == 0 && h.submessage_length() == 0 && bytes[2] == 28 && bytes[3] == 0, "a complete DATA_FRAG with fragmentSize 0 is rejected");
            kani::cover!(r.is_err() && len == 40, "full-length DATA_FRAG body rejected");
        }
        if flags == 0b0100 {
            kani::cover!(matches!(&r, Ok(d) if h.submessage_length() == 8 && d.serialized_payload().as_ref().len() == 4), "big-endian DATA_FRAG whose submessage_length ends inside the fixed part decodes with a payload taken from the fixed part");
        }
        core::mem::forget(r);
    }
}

// @check props=C07 tier=thorough
// @desc DataFragSubmessage::try_from_bytes, inline-QoS flag clear, the 2 flag octets over {E, K} not covered in the quick tier
// @bounds as c07_datafrag_no_inline_qos; flags octets {0b0000, 0b0101}
// @enc rtps_messages::submessages::data_frag::DataFragSubmessage::try_from_bytes
#[kani::proof]
#[kani::unwind(3)]
fn c07_datafrag_no_inline_qos_other_flags() {
    for flags in [0b0000u8, 0b0101] {
        let h = header_with_flags(flags);
        let (bytes, len) = body!(40);
        let r = check_data_frag(&h, &bytes[..len]);
        if flags == 0b0101 {
            kani::cover!(matches!(&r, Ok(d) if d.serialized_payload().as_ref().len() == 8), "little-endian keyed DATA_FRAG with an 8-byte payload decodes");
        }
        core::mem::forget(r);
    }
}

fn datafrag_family(swap: bool) {
    let mut i = 0usize;
    for c in &QOS_CASES {
        let le = (i % 2 == 1) != swap;
        i += 1;
        let mut b: [u8; 56] = kani::any();
        put_u16(&mut b, 2, 28, le);
        lay_out_qos(&mut b, 32, le, c);
        let end = 32 + c.end;
        let r = if le {
            let h = header_conc(0b0011, end as u16);
            check_data_frag(&h, &b[..])
        } else {
            let h = header_conc(0b0010, 0);
            check_data_frag(&h, &b[..end])
        };
        let fsize = if le { u16::from_le_bytes([b[26], b[27]]) } else { u16::from_be_bytes([b[26], b[27]]) };
        match c.payload {
            Some(p) => {
                assert!(r.is_ok() == (fsize != 0), "C07: well-formed DATA_FRAG with inline QoS decodes iff fragmentSize != 0");
                if let Ok(d) = &r {
                    assert!(d.inline_qos().parameter().len() == c.lengths.len(), "C07: DATA_FRAG inline-QoS parameter count");
                    assert!(d.serialized_payload().as_ref().len() == p, "C07: DATA_FRAG payload length after inline QoS");
                    kani::cover!(c.lengths.len() == 3, "DATA_FRAG with three empty parameters decodes");
                }
            }
            None => assert!(r.is_err(), "C07: malformed inline QoS accepted"),
        }
        core::mem::forget(r);
    }
}

// @check props=C07 tier=quick
// @desc DataFragSubmessage::try_from_bytes, inline-QoS flag set, over the same inline-QoS image family: decodes exactly the well-formed members with the expected parameter count and payload length, rejects the others, never panics
// @bounds image 56 bytes: fixed part symbolic (ids, writerSN, fragment fields) with octetsToInlineQos = 28; odd members little-endian / exact submessage_length, even members big-endian / submessage_length 0; rest as in c07_data_inline_qos_family; unwind 14
// @assume control fields of the image are taken from the enumerated family (see QOS_CASES), not arbitrary
// @enc rtps_messages::submessages::data_frag::DataFragSubmessage::try_from_bytes
// @enc rtps_messages::submessage_elements::ParameterList::try_read_from_bytes
#[kani::proof]
#[kani::unwind(14)]
fn c07_datafrag_inline_qos_family() {
    datafrag_family(false);
}

// @check props=C07 tier=thorough
// @desc as c07_datafrag_inline_qos_family with the endianness / submessage_length mode of every member swapped
// @bounds as c07_datafrag_inline_qos_family, endianness swapped
// @assume control fields of the image are taken from the enumerated family (see QOS_CASES), not arbitrary
// @enc rtps_messages::submessages::data_frag::DataFragSubmessage::try_from_bytes
#[kani::proof]
#[kani::unwind(14)]
fn c07_datafrag_inline_qos_family_swapped() {
    datafrag_family(true);
}

// ------------------------------------------------------------------------------------------
// INFO_REPLY / LocatorList
// ------------------------------------------------------------------------------------------

fn check_info_reply(h: &SubmessageHeaderRead, body: &[u8]) -> Result<InfoReplySubmessage, ()> {
    let len = body.len();
    match InfoReplySubmessage::try_from_bytes(h, body) {
        Ok(m) => {
            let n = m._unicast_locator_list().value().len() + m._multicast_locator_list().value().len();
            assert!(4 + 24 * n <= len, "C07: INFO_REPLY decoded more locators than the input holds");
            Ok(m)
        }
        Err(_) => Err(()),
    }
}

// @check props=C07 tier=quick
// @desc InfoReplySubmessage::try_from_bytes on arbitrary header + body: Ok or Err, no panic; the number of decoded locators (driven by the numLocators counts on the wire, any u32) is bounded by (body length - 4) / 24
// @bounds body 32 symbolic bytes (count + one locator + second count), symbolic length; unwind 4 (each locator loop <= 2 iterations: a third locator cannot fit)
// @enc rtps_messages::submessages::info_reply::InfoReplySubmessage::try_from_bytes
// @enc rtps_messages::submessage_elements::LocatorList::try_read_from_bytes
#[kani::proof]
#[kani::unwind(4)]
fn c07_info_reply() {
    let h = any_header();
    let (bytes, len) = body!(32);
    let r = check_info_reply(&h, &bytes[..len]);
    kani::cover!(matches!(&r, Ok(m) if m._unicast_locator_list().value().len() == 1 && m._multicast_flag()), "INFO_REPLY with one unicast locator and an (empty) multicast list decodes");
    kani::cover!(r.is_err() && len == 32, "INFO_REPLY whose count exceeds the input is rejected");
    core::mem::forget(r);
}

// @check props=C07 tier=thorough
// @desc InfoReplySubmessage::try_from_bytes with room for one unicast and one multicast locator / two unicast locators
// @bounds body 60 symbolic bytes, symbolic length; unwind 5
// @enc rtps_messages::submessages::info_reply::InfoReplySubmessage::try_from_bytes
#[kani::proof]
#[kani::unwind(5)]
fn c07_info_reply_full() {
    let h = any_header();
    let (bytes, len) = body!(60);
    let r = check_info_reply(&h, &bytes[..len]);
    kani::cover!(matches!(&r, Ok(m) if m._unicast_locator_list().value().len() == 1 && m._multicast_locator_list().value().len() == 1), "one unicast + one multicast locator decode");
    kani::cover!(matches!(&r, Ok(m) if m._unicast_locator_list().value().len() == 2), "two unicast locators decode");
    core::mem::forget(r);
}

// ------------------------------------------------------------------------------------------
// submessage elements, called directly with a symbolic endianness
// ------------------------------------------------------------------------------------------

// @check props=C07 tier=quick
// @desc SequenceNumberSet::try_read_from_bytes on arbitrary bytes, both endiannesses: Ok implies numBits <= 256, base + numBits - 1 <= i64::MAX and exactly 12 + 4*ceil(numBits/32) bytes consumed (<= input length); never panics
// @bounds 28 symbolic bytes (<= 4 bitmap words), symbolic length; unwind 10 (bitmap loop <= 8)
// @enc rtps_messages::submessage_elements::SequenceNumberSet::try_read_from_bytes
#[kani::proof]
#[kani::unwind(10)]
fn c07_sequence_number_set() {
    let e = any_endianness();
    let (bytes, len) = body!(28);
    let mut d = &bytes[..len];
    let r = SequenceNumberSet::try_read_from_bytes(&mut d, &e);
    if let Ok(s) = &r {
        assert!(len >= 12, "C07: SequenceNumberSet decoded from < 12 bytes");
        let nb = rd_u32(&bytes, 8, &e);
        assert!(nb <= 256, "C07: SequenceNumberSet with numBits > 256 accepted");
        let words = ((nb + 31) / 32) as usize;
        assert!(len - d.len() == 12 + 4 * words, "C07: SequenceNumberSet consumed a wrong number of bytes");
        let hi = rd_u32(&bytes, 0, &e) as i32 as i64;
        let lo = rd_u32(&bytes, 4, &e) as i64;
        assert!(s.base() == (hi << 32) + lo, "C07: SequenceNumberSet base");
        assert!(nb == 0 || s.base().checked_add(nb as i64 - 1).is_some(), "C07: SequenceNumberSet whose last member exceeds i64::MAX accepted");
    }
    kani::cover!(r.is_ok() && len == 28, "a set with 4 bitmap words decodes");
    kani::cover!(matches!(&r, Ok(s) if s.base() < 0), "a negative base decodes");
    kani::cover!(r.is_err() && len == 28, "a set whose numBits needs more words than present is rejected");
    core::mem::forget(r);
}

// @check props=C07 tier=thorough
// @desc SequenceNumberSet::try_read_from_bytes with room for the maximal 8 bitmap words
// @bounds 44 symbolic bytes, symbolic length; unwind 10
// @enc rtps_messages::submessage_elements::SequenceNumberSet::try_read_from_bytes
#[kani::proof]
#[kani::unwind(10)]
fn c07_sequence_number_set_full() {
    let e = any_endianness();
    let (bytes, len) = body!(44);
    let mut d = &bytes[..len];
    let r = SequenceNumberSet::try_read_from_bytes(&mut d, &e);
    if r.is_ok() {
        let nb = rd_u32(&bytes, 8, &e);
        assert!(nb <= 256, "C07: SequenceNumberSet with numBits > 256 accepted");
        assert!(len - d.len() == 12 + 4 * (((nb + 31) / 32) as usize), "C07: SequenceNumberSet consumed a wrong number of bytes");
    }
    kani::cover!(r.is_ok() && len == 44 && d.len() == 0, "a set with 8 bitmap words decodes");
    core::mem::forget(r);
}

// @check props=C07 tier=quick
// @desc LocatorList::try_read_from_bytes on arbitrary bytes, both endiannesses, numLocators any u32: Ok implies numLocators*24 + 4 bytes consumed <= input, list length == numLocators; never panics
// @bounds 32 symbolic bytes, symbolic length; unwind 4 (<= 2 loop iterations fit)
// @enc rtps_messages::submessage_elements::LocatorList::try_read_from_bytes
#[kani::proof]
#[kani::unwind(4)]
fn c07_locator_list() {
    let e = any_endianness();
    let (bytes, len) = body!(32);
    let mut d = &bytes[..len];
    let r = LocatorList::try_read_from_bytes(&mut d, &e);
    if let Ok(l) = &r {
        let n = rd_u32(&bytes, 0, &e) as usize;
        assert!(l.value().len() == n, "C07: LocatorList length differs from numLocators");
        assert!(4 + 24 * n <= len, "C07: LocatorList longer than the input allows");
        assert!(len - d.len() == 4 + 24 * n, "C07: LocatorList consumed a wrong number of bytes");
    }
    kani::cover!(matches!(&r, Ok(l) if l.value().len() == 1), "one locator decodes");
    kani::cover!(r.is_err() && len == 32, "a count larger than the input is rejected");
    core::mem::forget(r);
}

// @check props=C07 tier=quick
// @desc ParameterList::try_read_from_bytes (and the private Parameter reader under it) over the inline-QoS image family (even members little-endian, odd members big-endian): Ok exactly for the well-formed members, with the expected parameter count, value bytes equal to the wire bytes and exactly the list consumed; Err for the others; never panics
// @bounds image 24 bytes; parameter values (and the sentinel's length field) symbolic; parameter ids, lengths, sentinel position and slice end concrete from the family; unwind 14
// @assume control fields of the image are taken from the enumerated family (see QOS_CASES), not arbitrary
// @enc rtps_messages::submessage_elements::ParameterList::try_read_from_bytes
// @enc rtps_messages::submessage_elements::Parameter::try_read_from_bytes
#[kani::proof]
#[kani::unwind(14)]
fn c07_parameter_list_family() {
    parameter_list_family(false);
}

// @check props=C07 tier=thorough
// @desc as c07_parameter_list_family with the endianness of every member swapped
// @bounds as c07_parameter_list_family
// @assume control fields of the image are taken from the enumerated family (see QOS_CASES), not arbitrary
// @enc rtps_messages::submessage_elements::ParameterList::try_read_from_bytes
#[kani::proof]
#[kani::unwind(14)]
fn c07_parameter_list_family_swapped() {
    parameter_list_family(true);
}

fn parameter_list_family(swap: bool) {
    let mut i = 0usize;
    for c in &QOS_CASES {
        let le = (i % 2 == 0) != swap;
        i += 1;
        let mut b: [u8; 24] = kani::any();
        lay_out_qos(&mut b, 0, le, c);
        let e = if le { Endianness::LittleEndian } else { Endianness::BigEndian };
        let mut d = &b[..c.end];
        let r = ParameterList::try_read_from_bytes(&mut d, &e);
        match c.payload {
            Some(p) => {
                assert!(r.is_ok(), "C07: well-formed parameter list rejected");
                if let Ok(l) = &r {
                    assert!(l.parameter().len() == c.lengths.len(), "C07: parameter count");
                    assert!(d.len() == p, "C07: bytes left after the sentinel");
                    if c.lengths.len() == 1 && c.lengths[0] == 8 {
                        assert!(l.parameter()[0].value() == &b[4..12], "C07: parameter value bytes");
                        kani::cover!(l.parameter()[0].value()[7] == 0x5A, "a parameter with an 8-byte value decodes to the wire bytes");
                    }
                }
            }
            None => assert!(r.is_err(), "C07: malformed parameter list accepted"),
        }
        core::mem::forget(r);
    }
}

// @parked (ParameterList::try_read_from_bytes on 8 fully symbolic bytes: out of 12 GB after 110 s in the final thorough run, 345 s / 5.4 GB in an earlier one; not indexed) props=C07 tier=thorough timeout=1500
// @desc ParameterList::try_read_from_bytes on FULLY symbolic bytes (ids, length fields, slice length all arbitrary), both endiannesses: Ok or Err, no panic; parameter count bounded by the input
// @bounds 8 symbolic bytes, symbolic length 0..=8 (measured 345 s / 5.4 GB; 12 bytes exceed 10 GB); unwind 4
// @enc rtps_messages::submessage_elements::ParameterList::try_read_from_bytes
// #[kani::proof]
// #[kani::unwind(4)]
#[allow(dead_code)]
fn c07_parameter_list_symbolic() {
    let e = any_endianness();
    let (bytes, len) = body!(8);
    let mut d = &bytes[..len];
    let r = ParameterList::try_read_from_bytes(&mut d, &e);
    if let Ok(l) = &r {
        assert!(len >= 4 && 4 * l.parameter().len() <= len - 4, "C07: more parameters than the input allows");
    }
    kani::cover!(matches!(&r, Ok(l) if l.parameter().len() == 1), "one empty parameter + sentinel decode");
    core::mem::forget(r);
}

// ------------------------------------------------------------------------------------------
// FragmentNumberSet / NACK_FRAG
//
// FragmentNumberSet::try_read_from_bytes materialises the members in a Vec::with_capacity(256)
// (conditional push per bit). With a symbolic bitmap the Vec length is symbolic at every push;
// measured: numBits <= 4 with a symbolic bitmap word already exceeds 9 GB. The sets are therefore
// checked with concrete numBits / bitmap patterns (the Vec length then stays concrete), a symbolic
// base and a symbolic input length.
// ------------------------------------------------------------------------------------------

/// numBits > 256 (more than the 8 bitmap words can describe).
fn fns_too_wide(num_bits: u32) -> bool {
    num_bits > 256
}
/// base + (numBits - 1) does not fit in u32: the last member would not be a fragment number.
fn fns_out_of_range(base: u32, num_bits: u32) -> bool {
    num_bits >= 1 && (base as u64) + (num_bits as u64 - 1) > u32::MAX as u64
}

fn put_u32(b: &mut [u8], at: usize, v: u32, le: bool) {
    let x = if le { v.to_le_bytes() } else { v.to_be_bytes() };
    b[at..at + 4].copy_from_slice(&x);
}

// @check props=C07,C06 tier=quick
// @desc FragmentNumberSet::try_read_from_bytes rejects sets it cannot represent (formerly an out-of-bounds index / an addition overflow, repaired in /repo): numBits 257 and 0xffffffff with any base, and numBits 3 / 256 with any base such that base + numBits - 1 > u32::MAX: Err, no panic, both endiannesses
// @bounds 40 bytes: base symbolic, numBits from {257, 0xffffffff, 3, 256} (concrete per call: with a symbolic numBits CBMC encodes the - unreachable - member loops and runs out of memory), bitmap words zero resp. 0xe0000000; unwind 5
// @assume base + numBits - 1 > u32::MAX in the two calls with numBits <= 256
// @enc rtps_messages::submessage_elements::FragmentNumberSet::try_read_from_bytes
#[kani::proof]
#[kani::unwind(5)]
fn c07_fragment_number_set_rejects_unrepresentable() {
    let base: u32 = kani::any();
    for (le, nb) in [(true, 257u32), (false, u32::MAX)] {
        assert!(fns_too_wide(nb));
        let mut bytes = [0u8; 40];
        put_u32(&mut bytes, 0, base, le);
        put_u32(&mut bytes, 4, nb, le);
        let e = if le { Endianness::LittleEndian } else { Endianness::BigEndian };
        let mut d = &bytes[..];
        let r = FragmentNumberSet::try_read_from_bytes(&mut d, &e);
        assert!(r.is_err(), "C07: FragmentNumberSet with numBits > 256 accepted");
        core::mem::forget(r);
    }
    for (le, nb) in [(false, 3u32), (true, 256)] {
        let b2: u32 = kani::any();
        kani::assume(fns_out_of_range(b2, nb));
        let mut bytes = [0u8; 40];
        put_u32(&mut bytes, 0, b2, le);
        put_u32(&mut bytes, 4, nb, le);
        put_u32(&mut bytes, 8, 0xe000_0000, le);
        let e = if le { Endianness::LittleEndian } else { Endianness::BigEndian };
        let mut d = &bytes[..];
        let r = FragmentNumberSet::try_read_from_bytes(&mut d, &e);
        assert!(r.is_err(), "C07: FragmentNumberSet with members beyond u32::MAX accepted");
        kani::cover!(nb == 3 && b2 == u32::MAX - 1, "base = u32::MAX - 1 with numBits = 3 is rejected");
        core::mem::forget(r);
    }
}

/// (numBits, bitmap word pattern): control concrete, so the member Vec length stays concrete.
const FNS_CASES: [(u32, u32); 9] = [
    (0, 0),
    (1, 0x8000_0000),
    (4, 0xa000_0000),
    (32, 0xffff_ffff),
    (33, 0xaaaa_aaaa),
    (64, 0x8000_0001),
    (255, 0x0000_0000),
    (256, 0xffff_ffff),
    (256, 0x0000_0001),
];

/// FragmentNumberSet image at `at` in `b`: symbolic base (any u32), concrete numBits / bitmap.
fn lay_out_fns(b: &mut [u8], at: usize, le: bool, nb: u32, pat: u32) -> (u32, usize) {
    let base: u32 = kani::any();
    put_u32(b, at, base, le);
    put_u32(b, at + 4, nb, le);
    let words = ((nb + 31) / 32) as usize;
    let mut w = 0;
    while w < words {
        put_u32(b, at + 8 + 4 * w, pat, le);
        w += 1;
    }
    (base, words)
}

fn fns_family(from: usize, to: usize) {
    let mut i = 0usize;
    for (nb, pat) in FNS_CASES {
        i += 1;
        if i <= from || i > to {
            continue;
        }
        let le = i % 2 == 0;
        let mut bytes: [u8; 40] = kani::any();
        let (base, words) = lay_out_fns(&mut bytes, 0, le, nb, pat);
        let e = if le { Endianness::LittleEndian } else { Endianness::BigEndian };
        let mut d = &bytes[..];
        let r = FragmentNumberSet::try_read_from_bytes(&mut d, &e);
        assert!(r.is_ok() == !fns_out_of_range(base, nb), "C07: FragmentNumberSet decodes iff its last member fits in u32");
        if let Ok(s) = &r {
            assert!(s.base() == base, "C07: FragmentNumberSet base");
            assert!(d.len() == 40 - 8 - 4 * words, "C07: FragmentNumberSet consumed a wrong number of bytes");
        }
        kani::cover!(r.is_ok() && nb >= 64 && base > 0x8000_0000, "a wide set with a large base decodes");
        core::mem::forget(r);
    }
}

// @check props=C07 tier=quick
// @desc FragmentNumberSet::try_read_from_bytes for numBits 0 / 1 / 4 / 32 / 33 / 64 with concrete bitmap patterns and ANY base: decodes iff base + numBits - 1 <= u32::MAX, base preserved, exact consumption, no panic
// @bounds members 1..6 of FNS_CASES in a 40-byte buffer; base any u32; trailing bytes symbolic; endianness alternating; unwind 66 (member loops <= 64)
// @assume numBits and bitmap pattern concrete from FNS_CASES (a symbolic bitmap makes the length of the member Vec symbolic at every push: 4 bits already exceed 9 GB)
// @enc rtps_messages::submessage_elements::FragmentNumberSet::try_read_from_bytes
// @enc rtps_messages::submessage_elements::FragmentNumberSet::new
#[kani::proof]
#[kani::unwind(66)]
fn c07_fragment_number_set_family() {
    fns_family(0, 6);
}

// @check props=C07 tier=thorough timeout=1500
// @desc FragmentNumberSet::try_read_from_bytes for the widest sets: numBits 255 / 256 with concrete bitmap patterns (empty, all ones, sparse), symbolic base
// @bounds members 7..9 of FNS_CASES; unwind 258
// @assume numBits and bitmap pattern concrete from FNS_CASES
// @enc rtps_messages::submessage_elements::FragmentNumberSet::try_read_from_bytes
#[kani::proof]
#[kani::unwind(258)]
fn c07_fragment_number_set_widest() {
    fns_family(6, 9);
}

// @check props=C07 tier=quick
// @desc FragmentNumberSet::try_read_from_bytes on truncated input: numBits 0 and 33 with an all-zero bitmap, symbolic base, input lengths {0,3,4,7,8,11,12,15,16}: decodes iff base, numBits and ceil(numBits/32) bitmap words are present; no panic
// @bounds 16-byte buffer, input length enumerated over every field boundary and one byte before it (concrete per call; a symbolic length did not terminate in 600 s), numBits 0 little-endian / 33 big-endian; unwind 35
// @assume numBits in {0, 33}, bitmap zero
// @enc rtps_messages::submessage_elements::FragmentNumberSet::try_read_from_bytes
#[kani::proof]
#[kani::unwind(35)]
fn c07_fragment_number_set_truncated() {
    for (le, nb) in [(true, 0u32), (false, 33)] {
        let mut bytes = [0u8; 16];
        let (_base, words) = lay_out_fns(&mut bytes, 0, le, nb, 0);
        let e = if le { Endianness::LittleEndian } else { Endianness::BigEndian };
        for len in [0usize, 3, 4, 7, 8, 11, 12, 15, 16] {
            let mut d = &bytes[..len];
            let r = FragmentNumberSet::try_read_from_bytes(&mut d, &e);
            assert!(r.is_ok() == (len >= 8 + 4 * words && !fns_out_of_range(_base, nb)), "C07: FragmentNumberSet decodes iff base, numBits and the bitmap words are present and the last member fits in u32");
            kani::cover!(r.is_err() && nb == 33 && len == 15, "a set with a truncated second bitmap word is rejected");
            kani::cover!(r.is_ok() && nb == 0 && len == 8, "an empty set decodes from exactly 8 bytes");
            core::mem::forget(r);
        }
    }
}

// @check props=C07 tier=quick
// @desc NackFragSubmessage::try_from_bytes: symbolic ids / writerSN / count / base, FragmentNumberSet control fields from the family (numBits 0, 4, 33), body lengths {full, one byte short of the count, without bitmap}: decodes iff the whole body is present and the set is representable, with the wire base; no panic
// @bounds body 36 bytes (ids 8, writerSN 8, set 8 + <= 8, count 4 + trailing); members 1, 3, 5 of FNS_CASES; body length from {36, 27 + 4*words, 20}; endianness alternating (flags octet concrete 0/1, submessage id and length symbolic); unwind 35
// @assume numBits and bitmap pattern concrete from FNS_CASES; body length from the enumerated set
// @enc rtps_messages::submessages::nack_frag::NackFragSubmessage::try_from_bytes
#[kani::proof]
#[kani::unwind(35)]
fn c07_nack_frag_family() {
    let mut i = 0usize;
    for (nb, pat) in [FNS_CASES[0], FNS_CASES[2], FNS_CASES[4]] {
        i += 1;
        let le = i % 2 == 1;
        let mut bytes: [u8; 36] = kani::any();
        let (base, words) = lay_out_fns(&mut bytes, 16, le, nb, pat);
        let h = header_with_flags(if le { 1 } else { 0 });
        for len in [36usize, 27 + 4 * words, 20] {
            let r = NackFragSubmessage::try_from_bytes(&h, &bytes[..len]);
            assert!(r.is_ok() == (len >= 28 + 4 * words && !fns_out_of_range(base, nb)), "C07: NACK_FRAG decodes iff its whole body is present and the set is representable");
            if let Ok(m) = &r {
                assert!(m.fragment_number_state().base() == base, "C07: NACK_FRAG set base");
            }
            kani::cover!(r.is_ok() && nb == 33, "a NACK_FRAG with two bitmap words decodes");
            kani::cover!(r.is_err() && len == 27, "a NACK_FRAG without count is rejected");
            core::mem::forget(r);
        }
    }
}

// ------------------------------------------------------------------------------------------
// discovery parameter-list framing and CDR primitives (rtps_data_representation.rs)
// ------------------------------------------------------------------------------------------

fn any_cdr_endianness() -> CdrEndianness {
    if kani::any() {
        CdrEndianness::Little
    } else {
        CdrEndianness::Big
    }
}

// @check props=C07 tier=quick
// @desc CdrDeserialize primitives (u8, bool, i16, u16, i32, u32, [u8;2], [u8;3], [u8;16], Locator, ProtocolVersion, Duration, EntityId, BuiltinEndpointSet, BuiltinEndpointQos) on arbitrary bytes, both endiannesses, also in sequence after a 1-byte read so that the alignment padding path runs: Ok iff enough bytes, never panics
// @bounds 28 symbolic bytes, symbolic length; loop-free (unwind 4)
// @enc dcps::data_representation_builtin_endpoints::rtps_data_representation::CdrDeserialize::cdr_deserialize
// @enc dcps::data_representation_builtin_endpoints::rtps_data_representation::CdrDeserializer::seek_padding
#[kani::proof]
#[kani::unwind(4)]
fn c07_cdr_primitives() {
    let e = any_cdr_endianness();
    let (bytes, len) = body!(28);
    let d = &bytes[..len];
    macro_rules! rd {
        ($t:ty, $need:expr) => {{
            let r = <$t as CdrDeserialize>::cdr_deserialize(&mut CdrDeserializer::new(d, e));
            assert!(r.is_ok() == (len >= $need), "C07: CDR primitive decodes iff enough bytes");
            r
        }};
    }
    let _ = rd!(u8, 1);
    let _ = rd!(bool, 1);
    let _ = rd!(i16, 2);
    let u = rd!(u16, 2);
    let _ = rd!(i32, 4);
    let _ = rd!(u32, 4);
    let _ = rd!([u8; 2], 2);
    let _ = rd!([u8; 3], 3);
    let _ = rd!([u8; 16], 16);
    let loc = rd!(Locator, 24);
    let _ = rd!(ProtocolVersion, 2);
    let _ = rd!(Duration, 8);
    let _ = rd!(EntityId, 4);
    let _ = rd!(BuiltinEndpointSet, 4);
    let _ = rd!(BuiltinEndpointQos, 4);
    if let Ok(v) = u {
        let want = match e {
            CdrEndianness::Little => u16::from_le_bytes([bytes[0], bytes[1]]),
            CdrEndianness::Big => u16::from_be_bytes([bytes[0], bytes[1]]),
        };
        assert!(v == want, "C07: CDR u16 value");
    }
    // alignment: one octet, then a u32 (3 padding bytes), then a u16 (aligned), then an octet,
    // then a u16 (1 padding byte); a failed read does not advance the position
    let mut de = CdrDeserializer::new(d, e);
    let a = u8::cdr_deserialize(&mut de);
    let b = u32::cdr_deserialize(&mut de);
    assert!(a.is_ok() == (len >= 1), "C07: octet");
    assert!(b.is_ok() == (len >= 8), "C07: u32 after an octet needs 3 padding bytes + 4");
    let mut g_ok = false;
    if b.is_ok() {
        let c = u16::cdr_deserialize(&mut de);
        assert!(c.is_ok() == (len >= 10), "C07: aligned u16 after padding");
        if c.is_ok() {
            let f = u8::cdr_deserialize(&mut de);
            assert!(f.is_ok() == (len >= 11), "C07: octet after u16");
            if f.is_ok() {
                let g = u16::cdr_deserialize(&mut de);
                assert!(g.is_ok() == (len >= 14), "C07: u16 after an octet needs 1 padding byte + 2");
                g_ok = g.is_ok();
            }
        }
    }
    kani::cover!(loc.is_ok(), "a locator decodes");
    kani::cover!(matches!(b, Err(CdrError::NotEnoughData)) && len == 7, "padding + value running past the end is an error");
    kani::cover!(g_ok, "the whole aligned sequence decodes");
}

// @check props=C07 tier=quick
// @desc discovery ParameterList::new + get_optional_parameter / get_non_optional_parameter (PidIterator, seek_to_pid, endianness) on arbitrary bytes and an arbitrary pid: Ok or Err, no panic; a value is only returned when the list has a supported representation header
// @bounds 16 symbolic bytes (representation header + up to 3 parameters), symbolic length, symbolic pid; value types i32 (optional, 4 bytes) and Duration (non-optional, 8 bytes); unwind 6 (PidIterator <= 4 items)
// @enc dcps::data_representation_builtin_endpoints::rtps_data_representation::ParameterList::new
// @enc dcps::data_representation_builtin_endpoints::rtps_data_representation::ParameterList::get_optional_parameter
// @enc dcps::data_representation_builtin_endpoints::rtps_data_representation::ParameterList::get_non_optional_parameter
// @enc dcps::data_representation_builtin_endpoints::rtps_data_representation::PidIterator::next
#[kani::proof]
#[kani::unwind(6)]
fn c07_discovery_parameter_scalars() {
    let (bytes, len) = body!(16);
    let pid: i16 = kani::any();
    match DiscoveryParameterList::new(&bytes[..len]) {
        Err(_) => {
            assert!(len < 4, "C07: a parameter list of >= 4 bytes is rejected by new()");
        }
        Ok(pl) => {
            assert!(len >= 4, "C07: a parameter list of < 4 bytes accepted");
            let supported = bytes[1] == 2 || bytes[1] == 3;
            let a = pl.get_optional_parameter::<i32>(pid, 7);
            let d = pl.get_non_optional_parameter::<Duration>(pid);
            if !supported {
                assert!(a.is_err() && d.is_err(), "C07: value returned from a list with an unsupported representation header");
            }
            kani::cover!(matches!(a, Ok(v) if v != 7) && bytes[1] == 2, "a big-endian i32 parameter is found and decoded");
            kani::cover!(matches!(a, Ok(7)) && matches!(d, Err(CdrError::PidNotFound(_))), "pid not found: default / PidNotFound");
            kani::cover!(matches!(d, Err(CdrError::NotEnoughData)), "a found parameter too short for its type is an error");
            kani::cover!(matches!(&d, Ok(v) if v.nanosec > 0) && bytes[1] == 3, "a little-endian Duration parameter is decoded");
        }
    }
}

// @check props=C07 tier=thorough timeout=1500
// @desc discovery ParameterList::get_locator_list on arbitrary bytes, arbitrary pid: Ok or Err, no panic; the number of returned locators is bounded by len / 28 (every returned locator consumed a 4-byte parameter header and 24 value bytes)
// @bounds 32 symbolic bytes (representation header + one 24-byte locator parameter), symbolic length 4..=32; unwind 9 (PidIterator <= 8 items)
// @enc dcps::data_representation_builtin_endpoints::rtps_data_representation::ParameterList::get_locator_list
#[kani::proof]
#[kani::unwind(9)]
fn c07_discovery_locator_list() {
    let (bytes, len) = body!(32);
    kani::assume(len >= 4);
    let pid: i16 = kani::any();
    let pl = match DiscoveryParameterList::new(&bytes[..len]) {
        Ok(pl) => pl,
        Err(_) => {
            assert!(false, "C07: a parameter list of >= 4 bytes is rejected by new()");
            return;
        }
    };
    let r = pl.get_locator_list(pid);
    if let Ok(l) = &r {
        assert!(28 * l.len() <= len, "C07: more locators than the input allows");
    }
    kani::cover!(matches!(&r, Ok(l) if l.len() == 1), "one locator parameter is found and decoded");
    kani::cover!(matches!(&r, Ok(l) if l.is_empty()), "no parameter with that pid");
    kani::cover!(matches!(&r, Err(CdrError::NotEnoughData)), "a locator parameter shorter than 24 bytes is an error");
    core::mem::forget(r);
}

/// Discovery parameter list image: representation header PL_CDR_LE / PL_CDR_BE, one parameter
/// `pid` with a `vlen`-byte value whose first 4 bytes are the CDR string length `slen`, sentinel.
fn string_parameter_image(le: bool, pid: i16, vlen: u16, slen: u32) -> [u8; 20] {
    let mut b: [u8; 20] = kani::any();
    b[0] = 0;
    b[1] = if le { 3 } else { 2 };
    b[2] = 0;
    b[3] = 0;
    put_u16(&mut b, 4, pid as u16, le);
    put_u16(&mut b, 6, vlen, le);
    put_u32(&mut b, 8, slen, le);
    let s = 8 + vlen as usize;
    if s + 4 <= 20 {
        put_u16(&mut b, s, 1, le);
        put_u16(&mut b, s + 2, 0, le);
    }
    b
}

const PID_DOMAIN_TAG: i16 = 0x4014;

/// Stub for the standard library's UTF-8 validation (its loops over a symbolic-length buffer are
/// what makes the String decoder intractable; std's validator itself is trusted, not checked).
fn utf8_accept_all(_v: &[u8]) -> Result<&str, core::str::Utf8Error> {
    Ok("")
}

// @check props=C07,C06 tier=quick
// @desc a string-valued discovery parameter (PID_DOMAIN_TAG of SPDP participant data, read with get_optional_parameter::<String>) whose CDR length field is 0 is rejected with InvalidData (formerly `length as usize - 1` underflowed and panicked; repaired in /repo), for both representation headers
// @bounds 20-byte parameter list image (PL_CDR_LE, PL_CDR_BE): PID_DOMAIN_TAG, value length 4, CDR string length 0, sentinel; unwind 6
// @assume stub: core::str::from_utf8 replaced by a function accepting every byte string (std's UTF-8 validator is trusted, not checked; its loops over a symbolic-length buffer are intractable)
// @enc dcps::data_representation_builtin_endpoints::rtps_data_representation::ParameterList::get_optional_parameter
// @enc dcps::data_representation_builtin_endpoints::rtps_data_representation::String::cdr_deserialize
#[kani::proof]
#[kani::unwind(6)]
#[kani::stub(core::str::from_utf8, utf8_accept_all)]
fn c07_discovery_string_zero_length_rejected() {
    for le in [true, false] {
        let bytes = string_parameter_image(le, PID_DOMAIN_TAG, 4, 0);
        match DiscoveryParameterList::new(&bytes[..16]) {
            Ok(pl) => {
                let r = pl.get_optional_parameter::<String>(PID_DOMAIN_TAG, String::new());
                assert!(matches!(r, Err(CdrError::InvalidData)), "C07: CDR string of length 0 not rejected");
                kani::cover!(r.is_err() && !le, "the big-endian zero-length string is rejected");
                core::mem::forget(r);
            }
            Err(_) => assert!(false, "C07: parameter list rejected by new()"),
        }
    }
}

// @check props=C07 tier=quick
// @desc String::cdr_deserialize for CDR lengths 0 (invalid), 1 (empty string), 3, 4 (exactly fills the buffer), 5 and 0xffffffff (beyond the buffer): Ok exactly when 1 <= length and length + 4 <= buffer, decoded length = CDR length - 1, no panic; character bytes symbolic
// @bounds 8-byte buffer, character / terminator bytes symbolic, CDR string length and endianness concrete per member (6 lengths, endianness alternating); unwind 7
// @assume CDR string length from {0, 1, 3, 4, 5, 0xffffffff}
// @assume stub: core::str::from_utf8 replaced by a function accepting every byte string (std's UTF-8 validator is trusted, not checked); the InvalidData branch for malformed UTF-8 is therefore not exercised
// @enc dcps::data_representation_builtin_endpoints::rtps_data_representation::String::cdr_deserialize
#[kani::proof]
#[kani::unwind(7)]
#[kani::stub(core::str::from_utf8, utf8_accept_all)]
fn c07_cdr_string() {
    let mut i = 0;
    for slen in [0u32, 1, 3, 4, 5, 0xffff_ffff] {
        i += 1;
        let le = i % 2 == 0;
        let mut bytes: [u8; 8] = kani::any();
        put_u32(&mut bytes, 0, slen, le);
        let e = if le { CdrEndianness::Little } else { CdrEndianness::Big };
        let r = String::cdr_deserialize(&mut CdrDeserializer::new(&bytes[..], e));
        assert!(r.is_ok() == (slen >= 1 && slen <= 4), "C07: CDR string decodes iff 1 <= length and length + 4 <= buffer");
        if let Ok(s) = &r {
            assert!(s.len() == slen as usize - 1, "C07: decoded string length");
            kani::cover!(slen == 3 && s.as_bytes()[0] == b'x', "a 2-character string decodes to the wire bytes");
        }
        kani::cover!(r.is_err() && slen == 0, "a CDR length of 0 is an error");
        core::mem::forget(r);
    }
}
