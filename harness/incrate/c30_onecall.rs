// C30 — cheapest participant-level variant that still says something: ONE call of
// check_missed_writer_deadline(now) on a participant with one writer / one instance, with
// MpscSender::send, DcpsStatusCondition::add_communication_state and String::clone replaced by recorders
// (support_part2.rs). Kept (parked) as the documented attempt; see the measured result in vlib/ptab/part2.py (C30).
use super::support_part2 as s2;
use super::support_participant as sp;
use crate::infrastructure::qos::DataWriterQos;
use crate::infrastructure::qos_policy::DeadlineQosPolicy;
use crate::infrastructure::status::StatusKind;
use crate::infrastructure::time::{Duration, DurationKind};

// PARKED (not run by ./check): measured 237 s then MiniSat out of memory at 12 GB (2026-09-23, reach checks off).
// @parked props=C30 tier=thorough
// @desc one call of check_missed_writer_deadline(now), one writer with one instance last written at a, deadline D > 0, writer listener mask enabling OFFERED_DEADLINE_MISSED: total_count becomes 1 iff now - a > D, exactly then one mail is sent on the writer's listener sender and the writer's status condition gets OFFERED_DEADLINE_MISSED; otherwise nothing is signalled
// @bounds one publisher, one writer, one instance, one call; a, now, D on the value grid seconds 0..=7 x nanoseconds {0, 1, 5*10^8, 10^9-1}
// @assume stub: MpscSender::send records the sender object and forgets the mail (real channel: C34); stub: DcpsStatusCondition::add_communication_state records (condition, status) (real condition: C32); stub: String::clone returns an empty String (listener handle names are in no claim)
// @assume topic/publisher/writer installed directly (support_part2.rs)
// @enc DcpsDomainParticipant::check_missed_writer_deadline
// #[kani::proof]
// #[kani::solver(minisat)]
// #[kani::unwind(2)]
// #[kani::stub(critical_section::acquire, super::support_cs::cs_acquire)]
// #[kani::stub(critical_section::release, super::support_cs::cs_release)]
// #[kani::stub(crate::dcps::channels::mpsc::MpscSender::send, super::support_part2::mpsc_send_recorder)]
// #[kani::stub(crate::dcps::status_condition::DcpsStatusCondition::add_communication_state, super::support_part2::add_state_recorder)]
// #[kani::stub(<alloc::string::String as core::clone::Clone>::clone, super::support_part2::string_clone_stub)]
fn c30_writer_one_call() {
    let cap = sp::Capture::new();
    let mut p = sp::participant(&cap, 0);
    s2::install_topic(&mut p);
    let d = s2::any_duration();
    kani::assume(d > Duration::new(0, 0));
    let a = s2::any_time();
    let (tx, rx) = s2::listener_channel();
    let mut qos = DataWriterQos::default();
    qos.deadline = DeadlineQosPolicy { period: DurationKind::Finite(d) };
    let mut w = s2::new_writer(qos, Some(tx), s2::mask_one(StatusKind::OfferedDeadlineMissed, true));
    w.registered_instance_info = alloc::vec![s2::writer_instance(s2::INSTANCE_H, Some(a))];
    s2::install_publisher(&mut p, None, sp::mask_from_bits(0), alloc::vec![w]);
    let now = s2::any_time();
    kani::assume(a <= now);
    let wa = s2::sender_addr(&p.domain_participant.user_defined_publisher_list[0].data_writer_list[0].listener_sender);
    let ca = s2::cond_addr(&p.domain_participant.user_defined_publisher_list[0].data_writer_list[0].status_condition);
    p.check_missed_writer_deadline(now);
    let k = p.domain_participant.user_defined_publisher_list[0].data_writer_list[0].offered_deadline_missed_status.total_count;
    assert!(k == if now - a > d { 1 } else { 0 }, "C30: one miss is counted iff a full deadline period has elapsed since the last write");
    assert!(s2::n_sends() as i32 == k, "C30: one listener mail per counted miss");
    assert!(s2::n_states() as i32 == k, "C30: the status condition is changed once per counted miss");
    if k == 1 {
        assert!(s2::send_at(0) == wa, "C30: the mail goes to the writer's own listener");
        assert!(s2::state_at(0) == (ca, s2::kind_bit(StatusKind::OfferedDeadlineMissed)), "C30: the writer's status condition gets OFFERED_DEADLINE_MISSED");
    }
    kani::cover!(k == 1, "a miss is counted");
    kani::cover!(k == 0 && now > a, "no miss inside the period");
    core::mem::forget(rx);
    core::mem::forget(p);
    core::mem::forget(cap);
}
