// C03 — wait_for_acknowledgments is sound and eventually completes.
//  (1) soundness kernel on the pure RTPS object: RtpsStatefulWriter::is_change_acknowledged over <= 3 reader proxies whose
//      acknowledgement state is produced by the real on_acknack_submessage_received;
//  (2) participant level: notify_acknowledgments (the message behind DataWriter::wait_for_acknowledgments) answers
//      immediately iff every reliable matched reader acknowledged the last written sample, otherwise parks the waiter;
//  (3) completion after the matched reliable reader departs (participant removal / reader disposal).
use super::support_cs;
use super::support_part1 as s1;
use super::support_participant as sp;
use super::support_rtps::{Discard, FixedClock};
use crate::dcps::channels::oneshot::{oneshot, OneshotReceiver};
use crate::dcps::dcps_domain_participant::participant_entity::DcpsDomainParticipant;
use crate::infrastructure::error::DdsResult;
use crate::infrastructure::instance::InstanceHandle;
use crate::infrastructure::qos::DataWriterQos;
use crate::rtps::stateful_writer::RtpsStatefulWriter;
use crate::rtps_messages::submessage_elements::SequenceNumberSet;
use crate::rtps_messages::submessages::ack_nack::AckNackSubmessage;
use crate::transport::types::{CacheChange, ChangeKind, EntityId, Guid, USER_DEFINED_READER_NO_KEY};
use alloc::sync::Arc;
use core::future::Future;
use core::pin::Pin;
use core::task::{Context, Poll};

const FOREIGN_PREFIX: [u8; 12] = [0x77; 12];

fn kernel(n: usize, deliveries: usize) -> (bool, i64, [bool; 3], bool) {
    let wguid = s1::writer_guid(0, 0);
    let mut w = RtpsStatefulWriter::new(wguid, 1344);
    let rel: [bool; 3] = kani::any();
    // n is a constant of the harness: the proxies are added by straight-line code
    w.add_matched_reader(s1::rtps_reader_proxy(s1::remote_reader_guid(1, 1), rel[0]));
    if n >= 2 {
        w.add_matched_reader(s1::rtps_reader_proxy(s1::remote_reader_guid(2, 1), rel[1]));
    }
    if n >= 3 {
        w.add_matched_reader(s1::rtps_reader_proxy(s1::remote_reader_guid(3, 1), rel[2]));
    }
    let mut level = [0i64; 3];
    let mut last_count = [0i32; 3];
    let mut accepted_any = false;
    let mut k = 0;
    while k < deliveries {
        let src: usize = kani::any();
        kani::assume(src <= 3);
        let rid_ok: bool = kani::any();
        let wid_ok: bool = kani::any();
        let base: i64 = kani::any();
        kani::assume(base >= 1);
        let count: i32 = kani::any();
        let prefix = if src < 3 { s1::remote_prefix(src as u8 + 1) } else { FOREIGN_PREFIX };
        let reader_id = if rid_ok { EntityId::new([0, 0, 1], USER_DEFINED_READER_NO_KEY) } else { EntityId::new([0, 0, 9], USER_DEFINED_READER_NO_KEY) };
        let writer_id = if wid_ok { wguid.entity_id() } else { s1::writer_entity_id(0, 5) };
        let m = AckNackSubmessage::new(true, reader_id, writer_id, SequenceNumberSet::new(base, []), count);
        let r = w.on_acknack_submessage_received(&m, prefix, &Discard, &FixedClock);
        let accepted = src < n && rid_ok && wid_ok && rel[src] && count > last_count[src];
        assert!(r.is_some() == accepted, "C03: ACKNACK accepted iff it names this writer, a matched reliable proxy, and is fresh");
        if accepted {
            assert!(r == Some(base - 1), "C03: acknowledged level is base-1");
            if base - 1 > level[src] {
                level[src] = base - 1;
            }
            last_count[src] = count;
            accepted_any = true;
        }
        k += 1;
    }
    let sn: i64 = kani::any();
    let mut expect = true;
    let mut j = 0;
    while j < n {
        if rel[j] && level[j] < sn {
            expect = false;
        }
        j += 1;
    }
    let got = w.is_change_acknowledged(sn);
    assert!(got == expect, "C03: is_change_acknowledged(sn) iff every matched RELIABLE reader acknowledged >= sn");
    core::mem::forget(w);
    (got, sn, rel, accepted_any)
}

// @check props=C03 tier=quick
// @desc soundness kernel, acknowledgement level of one proxy: a writer with ONE matched reader proxy (symbolic RELIABLE/BEST_EFFORT) receives two arbitrary ACKNACKs (source prefix of the proxy, of another participant or a foreign one, reader id / writer id right or wrong, symbolic base >= 1 and count). on_acknack_submessage_received accepts one iff it names this writer and the matched RELIABLE proxy and its count is fresh (greater than the last accepted count), and then returns base-1; the harness keeps the ghost level (max of the accepted base-1, initially 0). Afterwards is_change_acknowledged(sn) is true IF AND ONLY IF the proxy is best-effort or its level is >= sn, for every sn: the level only comes from base-1 of a fresh ACKNACK of that very reader, never decreases, and a success never precedes it
// @bounds 1 reader proxy; two ACKNACK deliveries; base in [1, i64::MAX], count full i32, sn full i64; writer history empty (is_change_acknowledged takes the sequence number as its argument and does not read the history)
// @assume ACKNACK readerSNState.base >= 1 (RTPS 8.3.5.5: sequence numbers are positive; `base - 1` on i64::MIN is an arithmetic overflow in the handler) and an empty bitmap (requested changes are C01's subject)
// @enc RtpsStatefulWriter::is_change_acknowledged
// @enc RtpsStatefulWriter::on_acknack_submessage_received
// @enc RtpsStatefulWriter::add_matched_reader
// @enc RtpsReaderProxy::acked_changes_set
// @enc RtpsReaderProxy::unacked_changes
#[kani::proof]
#[kani::unwind(4)]
fn c03_kernel_one_proxy() {
    s1::link_drop_glue();
    let (got, sn, rel, accepted_any) = kernel(1, 2);
    kani::cover!(got && sn >= 2 && rel[0], "acknowledged by a reliable reader");
    kani::cover!(!got && accepted_any, "an accepted ACKNACK that does not cover sn");
    kani::cover!(got && !rel[0] && sn > 0, "best-effort reader never blocks");
}

// @check props=C03 tier=quick
// @desc soundness kernel, quantification over the matched readers: a writer with 3 matched reader proxies of symbolic reliability, none of which has acknowledged anything: is_change_acknowledged(sn) is true IF AND ONLY IF sn <= 0 or no proxy is RELIABLE: every reliable reader blocks, best-effort readers never do
// @bounds 3 reader proxies; no ACKNACK delivered; sn full i64
// @enc RtpsStatefulWriter::is_change_acknowledged
// @enc RtpsStatefulWriter::add_matched_reader
#[kani::proof]
#[kani::unwind(5)]
fn c03_kernel_every_reliable_reader() {
    s1::link_drop_glue();
    let (got, sn, rel, _) = kernel(3, 0);
    kani::cover!(!got && !rel[0] && !rel[1] && rel[2], "blocked by the last reader only");
    kani::cover!(got && !rel[0] && !rel[1] && !rel[2] && sn > 0, "best-effort readers never block");
    kani::cover!(got && rel[0] && rel[1] && rel[2], "nothing to acknowledge (sn <= 0)");
}

// PARKED (not run, not claimed): two proxies + one ACKNACK: the proxy is selected through a symbolic pointer into the proxy list; 2 proxies x 2 ACKNACKs exhausted 10 GB, this reduced shape was not measured
// @parked props=C03 tier=thorough
// @desc soundness kernel as c03_kernel_one_proxy with 2 matched reader proxies and one arbitrary ACKNACK delivery (the proxy is then selected through a symbolic pointer)
// @bounds 2 reader proxies; one ACKNACK delivery; base in [1, i64::MAX], count full i32, sn full i64
// @assume ACKNACK readerSNState.base >= 1 and an empty bitmap
// @enc RtpsStatefulWriter::is_change_acknowledged
// @enc RtpsStatefulWriter::on_acknack_submessage_received
#[kani::proof]
#[kani::unwind(4)]
fn c03_kernel_two_proxies() {
    s1::link_drop_glue();
    let (got, sn, rel, accepted_any) = kernel(2, 1);
    kani::cover!(got && sn >= 2 && rel[0] && !rel[1], "acknowledged by the only reliable reader");
    kani::cover!(!got && accepted_any, "an accepted ACKNACK that does not cover sn");
}

// ---- participant level ---------------------------------------------------------------------------------------

// @check props=C03 tier=quick
// @desc notify_acknowledgments (the participant-side half of DataWriter::wait_for_acknowledgments) on a writer that has written `last` samples and is matched with one remote reader that acknowledged nothing: the waiter is parked in wait_for_acknowledgments_notification (no success before delivery) IF AND ONLY IF the reader is RELIABLE; with a BEST_EFFORT reader it is answered at once (the sender is consumed by `send(Ok(()))`, the only other arm of the function) - a success is never reported while a matched reliable reader has not acknowledged the last written sample
// @bounds one publisher and one writer installed directly, one matched reader (reliability symbolic), last in [1, i64::MAX]
// @assume publisher / writer installed directly with the state create_* + enable + `last` writes give them; the match is installed with the statements of the success branch of process_discovered_readers
// @assume stub: tracing LevelFilter::current() returns OFF (process without a tracing subscriber)
// @enc DcpsDomainParticipant::notify_acknowledgments
// @enc RtpsStatefulWriter::is_change_acknowledged
#[kani::proof]
#[kani::unwind(2)]
#[kani::stub(critical_section::acquire, super::support_cs::cs_acquire)]
#[kani::stub(critical_section::release, super::support_cs::cs_release)]
#[kani::stub(tracing::level_filters::LevelFilter::current, super::support_qos::tracing_off)]
fn c03_wait_registration() {
    s1::link_drop_glue();
    let cap = sp::Capture::new();
    let mut p = sp::participant(&cap, 0);
    let last: i64 = kani::any();
    kani::assume(last >= 1);
    let reliable: bool = kani::any();
    let mut w = s1::make_writer(0, 0, "A", DataWriterQos::const_default());
    s1::match_reader(&mut w, s1::remote_reader_guid(1, 1), reliable);
    w.writer.last_change_sequence_number = last;
    w.wait_for_acknowledgments_notification.reserve(1); // capacity is not observable; keeps the push below growth-free
    let wh = w.writer.instance_handle;
    let ph = s1::install_publisher_with(&mut p, Some(w));
    let (tx, rx) = oneshot::<DdsResult<()>>();
    core::mem::forget(rx);

    p.notify_acknowledgments(&ph, &wh, tx);

    let parked = p.domain_participant.user_defined_publisher_list[0].data_writer_list[0].wait_for_acknowledgments_notification.len();
    assert!(parked == reliable as usize, "C03: the waiter is parked (no success) iff a matched reliable reader has not acknowledged the last sample");
    kani::cover!(reliable, "parked behind a reliable reader");
    kani::cover!(!reliable, "best-effort reader: answered at once");
    core::mem::forget(p);
}

/// Removal of the participant of the only matched reliable reader (remove_discovered_participant: lease expiry / SPDP
/// disposal / ignore_participant) while a wait_for_acknowledgments waiter is parked (`pending`) or not.
/// The parked waiter is installed directly: `wait_for_acknowledgments_notification == [sender]` is exactly the state
/// notify_acknowledgments leaves behind an unacknowledging reliable reader (decided by c03_wait_registration).
/// A parked waiter is completed by `OneshotSender::send`, which consumes the sender: "the wait list is empty" is
/// "no waiter is left hanging" (completed, or dropped = answered with an error).
fn departure(pending: bool) {
    let cap = sp::Capture::new();
    let mut p = sp::participant(&cap, 0);
    let last: i64 = kani::any();
    kani::assume(last >= 1);
    let mut w = s1::make_writer(0, 0, "A", DataWriterQos::const_default());
    s1::match_reader(&mut w, s1::remote_reader_guid(1, 1), true);
    w.writer.last_change_sequence_number = last;
    assert!(!w.writer.transport_writer.is_change_acknowledged(last), "harness: the matched reliable reader holds back acknowledgement");
    if pending {
        let (tx, rx) = oneshot::<DdsResult<()>>();
        core::mem::forget(rx);
        w.wait_for_acknowledgments_notification.push(tx);
    }
    let _ph = s1::install_publisher_with(&mut p, Some(w));

    p.remove_discovered_participant(&s1::remote_participant_handle(1));

    let w = &p.domain_participant.user_defined_publisher_list[0].data_writer_list[0];
    assert!(w.matched_subscription_list.is_empty(), "C03: the departed reader is no longer matched");
    assert!(
        w.writer.transport_writer.is_change_acknowledged(last),
        "C03: after the only matched reliable reader departed no reader is left unacknowledged (a new wait_for_acknowledgments is answered at once)"
    );
    assert!(
        w.wait_for_acknowledgments_notification.is_empty(),
        "C03: a parked wait_for_acknowledgments is completed once the unacknowledging reader has departed"
    );
    kani::cover!(true, "end reached");
    core::mem::forget(p);
}

// PARKED (not run, not claimed): measured: CBMC out of memory at 10 GB (exit 6) after 260-290 s; the defect it encodes is listed in the family report as a reading finding
// @parked props=C03 tier=thorough known=KF-C03-1
// @desc KNOWN FINDING: a wait_for_acknowledgments waiter parked behind a matched reliable reader is NOT completed when that reader's participant is removed (remove_discovered_participant: lease expiry, SPDP disposal, ignore_participant): the RTPS reader proxy is deleted, so is_change_acknowledged(last) becomes true, but wait_for_acknowledgments_notification is drained only by the ACKNACK handler (communication_methods.rs) and no ACKNACK from the departed reader will ever arrive: the caller hangs until its own timeout
// @bounds one writer, one matched reliable reader, one parked waiter; last in [1, i64::MAX]
// @assume trigger: a waiter is parked at the time the reader's participant is removed
// @enc DcpsDomainParticipant::remove_discovered_participant
// @enc DcpsDomainParticipant::notify_acknowledgments
#[kani::proof]
#[kani::unwind(2)]
#[kani::stub(critical_section::acquire, super::support_cs::cs_acquire)]
#[kani::stub(critical_section::release, super::support_cs::cs_release)]
#[kani::stub(tracing::level_filters::LevelFilter::current, super::support_qos::tracing_off)]
fn c03_departure_participant_pending__known() {
    s1::link_drop_glue();
    departure(true);
}

// PARKED (not run, not claimed): measured: CBMC out of memory at 10 GB (exit 6) after 260-290 s; the defect it encodes is listed in the family report as a reading finding
// @parked props=C03 tier=thorough
// @desc sibling of KF-C03-1 with the trigger negated: the reader's participant is removed (remove_discovered_participant) while NO waiter is parked; afterwards the reader is unmatched, its RTPS proxy is gone and is_change_acknowledged(last) holds, i.e. (c03_wait_registration) a wait_for_acknowledgments issued after the departure is answered at once
// @bounds one writer, one matched reliable reader; last in [1, i64::MAX]
// @assume negated trigger: no waiter is parked at the time of the participant removal
// @enc DcpsDomainParticipant::remove_discovered_participant
// @enc DcpsDomainParticipant::notify_acknowledgments
#[kani::proof]
#[kani::unwind(2)]
#[kani::stub(critical_section::acquire, super::support_cs::cs_acquire)]
#[kani::stub(critical_section::release, super::support_cs::cs_release)]
#[kani::stub(tracing::level_filters::LevelFilter::current, super::support_qos::tracing_off)]
fn c03_departure__rest() {
    s1::link_drop_glue();
    departure(false);
}
