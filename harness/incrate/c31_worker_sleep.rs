// C31 — the DDS worker never oversleeps its periodic duties.
//
// The sleep computation is inline in the async worker closure of DomainParticipantFactoryAsync::new
// (dds/src/dds_async/domain_participant_factory.rs). vlib/gen/c31_slice.py re-extracts that statement
// block from /repo's CURRENT source on every run and wraps it, verbatim, in `gen_c31_slice::worker_sleep`
// whose six parameters are the six `time_until_*` bindings. The harnesses execute that function (so the
// repository's own `.min(..)` chain, `Duration`'s derived `Ord`, and `From<Duration> for core::time::Duration`)
// with symbolic inputs, and — for the inputs whose producers are cheap to drive — the real
// `DcpsDomainParticipant::time_until_*` functions on a real participant state.
// @needs gen:c31_slice
use super::gen_c31_slice as slice;
use super::support_participant as sp;
use crate::builtin_topics::{BuiltInTopicKey, ParticipantBuiltinTopicData};
use crate::dcps::dcps_domain_participant::participant_entity::DiscoveredParticipantInfo;
use crate::infrastructure::time::{Duration, Time};
use alloc::vec::Vec;

const POKE: core::time::Duration = core::time::Duration::from_millis(50);

// Any normalized Duration (nanosec < 10^9): `Duration::new` normalizes and every Add/Sub result is
// normalized (decided by C14), so this is the whole value space the time_until_* functions can produce.
fn any_duration() -> Duration {
    let sec: i32 = kani::any();
    let ns: u32 = kani::any();
    kani::assume(ns < 1_000_000_000);
    Duration::new(sec, ns)
}
fn any_time() -> Time {
    let sec: i32 = kani::any();
    let ns: u32 = kani::any();
    kani::assume(ns < 1_000_000_000);
    Time::new(sec, ns)
}
fn any_opt_duration() -> Option<Duration> {
    if kani::any() {
        Some(any_duration())
    } else {
        None
    }
}

// @check props=C31 tier=quick
// @desc for EVERY combination of the six time_until_* values (None or any normalized Duration, negative seconds included = duties already overdue when the sleep is computed) the delay the worker requests from the runtime timer is at most the 50 ms poke period
// @bounds none: six Option<Duration> over the full i32 x [0,10^9) domain; loop-free code
// @assume inputs are normalized Durations (nanosec < 10^9), which is what Duration::new / Add / Sub produce (C14)
// @enc dds_async::domain_participant_factory::DomainParticipantFactoryAsync::new (worker closure, sleep computation slice)
// @enc infrastructure::time::Duration (derived Ord, min)
// @enc <core::time::Duration as From<infrastructure::time::Duration>>::from
#[kani::proof]
fn c31_requested_sleep_at_most_poke_period() {
    let v: [Option<Duration>; slice::N_INPUTS] = [
        any_opt_duration(),
        any_opt_duration(),
        any_opt_duration(),
        any_opt_duration(),
        any_opt_duration(),
        any_opt_duration(),
    ];
    let requested = slice::worker_sleep_from_array(v);
    assert!(requested <= POKE, "C31: requested worker sleep is at most the 50 ms poke period");
    let zero = Duration::new(0, 0);
    kani::cover!(v[0].is_some_and(|d| d < zero), "an overdue (negative) reader-deadline value reaches the computation");
    kani::cover!(v[2].is_some_and(|d| d < zero) && v[3].is_none(), "an overdue lease with no lifespan value");
    kani::cover!(v.iter().all(|x| x.is_none()) && requested == POKE, "no duty pending: exactly one poke period");
    kani::cover!(requested == core::time::Duration::from_millis(7), "a 7 ms duty shortens the sleep");
}

// @check props=C31 tier=quick
// @desc monotone in its inputs: the requested delay is never later than any pending, not yet overdue duty (requested <= d for every Some(d) with d >= 0), so a duty is looked at no later than it is due
// @bounds none: six Option<Duration> over the full normalized domain
// @assume inputs are normalized Durations (nanosec < 10^9)
// @enc dds_async::domain_participant_factory::DomainParticipantFactoryAsync::new (worker closure, sleep computation slice)
#[kani::proof]
fn c31_requested_sleep_not_after_any_duty() {
    let v: [Option<Duration>; slice::N_INPUTS] = [
        any_opt_duration(),
        any_opt_duration(),
        any_opt_duration(),
        any_opt_duration(),
        any_opt_duration(),
        any_opt_duration(),
    ];
    let requested = slice::worker_sleep_from_array(v);
    let zero = Duration::new(0, 0);
    let mut k = 0;
    while k < slice::N_INPUTS {
        if let Some(d) = v[k] {
            if d >= zero {
                let due: core::time::Duration = core::time::Duration::new(d.sec() as u64, d.nanosec());
                assert!(requested <= due, "C31: worker wakes no later than each pending duty is due");
            } else {
                assert!(requested == core::time::Duration::ZERO, "C31: an overdue duty is handled immediately");
            }
        }
        k += 1;
    }
    kani::cover!(v[4].is_some_and(|d| d >= zero && d < Duration::new(0, 50_000_000)), "blocked-write timeout inside the poke period");
}

fn discovered(lease: Duration, last: Time) -> DiscoveredParticipantInfo {
    DiscoveredParticipantInfo {
        dds_participant_data: ParticipantBuiltinTopicData {
            key: BuiltInTopicKey { value: [7; 16] },
            user_data: Default::default(),
        },
        guid_prefix: [7; 12],
        default_unicast_locator_list: Vec::new(),
        default_multicast_locator_list: Vec::new(),
        lease_duration: lease,
        last_communication_timestamp: last,
    }
}

// @check props=C31 tier=quick
// @desc end to end for the lease duty: a real participant with one discovered participant (symbolic lease, symbolic last-communication time) and a symbolic clock reading `now >= last`: the value the real time_until_stale_participant(now) returns, pushed through the worker's sleep computation, requests at most 50 ms — in particular when the lease is already overdue at that clock reading (the reading is taken after remove_stale_participants ran with an earlier one)
// @bounds one discovered participant; lease, last, now over the full normalized domain with 0 <= last <= now, lease >= 0
// @assume clock readings are non-negative and non-decreasing (last_communication_timestamp <= now); lease_duration >= 0
// @enc DcpsDomainParticipant::time_until_stale_participant
// @enc <Time as Sub<Time>>::sub
// @enc <Duration as Sub<Duration>>::sub
#[kani::proof]
#[kani::unwind(20)]
#[kani::stub(critical_section::acquire, super::support_cs::cs_acquire)]
#[kani::stub(critical_section::release, super::support_cs::cs_release)]
fn c31_overdue_lease_sleep() {
    let cap = sp::Capture::new();
    let mut p = sp::participant(&cap, 0);
    let lease = any_duration();
    let last = any_time();
    let now = any_time();
    let zero = Duration::new(0, 0);
    kani::assume(lease >= zero && last >= Time::new(0, 0) && now >= last);
    p.domain_participant.discovered_participant_list.push(discovered(lease, last));
    let t = p.time_until_stale_participant(now);
    assert!(t.is_some(), "C31: a discovered participant yields a lease duty");
    let requested = slice::worker_sleep(None, None, t, None, None, None);
    assert!(requested <= POKE, "C31: requested worker sleep is at most the 50 ms poke period (lease duty)");
    if now - last > lease {
        assert!(requested == core::time::Duration::ZERO, "C31: an overdue lease is handled immediately");
    }
    kani::cover!(t.is_some_and(|d| d < zero), "lease already overdue at this clock reading (negative time_until)");
    kani::cover!(t.is_some_and(|d| d > Duration::new(1, 0)), "lease far in the future");
    core::mem::forget(p);
}
