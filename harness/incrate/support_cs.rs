// Shared support: Kani cannot resolve critical-section's `extern "Rust"` acquire/release symbols,
// so every harness that reaches `critical_section::with` (channels, status conditions, embassy
// channel) stubs them with these no-ops:
//
//   #[kani::stub(critical_section::acquire, super::support_cs::cs_acquire)]
//   #[kani::stub(critical_section::release, super::support_cs::cs_release)]
//
// This is sound for the sequential schedules Kani explores: a critical section is exactly a block
// that no other operation interleaves with (stated in the evidence of each harness using it).
pub fn cs_acquire() -> critical_section::RestoreState {
    critical_section::RestoreState::invalid()
}
pub fn cs_release(_r: critical_section::RestoreState) {}

use alloc::sync::Arc;
use alloc::task::Wake;
use core::sync::atomic::{AtomicUsize, Ordering};
use core::task::Waker;

/// A waker that counts how often it was woken.
/// `wake(self: Arc<Self>)` forgets its `Arc` instead of dropping it: the reference count of the
/// counter object only grows on that path, so the solver does not have to explore
/// `Arc::drop_slow` / deallocation of the counter at every wake-up (measured: the counter's drop
/// glue was the largest single contributor to the formula). The counter is never freed; the
/// harnesses `forget` their objects at the end anyway.
pub struct CountWake(pub AtomicUsize);
impl Wake for CountWake {
    fn wake(self: Arc<Self>) {
        self.0.fetch_add(1, Ordering::SeqCst);
        core::mem::forget(self);
    }
    fn wake_by_ref(self: &Arc<Self>) {
        self.0.fetch_add(1, Ordering::SeqCst);
    }
}
pub fn counting_waker() -> (Arc<CountWake>, Waker) {
    let cw = Arc::new(CountWake(AtomicUsize::new(0)));
    let w = Waker::from(cw.clone());
    (cw, w)
}
pub fn wakes(cw: &Arc<CountWake>) -> usize {
    cw.0.load(Ordering::SeqCst)
}

// ---- reference-count stub (used by the channel / status-condition schedules) -------------------
// `AtomicUsize::fetch_sub` is what `Arc::drop` / `Weak::drop` use to decide "was this the last
// reference?". In a symbolic schedule every reference count is a symbolic value after the first
// merge, so CBMC explores `Arc::drop_slow` (destruction of the shared channel state: VecDeque and
// Waker drop glue, layout computation, deallocation) at EVERY drop of a sender / receiver / waker /
// receive-future, although it can only happen once, after the last handle is gone and nobody can
// observe the channel any more (measured: these drop_slow explorations are > 60 % of the formula).
// The stub performs the decrement but reports "other references exist" (2): shared state behind an
// `Arc` is never destroyed or freed — exactly the behaviour of a program that keeps one forgotten
// clone of every `Arc`. The `Drop` impls of the channel types themselves (OneshotSender,
// NotificationSender) are executed for real; only the destructor of the *shared inner state* and the
// deallocation are outside the claim (as for every harness: objects are `forget`-ed at the end).
pub fn fetch_sub_never_last(a: &AtomicUsize, val: usize, _order: Ordering) -> usize {
    let old = a.load(Ordering::SeqCst);
    a.store(old.wrapping_sub(val), Ordering::SeqCst);
    2
}

// ---- allocator stub (used by the mpsc FIFO harness with `u8` values) ----------------------------
// `alloc::raw_vec::min_non_zero_cap` is called at run time only by `RawVecInner::grow_amortized`,
// i.e. at the start of the amortized growth of a full Vec / VecDeque buffer, before the new buffer
// is allocated. CBMC does not constant-propagate the queue length through the `Arc`-allocated
// channel state, so it explores `VecDeque::grow` at every send (new allocation of symbolic size +
// memcpy of symbolic length: measured > 10 GB for 3 sends) although growth is infeasible for 3 sends
// into a queue created with capacity 64. This stub makes "the buffer never grows within the bound"
// a CHECKED obligation (it panics; the panic is one more assertion that the solver must prove
// unreachable), not an assumption, and removes the allocation of the new buffer from the formula.
pub fn growth_unreachable(_elem_size: usize) -> usize {
    panic!("VERIF: amortized buffer growth reached (more elements than the initial capacity)")
}

// Same function for harnesses whose Vecs must perform their FIRST allocation (capacity 0 -> 4 / 8)
// in a concrete warm-up prefix: faithful copy of `min_non_zero_cap` (library/alloc/src/raw_vec/
// mod.rs: 8 for 1-byte elements, 4 up to 1 KiB, else 1 — any value >= 1 is a correct growth
// policy) until `arm_growth_check()` is called; afterwards amortized growth is asserted unreachable.
static GROWTH_ARMED: core::sync::atomic::AtomicBool = core::sync::atomic::AtomicBool::new(false);
pub fn arm_growth_check() {
    GROWTH_ARMED.store(true, Ordering::SeqCst);
}
pub fn min_non_zero_cap_checked(size: usize) -> usize {
    if GROWTH_ARMED.load(Ordering::SeqCst) {
        panic!("VERIF: amortized buffer growth reached after the warm-up (more elements than the warmed-up capacity)")
    }
    if size == 1 {
        8
    } else if size <= 1024 {
        4
    } else {
        1
    }
}
