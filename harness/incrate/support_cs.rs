// Shared support: Kani cannot resolve critical-section's `extern "Rust"` acquire/release symbols,
// so every harness that reaches `critical_section::with` (channels, status conditions, embassy
// channel) stubs them with these no-ops:
//
//   #[kani::stub(critical_section::acquire, super::support_cs::cs_acquire)]
//   #[kani::stub(critical_section::release, super::support_cs::cs_release)]
//
// This is sound for the sequential schedules Kani explores: a critical section is exactly a block
// that no other operation interleaves with (stated in the evidence of each harness using it).
pub fn cs_acquire() -> critical_section::RestoreState {
    critical_section::RestoreState::invalid()
}
pub fn cs_release(_r: critical_section::RestoreState) {}

use alloc::sync::Arc;
use alloc::task::Wake;
use core::sync::atomic::{AtomicUsize, Ordering};
use core::task::Waker;

/// A waker that counts how often it was woken.
pub struct CountWake(pub AtomicUsize);
impl Wake for CountWake {
    fn wake(self: Arc<Self>) {
        self.0.fetch_add(1, Ordering::SeqCst);
    }
    fn wake_by_ref(self: &Arc<Self>) {
        self.0.fetch_add(1, Ordering::SeqCst);
    }
}
pub fn counting_waker() -> (Arc<CountWake>, Waker) {
    let cw = Arc::new(CountWake(AtomicUsize::new(0)));
    let w = Waker::from(cw.clone());
    (cw, w)
}
pub fn wakes(cw: &Arc<CountWake>) -> usize {
    cw.0.load(Ordering::SeqCst)
}
