// Shared constructors for the C15 / C37 harnesses: symbolic QoS policy values (every kind, every
// duration, the Length variants) and the builtin-topic records that carry them.  Nothing here
// re-implements behaviour of the code under test; it only *builds* values through public fields.
use alloc::{string::String, vec::Vec};

use crate::builtin_topics::{
    BuiltInTopicKey, PublicationBuiltinTopicData, SubscriptionBuiltinTopicData,
};
use crate::dcps::dcps_domain_participant::data_reader_entity::DataReaderEntity;
use crate::infrastructure::{
    instance::InstanceHandle,
    qos::{DataReaderQos, DataWriterQos, PublisherQos, SubscriberQos, TopicQos},
    qos_policy::{
        DataRepresentationQosPolicy, DestinationOrderQosPolicyKind, DurabilityQosPolicyKind,
        HistoryQosPolicyKind, Length, LivelinessQosPolicyKind, OwnershipQosPolicyKind,
        PresentationQosPolicy, PresentationQosPolicyAccessScopeKind, ReliabilityQosPolicyKind,
        ResourceLimitsQosPolicy,
    },
    time::{Duration, DurationKind},
};

/// Any duration: Infinite, or Finite with any `sec: i32` and any normalized `nanosec < 10^9`
/// (`Duration::new` normalizes, so every reachable Duration satisfies it).
pub fn any_duration_kind() -> DurationKind {
    if kani::any() {
        DurationKind::Infinite
    } else {
        let sec: i32 = kani::any();
        let nanosec: u32 = kani::any();
        kani::assume(nanosec < 1_000_000_000);
        DurationKind::Finite(Duration { sec, nanosec })
    }
}

/// Reference order on durations written from the DDS text: finite < infinite, finite durations by
/// (seconds, nanoseconds) with normalized nanoseconds.
pub fn dur_le(a: &DurationKind, b: &DurationKind) -> bool {
    match (a, b) {
        (_, DurationKind::Infinite) => true,
        (DurationKind::Infinite, DurationKind::Finite(_)) => false,
        (DurationKind::Finite(x), DurationKind::Finite(y)) => {
            x.sec < y.sec || (x.sec == y.sec && x.nanosec <= y.nanosec)
        }
    }
}

pub fn any_durability() -> DurabilityQosPolicyKind {
    let s: u8 = kani::any();
    kani::assume(s < 4);
    match s {
        0 => DurabilityQosPolicyKind::Volatile,
        1 => DurabilityQosPolicyKind::TransientLocal,
        2 => DurabilityQosPolicyKind::Transient,
        _ => DurabilityQosPolicyKind::Persistent,
    }
}
/// DDS 1.4 2.2.3.4: VOLATILE < TRANSIENT_LOCAL < TRANSIENT < PERSISTENT
pub fn durability_rank(k: DurabilityQosPolicyKind) -> u8 {
    match k {
        DurabilityQosPolicyKind::Volatile => 0,
        DurabilityQosPolicyKind::TransientLocal => 1,
        DurabilityQosPolicyKind::Transient => 2,
        DurabilityQosPolicyKind::Persistent => 3,
    }
}
pub fn any_liveliness() -> LivelinessQosPolicyKind {
    let s: u8 = kani::any();
    kani::assume(s < 3);
    match s {
        0 => LivelinessQosPolicyKind::Automatic,
        1 => LivelinessQosPolicyKind::ManualByParticipant,
        _ => LivelinessQosPolicyKind::ManualByTopic,
    }
}
/// DDS 1.4 2.2.3.11: AUTOMATIC < MANUAL_BY_PARTICIPANT < MANUAL_BY_TOPIC
pub fn liveliness_rank(k: LivelinessQosPolicyKind) -> u8 {
    match k {
        LivelinessQosPolicyKind::Automatic => 0,
        LivelinessQosPolicyKind::ManualByParticipant => 1,
        LivelinessQosPolicyKind::ManualByTopic => 2,
    }
}
pub fn any_reliability() -> ReliabilityQosPolicyKind {
    if kani::any() {
        ReliabilityQosPolicyKind::Reliable
    } else {
        ReliabilityQosPolicyKind::BestEffort
    }
}
/// DDS 1.4 2.2.3.14: BEST_EFFORT < RELIABLE
pub fn reliability_rank(k: ReliabilityQosPolicyKind) -> u8 {
    match k {
        ReliabilityQosPolicyKind::BestEffort => 0,
        ReliabilityQosPolicyKind::Reliable => 1,
    }
}
pub fn any_destination_order() -> DestinationOrderQosPolicyKind {
    if kani::any() {
        DestinationOrderQosPolicyKind::BySourceTimestamp
    } else {
        DestinationOrderQosPolicyKind::ByReceptionTimestamp
    }
}
/// DDS 1.4 2.2.3.17: BY_RECEPTION_TIMESTAMP < BY_SOURCE_TIMESTAMP
pub fn destination_order_rank(k: DestinationOrderQosPolicyKind) -> u8 {
    match k {
        DestinationOrderQosPolicyKind::ByReceptionTimestamp => 0,
        DestinationOrderQosPolicyKind::BySourceTimestamp => 1,
    }
}
pub fn any_ownership() -> OwnershipQosPolicyKind {
    if kani::any() {
        OwnershipQosPolicyKind::Exclusive
    } else {
        OwnershipQosPolicyKind::Shared
    }
}
pub fn any_access_scope() -> PresentationQosPolicyAccessScopeKind {
    if kani::any() {
        PresentationQosPolicyAccessScopeKind::Topic
    } else {
        PresentationQosPolicyAccessScopeKind::Instance
    }
}
/// DDS 1.4 2.2.3.6: INSTANCE < TOPIC (< GROUP, not offered by dust-dds)
pub fn access_scope_rank(k: PresentationQosPolicyAccessScopeKind) -> u8 {
    match k {
        PresentationQosPolicyAccessScopeKind::Instance => 0,
        PresentationQosPolicyAccessScopeKind::Topic => 1,
    }
}
pub fn any_presentation() -> PresentationQosPolicy {
    PresentationQosPolicy {
        access_scope: any_access_scope(),
        coherent_access: kani::any(),
        ordered_access: kani::any(),
    }
}
/// A data representation list of symbolic length 0..=max (max <= 2) with symbolic ids. Each
/// length is built as its own concrete-size vector (cheaper for the solver than conditional pushes).
pub fn any_representation(max: usize) -> DataRepresentationQosPolicy {
    let n: usize = kani::any();
    kani::assume(n <= max && n <= 2);
    let a: u16 = kani::any();
    let b: u16 = kani::any();
    let value = match n {
        0 => Vec::new(),
        1 => alloc::vec![a],
        _ => alloc::vec![a, b],
    };
    DataRepresentationQosPolicy { value }
}

/// Any Length: Unlimited or Limited(any i32) (negative and zero included).
pub fn any_length() -> Length {
    if kani::any() {
        Length::Unlimited
    } else {
        Length::Limited(kani::any())
    }
}
pub fn any_history() -> HistoryQosPolicyKind {
    if kani::any() {
        HistoryQosPolicyKind::KeepAll
    } else {
        HistoryQosPolicyKind::KeepLast(kani::any())
    }
}

/// Writer QoS with every request/offered policy symbolic (all other policies default).
pub fn any_rxo_writer_qos() -> DataWriterQos {
    let mut q = DataWriterQos::const_default();
    q.durability.kind = any_durability();
    q.deadline.period = any_duration_kind();
    q.latency_budget.duration = any_duration_kind();
    q.liveliness.kind = any_liveliness();
    q.liveliness.lease_duration = any_duration_kind();
    q.reliability.kind = any_reliability();
    q.destination_order.kind = any_destination_order();
    q.ownership.kind = any_ownership();
    q.representation = any_representation(2);
    q
}
/// Reader QoS with every request/offered policy symbolic (all other policies default).
pub fn any_rxo_reader_qos() -> DataReaderQos {
    let mut q = DataReaderQos::const_default();
    q.durability.kind = any_durability();
    q.deadline.period = any_duration_kind();
    q.latency_budget.duration = any_duration_kind();
    q.liveliness.kind = any_liveliness();
    q.liveliness.lease_duration = any_duration_kind();
    q.reliability.kind = any_reliability();
    q.destination_order.kind = any_destination_order();
    q.ownership.kind = any_ownership();
    q.representation = any_representation(2);
    q
}

/// Every scalar policy of a DataWriterQos symbolic (octet sequences stay empty; representation
/// list of length 0..=2).
pub fn any_writer_qos() -> DataWriterQos {
    let mut q = any_rxo_writer_qos();
    q.reliability.max_blocking_time = any_duration_kind();
    q.history.kind = any_history();
    q.resource_limits.max_samples = any_length();
    q.resource_limits.max_instances = any_length();
    q.resource_limits.max_samples_per_instance = any_length();
    q.transport_priority.value = kani::any();
    q.lifespan.duration = any_duration_kind();
    q.ownership_strength.value = kani::any();
    q.writer_data_lifecycle.autodispose_unregistered_instances = kani::any();
    q
}
/// Every scalar policy of a DataReaderQos symbolic.
pub fn any_reader_qos() -> DataReaderQos {
    let mut q = any_rxo_reader_qos();
    q.reliability.max_blocking_time = any_duration_kind();
    q.history.kind = any_history();
    q.resource_limits.max_samples = any_length();
    q.resource_limits.max_instances = any_length();
    q.resource_limits.max_samples_per_instance = any_length();
    q.time_based_filter.minimum_separation = any_duration_kind();
    q.reader_data_lifecycle.autopurge_nowriter_samples_delay = any_duration_kind();
    q.reader_data_lifecycle.autopurge_disposed_samples_delay = any_duration_kind();
    q
}
/// Every scalar policy of a TopicQos symbolic.
pub fn any_topic_qos() -> TopicQos {
    let mut q = TopicQos::const_default();
    q.durability.kind = any_durability();
    q.deadline.period = any_duration_kind();
    q.latency_budget.duration = any_duration_kind();
    q.liveliness.kind = any_liveliness();
    q.liveliness.lease_duration = any_duration_kind();
    q.reliability.kind = any_reliability();
    q.reliability.max_blocking_time = any_duration_kind();
    q.destination_order.kind = any_destination_order();
    q.history.kind = any_history();
    q.resource_limits.max_samples = any_length();
    q.resource_limits.max_instances = any_length();
    q.resource_limits.max_samples_per_instance = any_length();
    q.transport_priority.value = kani::any();
    q.lifespan.duration = any_duration_kind();
    q.ownership.kind = any_ownership();
    q.representation = any_representation(2);
    q
}

/// The announcement a remote participant receives for a writer with `qos` under a publisher with
/// `pqos` (the fields the matching functions read; names/partition/type information are outside).
pub fn publication_of(qos: &DataWriterQos, pqos: &PublisherQos) -> PublicationBuiltinTopicData {
    PublicationBuiltinTopicData {
        key: BuiltInTopicKey { value: [1; 16] },
        participant_key: BuiltInTopicKey { value: [0; 16] },
        topic_name: String::new().into(),
        type_name: String::new().into(),
        type_information: None,
        durability: qos.durability.clone(),
        deadline: qos.deadline.clone(),
        latency_budget: qos.latency_budget.clone(),
        liveliness: qos.liveliness.clone(),
        reliability: qos.reliability.clone(),
        lifespan: qos.lifespan.clone(),
        user_data: Default::default(),
        ownership: qos.ownership.clone(),
        ownership_strength: qos.ownership_strength.clone(),
        destination_order: qos.destination_order.clone(),
        presentation: pqos.presentation.clone(),
        partition: Default::default(),
        topic_data: Default::default(),
        group_data: Default::default(),
        representation: qos.representation.clone(),
    }
}
/// The announcement a remote participant receives for a reader with `qos` under a subscriber with `sqos`.
pub fn subscription_of(qos: &DataReaderQos, sqos: &SubscriberQos) -> SubscriptionBuiltinTopicData {
    SubscriptionBuiltinTopicData {
        key: BuiltInTopicKey { value: [2; 16] },
        participant_key: BuiltInTopicKey { value: [0; 16] },
        topic_name: String::new().into(),
        type_name: String::new().into(),
        type_information: None,
        durability: qos.durability.clone(),
        deadline: qos.deadline.clone(),
        latency_budget: qos.latency_budget.clone(),
        liveliness: qos.liveliness.clone(),
        reliability: qos.reliability.clone(),
        ownership: qos.ownership.clone(),
        destination_order: qos.destination_order.clone(),
        user_data: Default::default(),
        time_based_filter: qos.time_based_filter.clone(),
        presentation: sqos.presentation.clone(),
        partition: Default::default(),
        topic_data: Default::default(),
        group_data: Default::default(),
        representation: qos.representation.clone(),
        type_consistency: qos.type_consistency.clone(),
    }
}

/// Transport reader placeholder (the matching function only reads `DataReaderEntity::qos`).
pub struct NoReader(pub Vec<crate::transport::types::CacheChange>);
impl crate::dcps::dcps_domain_participant::rtps_traits::RtpsReader for NoReader {
    fn changes_mut(&mut self) -> &mut Vec<crate::transport::types::CacheChange> {
        &mut self.0
    }
}
/// A local reader entity with the given QoS.
pub fn local_reader(qos: DataReaderQos) -> DataReaderEntity<NoReader> {
    DataReaderEntity::new(InstanceHandle::new([0xEE; 16]), qos, String::new(), NoReader(Vec::new()))
}

// ---- C37 reference model: DDS 1.4 §2.2.3 consistency rules and the "Changeable" column ------------
//   RESOURCE_LIMITS  max_samples >= max_samples_per_instance            (§2.2.3.19)
//   HISTORY          KEEP_LAST depth <= max_samples_per_instance        (§2.2.3.18)
//   DEADLINE / TIME_BASED_FILTER  deadline period >= minimum_separation (§2.2.3.7, §2.2.3.12, readers)
//   DATA_REPRESENTATION  a writer offers at most one representation     (XTypes 1.3 §7.6.3.1.1)
//   LENGTH_UNLIMITED is larger than every limit.
pub fn length_ge(a: Length, b: Length) -> bool {
    match (a, b) {
        (Length::Unlimited, _) => true,
        (Length::Limited(_), Length::Unlimited) => false,
        (Length::Limited(x), Length::Limited(y)) => x >= y,
    }
}
pub fn depth_fits(h: HistoryQosPolicyKind, per_instance: Length) -> bool {
    match (h, per_instance) {
        (HistoryQosPolicyKind::KeepAll, _) => true,
        (HistoryQosPolicyKind::KeepLast(_), Length::Unlimited) => true,
        (HistoryQosPolicyKind::KeepLast(d), Length::Limited(n)) => (d as i64) <= (n as i64),
    }
}
pub fn limits_consistent(h: HistoryQosPolicyKind, rl: &ResourceLimitsQosPolicy) -> bool {
    length_ge(rl.max_samples, rl.max_samples_per_instance) && depth_fits(h, rl.max_samples_per_instance)
}
pub fn non_negative(l: Length) -> bool {
    match l {
        Length::Unlimited => true,
        Length::Limited(n) => n >= 0,
    }
}
pub fn limits_non_negative(rl: &ResourceLimitsQosPolicy) -> bool {
    non_negative(rl.max_samples) && non_negative(rl.max_instances) && non_negative(rl.max_samples_per_instance)
}

pub fn writer_consistent(q: &DataWriterQos) -> bool {
    q.representation.value.len() <= 1 && limits_consistent(q.history.kind, &q.resource_limits)
}
pub fn reader_consistent(q: &DataReaderQos) -> bool {
    limits_consistent(q.history.kind, &q.resource_limits)
        && dur_le(&q.time_based_filter.minimum_separation, &q.deadline.period)
}
pub fn topic_consistent(q: &TopicQos) -> bool {
    limits_consistent(q.history.kind, &q.resource_limits)
}
pub fn writer_limits_non_negative(q: &DataWriterQos) -> bool {
    limits_non_negative(&q.resource_limits)
}
pub fn reader_limits_non_negative(q: &DataReaderQos) -> bool {
    limits_non_negative(&q.resource_limits)
}
pub fn topic_limits_non_negative(q: &TopicQos) -> bool {
    limits_non_negative(&q.resource_limits)
}
/// The seven DDS policies with Changeable = NO are unchanged.
pub fn writer_immutables_equal(a: &DataWriterQos, b: &DataWriterQos) -> bool {
    a.durability == b.durability
        && a.liveliness == b.liveliness
        && a.reliability == b.reliability
        && a.destination_order == b.destination_order
        && a.history == b.history
        && a.resource_limits == b.resource_limits
        && a.ownership == b.ownership
}
pub fn reader_immutables_equal(a: &DataReaderQos, b: &DataReaderQos) -> bool {
    a.durability == b.durability
        && a.liveliness == b.liveliness
        && a.reliability == b.reliability
        && a.destination_order == b.destination_order
        && a.history == b.history
        && a.resource_limits == b.resource_limits
        && a.ownership == b.ownership
}
pub fn topic_immutables_equal(a: &TopicQos, b: &TopicQos) -> bool {
    a.durability == b.durability
        && a.liveliness == b.liveliness
        && a.reliability == b.reliability
        && a.destination_order == b.destination_order
        && a.history == b.history
        && a.resource_limits == b.resource_limits
        && a.ownership == b.ownership
}


/// Stub for `tracing::level_filters::LevelFilter::current` (the global maximum tracing level):
/// tracing is OFF, as in a process that installed no subscriber.  (Used by other families' harnesses:
///   #[kani::stub(tracing::level_filters::LevelFilter::current, super::support_qos::tracing_off)]
/// keep it.)
pub fn tracing_off() -> tracing::level_filters::LevelFilter {
    tracing::level_filters::LevelFilter::OFF
}
