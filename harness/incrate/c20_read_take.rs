// C20 — read / take return exactly the matching samples with correct SampleInfo.
//
// Pattern S: ONE real `DataReaderEntity::<()>::read` / `take` (both are thin wrappers around
// `create_sample_collection`, which is where all the work happens) from a directly constructed
// symbolic pre-state.  The list lengths are concrete per harness (N stored samples, M instances),
// every scalar in them is symbolic.  The oracle is the reference filter `select` below plus the
// DDS 1.4 definitions of the ranks (2.2.2.5.1.x):
//   sample_rank              = number of samples of the same instance that follow in the collection
//   generation_rank          = (MRSIC.dgc + MRSIC.nwgc) - (S.dgc + S.nwgc)   (2.2.2.5.1.10)
//   absolute_generation_rank = (MRS.dgc + MRS.nwgc)   - (S.dgc + S.nwgc)     (2.2.2.5.1.11)
// where MRSIC is the most recent sample of the instance in the collection and MRS the most recent
// sample of the instance received by the reader (its counts are the instance's current counts).
use alloc::vec::Vec;

use super::support_reader2::*;
use crate::infrastructure::{
    error::DdsError,
    instance::InstanceHandle,
    sample_info::{InstanceStateKind, SampleStateKind, ViewStateKind},
    time::Time,
};
use crate::transport::types::ChangeKind;

#[derive(Clone, Copy, PartialEq, Eq)]
enum Mode {
    Main,       // everything except generation_rank / absolute_generation_rank
    RanksKnown, // the two generation ranks, restricted to the trigger of KF-C20-1
    RanksRest,  // the two generation ranks, trigger negated
}

/// Reference filter (the oracle): which of the N stored samples a read/take must return.
fn select<const N: usize, const M: usize>(
    s: &[SSpec; N],
    inst: &[ISpec; M],
    specific: &Option<InstanceHandle>,
    sm: &[SampleStateKind; 2],
    vm: &[ViewStateKind; 2],
    im: &[InstanceStateKind; 3],
    max_samples: i32,
) -> ([bool; N], usize) {
    let mut sel = [false; N];
    let mut n = 0usize;
    let mut i = 0;
    while i < N {
        let of_instance = match specific {
            Some(h) => s[i].h == *h,
            None => true,
        };
        let x = &inst[s[i].inst];
        if of_instance
            && in_smask(sm, s[i].ss)
            && in_vmask(vm, x.view)
            && in_imask(im, x.st)
            && (n as i32) < max_samples
        {
            sel[i] = true;
            n += 1;
        }
        i += 1;
    }
    (sel, n)
}

/// Number of not-alive -> alive transitions among the kinds of the selected samples of the instance
/// of sample `i`, up to and including `i`.  Only used to state the trigger of KF-C20-1 (this is what
/// the implementation subtracts instead of the sample's own generation counts).
fn rebirths_in_collection<const N: usize>(s: &[SSpec; N], sel: &[bool; N], i: usize) -> i32 {
    let mut alive = true;
    let mut c = 0;
    let mut k = 0;
    while k < N {
        if k <= i && sel[k] && s[k].inst == s[i].inst {
            match s[k].kind {
                ChangeKind::Alive => {
                    if !alive {
                        alive = true;
                        c += 1;
                    }
                }
                ChangeKind::AliveFiltered => (),
                _ => alive = false,
            }
        }
        k += 1;
    }
    c
}

fn c20_body<const N: usize, const M: usize>(mode: Mode) {
    // ---- pre-state -------------------------------------------------------------------------
    let mut inst = [any_ispec(any_handle()); M];
    let mut i = 0;
    while i < M {
        inst[i] = any_ispec(any_handle());
        let mut j = 0;
        while j < i {
            kani::assume(inst[j].h != inst[i].h); // I1: one InstanceState per handle
            j += 1;
        }
        i += 1;
    }
    let proto = SSpec {
        kind: ChangeKind::Alive,
        writer: wguid(0),
        inst: 0,
        h: inst[0].h,
        ss: SampleStateKind::NotRead,
        dgc: 0,
        nwgc: 0,
        ts: None,
    };
    let mut s = [proto; N];
    let mut i = 0;
    while i < N {
        let ix: usize = kani::any();
        kani::assume(ix < M);
        let ts: Option<Time> = if kani::any() { Some(any_time()) } else { None };
        s[i] = SSpec {
            kind: any_kind(),
            writer: wguid(kani::any()),
            inst: ix,
            h: inst[ix].h, // I1: every stored sample has its InstanceState
            ss: any_sample_state(),
            dgc: any_gen(),
            nwgc: any_gen(),
            ts,
        };
        // I2: counts of a sample never exceed the instance's current counts and do not decrease
        // along the storage (= reception) order of an instance.
        kani::assume(s[i].dgc <= inst[ix].dgc && s[i].nwgc <= inst[ix].nwgc);
        let mut j = 0;
        while j < i {
            if s[j].inst == ix {
                kani::assume(s[j].dgc <= s[i].dgc && s[j].nwgc <= s[i].nwgc);
            }
            j += 1;
        }
        i += 1;
    }

    let mut r = reader(neutral_qos(false));
    let mut i = 0;
    while i < M {
        r.instances.push(mk_inst(&inst[i]));
        i += 1;
    }
    let mut i = 0;
    while i < N {
        r.sample_list.push(mk_sample(&s[i]));
        i += 1;
    }

    // ---- arguments ---------------------------------------------------------------------------
    let sm = any_sample_mask();
    let vm = any_view_mask();
    let im = any_instance_mask();
    let max_samples: i32 = kani::any();
    kani::assume((max_samples >= 1 && max_samples <= 4) || max_samples == i32::MAX);
    let take: bool = kani::any();
    let which: u8 = kani::any();
    kani::assume(which < 3);
    let mut unknown = false;
    let specific: Option<InstanceHandle> = match which {
        0 => None,
        1 => {
            let ix: usize = kani::any();
            kani::assume(ix < M);
            Some(inst[ix].h)
        }
        _ => {
            let h = any_handle();
            let mut j = 0;
            while j < M {
                kani::assume(inst[j].h != h);
                j += 1;
            }
            unknown = true;
            Some(h)
        }
    };

    let (sel, nsel) = select(&s, &inst, &specific, &sm, &vm, &im, max_samples);

    if mode != Mode::Main {
        let mut trig = false;
        let mut i = 0;
        while i < N {
            if sel[i] && rebirths_in_collection(&s, &sel, i) != s[i].dgc + s[i].nwgc {
                trig = true;
            }
            i += 1;
        }
        kani::assume(!unknown && nsel > 0);
        kani::assume(trig == (mode == Mode::RanksKnown));
    }

    // ---- the one real operation ---------------------------------------------------------------
    let res = if take {
        r.take(max_samples, &sm, &vm, &im, &specific)
    } else {
        r.read(max_samples, &sm, &vm, &im, &specific)
    };

    // ---- result --------------------------------------------------------------------------------
    let mut returned_ok = false;
    match &res {
        Err(DdsError::BadParameter) => {
            if mode == Mode::Main {
                assert!(unknown, "C20: BadParameter only for an unknown instance handle");
            }
        }
        Err(DdsError::NoData) => {
            if mode == Mode::Main {
                assert!(!unknown, "C20: unknown instance handle must give BadParameter");
                assert!(nsel == 0, "C20: NoData although a stored sample matches");
            }
        }
        Err(_) => assert!(false, "C20: unexpected error from read/take"),
        Ok(list) => {
            returned_ok = true;
            if mode == Mode::Main {
                assert!(!unknown, "C20: unknown instance handle must give BadParameter");
                assert!(nsel > 0, "C20: Ok collection although nothing matches (must be NoData)");
                assert!(list.len() == nsel, "C20: number of returned samples");
            }
            let mut j = 0usize;
            let mut i = 0;
            while i < N {
                if sel[i] && j < list.len() {
                    let info = &list[j].1;
                    let x = &inst[s[i].inst];
                    // samples of the same instance that follow in the collection
                    let mut follow = 0;
                    let mut last = i;
                    let mut k = 0;
                    while k < N {
                        if k > i && sel[k] && s[k].inst == s[i].inst {
                            follow += 1;
                            last = k;
                        }
                        k += 1;
                    }
                    if mode == Mode::Main {
                        assert!(
                            info.instance_handle == s[i].h
                                && info.publication_handle == InstanceHandle::new(s[i].writer)
                                && info.source_timestamp == s[i].ts
                                && info.disposed_generation_count == s[i].dgc
                                && info.no_writers_generation_count == s[i].nwgc,
                            "C20: returned samples are the first max_samples matching ones in storage order"
                        );
                        assert!(
                            info.sample_state == s[i].ss
                                && info.view_state == x.view
                                && info.instance_state == x.st,
                            "C20: SampleInfo states are the states at the time of the call"
                        );
                        assert!(
                            info.valid_data == is_alive_kind(s[i].kind),
                            "C20: valid_data iff the sample carries data"
                        );
                        assert!(info.sample_rank == follow, "C20: sample_rank (DDS 2.2.2.5.1.9)");
                    } else {
                        let own = s[i].dgc + s[i].nwgc;
                        assert!(
                            info.absolute_generation_rank == (x.dgc + x.nwgc) - own,
                            "C20: absolute_generation_rank (DDS 2.2.2.5.1.11)"
                        );
                        assert!(
                            info.generation_rank == (s[last].dgc + s[last].nwgc) - own,
                            "C20: generation_rank (DDS 2.2.2.5.1.10)"
                        );
                    }
                    j += 1;
                }
                i += 1;
            }
        }
    }

    // ---- post-state ------------------------------------------------------------------------------
    if mode == Mode::Main {
        let changed = returned_ok;
        if take && changed {
            assert!(r.sample_list.len() == N - nsel, "C20: take removes exactly the returned samples");
            let mut k = 0usize;
            let mut i = 0;
            while i < N {
                if !sel[i] && k < r.sample_list.len() {
                    assert!(
                        sample_is(&r.sample_list[k], &s[i], s[i].ss),
                        "C20: take leaves the other samples untouched and in order"
                    );
                    k += 1;
                }
                i += 1;
            }
        } else {
            assert!(r.sample_list.len() == N, "C20: read (or an error) keeps every sample");
            let mut i = 0;
            while i < N {
                let exp = if sel[i] && changed { SampleStateKind::Read } else { s[i].ss };
                assert!(
                    sample_is(&r.sample_list[i], &s[i], exp),
                    "C20: read marks exactly the returned samples READ and changes nothing else"
                );
                i += 1;
            }
        }
        assert!(r.instances.len() == M, "C20: read/take never creates or removes instances");
        let mut m = 0;
        while m < M {
            let mut hit = false;
            let mut i = 0;
            while i < N {
                if sel[i] && s[i].inst == m && changed {
                    hit = true;
                }
                i += 1;
            }
            let exp = ISpec {
                view: if hit { ViewStateKind::NotNew } else { inst[m].view },
                ..inst[m]
            };
            assert!(
                inst_unchanged(&r, &exp),
                "C20: instance of a returned sample becomes NOT_NEW, nothing else of any instance changes"
            );
            m += 1;
        }
        kani::cover!(returned_ok && take, "take returned a collection");
        kani::cover!(returned_ok && !take, "read returned a collection");
        kani::cover!(matches!(res, Err(DdsError::NoData)), "NoData");
        kani::cover!(matches!(res, Err(DdsError::BadParameter)), "BadParameter");
        if N >= 2 {
            kani::cover!(returned_ok && nsel < N && nsel >= 1, "a proper sub-list was returned");
        }
    } else {
        kani::cover!(returned_ok, "a collection was returned");
    }
    core::mem::forget(res);
    core::mem::forget(r);
}

// @check props=C20 tier=quick
// @desc read/take on an empty cache: NoData, or BadParameter for an unknown instance handle; nothing changes
// @bounds 0 stored samples, 2 instances (fully symbolic state), masks = every non-empty subset, max_samples 1..=4 or i32::MAX, specific handle none/known/unknown, take flag symbolic; unwind 17 (16-byte handle compare)
// @assume I1: one InstanceState per handle; reader enabled; neutral QoS (irrelevant for read/take)
// @enc dcps::dcps_domain_participant::data_reader_entity::DataReaderEntity::create_sample_collection
// @enc dcps::dcps_domain_participant::data_reader_entity::DataReaderEntity::read
// @enc dcps::dcps_domain_participant::data_reader_entity::DataReaderEntity::take
#[kani::proof]
#[kani::unwind(17)]
fn c20_read_take_n0() {
    c20_body::<0, 2>(Mode::Main);
}

// @check props=C20,C22 tier=quick
// @desc read/take with one stored sample: returned iff it matches the three masks (and the requested instance); read marks it READ and keeps it, take removes it; SampleInfo states/counts/valid_data/sample_rank; the instance becomes NOT_NEW and nothing else of any instance changes (C22: read/take never change instance_state or generation counts); NoData iff nothing matches; BadParameter iff the handle is unknown
// @bounds 1 stored sample over 2 instances (fully symbolic view/instance state and generation counts 0..10^6), all 5 change kinds, masks = every non-empty subset, max_samples 1..=4 or i32::MAX, specific handle none/known/unknown, take flag symbolic; unwind 17 (16-byte handle compare)
// @assume I1: one InstanceState per handle and every stored sample has one; I2: sample generation counts <= the instance's current counts; reader enabled
// @enc dcps::dcps_domain_participant::data_reader_entity::DataReaderEntity::create_sample_collection
// @enc dcps::dcps_domain_participant::data_reader_entity::DataReaderEntity::read
// @enc dcps::dcps_domain_participant::data_reader_entity::DataReaderEntity::take
#[kani::proof]
#[kani::unwind(17)]
fn c20_read_take_n1() {
    c20_body::<1, 2>(Mode::Main);
}

// @check props=C20,C22 tier=quick
// @desc as c20_read_take_n1 with two stored samples: the returned list is exactly the first max_samples matching samples in storage order, sample_rank per DDS 2.2.2.5.1.9, take leaves the others untouched and in order
// @bounds 2 stored samples over 2 instances, otherwise as c20_read_take_n1; unwind 17
// @assume I1: one InstanceState per handle and every stored sample has one; I2: sample generation counts <= the instance's current counts and non-decreasing along the storage order of an instance; reader enabled
// @enc dcps::dcps_domain_participant::data_reader_entity::DataReaderEntity::create_sample_collection
// @enc dcps::dcps_domain_participant::data_reader_entity::DataReaderEntity::read
// @enc dcps::dcps_domain_participant::data_reader_entity::DataReaderEntity::take
#[kani::proof]
#[kani::unwind(17)]
fn c20_read_take_n2() {
    c20_body::<2, 2>(Mode::Main);
}

// @check props=C20,C22 tier=thorough timeout=1500
// @desc as c20_read_take_n2 with three stored samples (max_samples can cut the matching list at 1, 2 or 3)
// @bounds 3 stored samples over 2 instances, otherwise as c20_read_take_n1; unwind 17
// @assume I1: one InstanceState per handle and every stored sample has one; I2: sample generation counts <= the instance's current counts and non-decreasing along the storage order of an instance; reader enabled
// @enc dcps::dcps_domain_participant::data_reader_entity::DataReaderEntity::create_sample_collection
// @enc dcps::dcps_domain_participant::data_reader_entity::DataReaderEntity::read
// @enc dcps::dcps_domain_participant::data_reader_entity::DataReaderEntity::take
#[kani::proof]
#[kani::unwind(17)]
fn c20_read_take_n3() {
    c20_body::<3, 2>(Mode::Main);
}

// @check props=C20 tier=quick known=KF-C20-1
// @desc generation_rank and absolute_generation_rank of every returned sample equal the DDS definitions (2.2.2.5.1.10/11) computed from the samples' own generation counts -- restricted to the trigger of KF-C20-1 (expected to fail)
// @bounds 2 stored samples over 2 instances, otherwise as c20_read_take_n1; unwind 17
// @assume trigger KF-C20-1: some returned sample's own disposed+no_writers generation count differs from the number of not-alive->alive transitions among the returned samples of its instance up to it
// @assume I1, I2 as c20_read_take_n2; known instance handle; at least one sample matches
// @enc dcps::dcps_domain_participant::data_reader_entity::DataReaderEntity::create_sample_collection
#[kani::proof]
#[kani::unwind(17)]
fn c20_ranks_n2__known() {
    c20_body::<2, 2>(Mode::RanksKnown);
}

// @check props=C20 tier=quick
// @desc generation_rank and absolute_generation_rank of every returned sample equal the DDS definitions (2.2.2.5.1.10/11) whenever the trigger of KF-C20-1 does not hold
// @bounds 2 stored samples over 2 instances, otherwise as c20_read_take_n1; unwind 17
// @assume negation of trigger KF-C20-1: every returned sample's own disposed+no_writers generation count equals the number of not-alive->alive transitions among the returned samples of its instance up to it
// @assume I1, I2 as c20_read_take_n2; known instance handle; at least one sample matches
// @enc dcps::dcps_domain_participant::data_reader_entity::DataReaderEntity::create_sample_collection
#[kani::proof]
#[kani::unwind(17)]
fn c20_ranks_n2__rest() {
    c20_body::<2, 2>(Mode::RanksRest);
}

// @check props=C20 tier=thorough timeout=1500
// @desc as c20_ranks_n2__rest with three stored samples
// @bounds 3 stored samples over 2 instances, otherwise as c20_read_take_n1; unwind 17
// @assume negation of trigger KF-C20-1 (see c20_ranks_n2__rest); I1, I2; known instance handle; at least one sample matches
// @enc dcps::dcps_domain_participant::data_reader_entity::DataReaderEntity::create_sample_collection
#[kani::proof]
#[kani::unwind(17)]
fn c20_ranks_n3__rest() {
    c20_body::<3, 2>(Mode::RanksRest);
}
