// C20 — read / take return exactly the matching samples with correct SampleInfo.
//
// Pattern S: ONE real `DataReaderEntity::<()>::read` / `take` (both are thin wrappers around
// `create_sample_collection`, which is where all the work happens) from a directly constructed
// symbolic pre-state.  The list lengths are concrete per harness (N stored samples, M instances),
// every scalar in them is symbolic.  (Two stored samples are out of reach: measured > 13 GB with
// unwind 3, see vlib/ptab/reader_cache2.py; the generic body supports them.)  The oracle is the reference filter `select` below plus the
// DDS 1.4 definitions of the ranks (2.2.2.5.1.x):
//   sample_rank              = number of samples of the same instance that follow in the collection
//   generation_rank          = (MRSIC.dgc + MRSIC.nwgc) - (S.dgc + S.nwgc)   (2.2.2.5.1.10)
//   absolute_generation_rank = (MRS.dgc + MRS.nwgc)   - (S.dgc + S.nwgc)     (2.2.2.5.1.11)
// where MRSIC is the most recent sample of the instance in the collection and MRS the most recent
// sample of the instance received by the reader (its counts are the instance's current counts).
use alloc::vec::Vec;
use core::cmp::PartialEq; // (in scope for the trait path of the kani::stub attributes)

use super::support_reader2::*;
use crate::infrastructure::{
    error::DdsError,
    instance::InstanceHandle,
    sample_info::{InstanceStateKind, SampleStateKind, ViewStateKind},
    time::Time,
};
use crate::transport::types::ChangeKind;

const ANY_SAMPLE: [SampleStateKind; 2] = [SampleStateKind::Read, SampleStateKind::NotRead];
const ANY_VIEW: [ViewStateKind; 2] = [ViewStateKind::New, ViewStateKind::NotNew];
const ANY_INSTANCE: [InstanceStateKind; 3] = [
    InstanceStateKind::Alive,
    InstanceStateKind::NotAliveDisposed,
    InstanceStateKind::NotAliveNoWriters,
];

#[derive(Clone, Copy, PartialEq, Eq)]
enum Mode {
    Main,       // everything except generation_rank / absolute_generation_rank
    RanksKnown, // the two generation ranks, restricted to the trigger of KF-C20-1
    RanksRest,  // the two generation ranks, trigger negated
}

/// What happened in one run of `c20_body` (for the vacuity witnesses of the individual harnesses).
struct Outcome {
    ok: bool,
    nodata: bool,
    badparam: bool,
    specific: bool,
    nsel: usize,
}

/// Reference filter (the oracle): which of the N stored samples a read/take must return.
fn select<const N: usize, const M: usize>(
    s: &[SSpec; N],
    inst: &[ISpec; M],
    specific: &Option<InstanceHandle>,
    sm: &[SampleStateKind],
    vm: &[ViewStateKind],
    im: &[InstanceStateKind],
    max_samples: i32,
) -> ([bool; N], usize) {
    let mut sel = [false; N];
    let mut n = 0usize;
    let mut i = 0;
    while i < N {
        let of_instance = match specific {
            Some(h) => s[i].h == *h,
            None => true,
        };
        let x = &inst[s[i].inst];
        if of_instance
            && sm_contains(sm, s[i].ss)
            && vm_contains(vm, x.view)
            && im_contains(im, x.st)
            && (n as i32) < max_samples
        {
            sel[i] = true;
            n += 1;
        }
        i += 1;
    }
    (sel, n)
}

/// Number of not-alive -> alive transitions among the kinds of the selected samples of the instance
/// of sample `i`, up to and including `i`.  Only used to state the trigger of KF-C20-1 (this is what
/// the implementation subtracts instead of the sample's own generation counts).
fn rebirths_in_collection<const N: usize>(s: &[SSpec; N], sel: &[bool; N], i: usize) -> i32 {
    let mut alive = true;
    let mut c = 0;
    let mut k = 0;
    while k < N {
        if k <= i && sel[k] && s[k].inst == s[i].inst {
            match s[k].kind {
                ChangeKind::Alive => {
                    if !alive {
                        alive = true;
                        c += 1;
                    }
                }
                ChangeKind::AliveFiltered => (),
                _ => alive = false,
            }
        }
        k += 1;
    }
    c
}

// Oracle-side membership tests for masks given as slices of at most 3 entries (loop-free, so they do
// not depend on the unwinding bound of the harness).
fn sm_contains(m: &[SampleStateKind], x: SampleStateKind) -> bool {
    (m.len() > 0 && m[0] == x) || (m.len() > 1 && m[1] == x) || (m.len() > 2 && m[2] == x)
}
fn vm_contains(m: &[ViewStateKind], x: ViewStateKind) -> bool {
    (m.len() > 0 && m[0] == x) || (m.len() > 1 && m[1] == x) || (m.len() > 2 && m[2] == x)
}
fn im_contains(m: &[InstanceStateKind], x: InstanceStateKind) -> bool {
    (m.len() > 0 && m[0] == x) || (m.len() > 1 && m[1] == x) || (m.len() > 2 && m[2] == x)
}

/// Index of the k-th stored sample with `sel[i] == want` (N if there is none).
fn kth<const N: usize>(sel: &[bool; N], want: bool, k: usize) -> usize {
    let mut seen = 0usize;
    let mut out = N;
    let mut i = 0;
    while i < N {
        if sel[i] == want {
            if seen == k && out == N {
                out = i;
            }
            seen += 1;
        }
        i += 1;
    }
    out
}

fn c20_body<const N: usize, const M: usize, const K: usize, const FULL_IM: bool>(take: bool, mode: Mode) -> Outcome {
    // ---- pre-state -------------------------------------------------------------------------
    let mut inst = [any_ispec(any_handle()); M];
    let mut i = 0;
    while i < M {
        inst[i] = any_ispec(any_handle());
        let mut j = 0;
        while j < i {
            kani::assume(inst[j].h != inst[i].h); // I1: one InstanceState per handle
            j += 1;
        }
        i += 1;
    }
    let proto = SSpec {
        kind: ChangeKind::Alive,
        writer: wguid(0),
        inst: 0,
        h: inst[0].h,
        ss: SampleStateKind::NotRead,
        dgc: 0,
        nwgc: 0,
        ts: None,
    };
    let mut s = [proto; N];
    let mut i = 0;
    while i < N {
        let ix: usize = kani::any();
        kani::assume(ix < M);
        let ts: Option<Time> = if kani::any() { Some(any_time()) } else { None };
        s[i] = SSpec {
            kind: any_kind(),
            writer: wguid(kani::any()),
            inst: ix,
            h: inst[ix].h, // I1: every stored sample has its InstanceState
            ss: any_sample_state(),
            dgc: any_gen(),
            nwgc: any_gen(),
            ts,
        };
        // I2: counts of a sample never exceed the instance's current counts and do not decrease
        // along the storage (= reception) order of an instance.
        kani::assume(s[i].dgc <= inst[ix].dgc && s[i].nwgc <= inst[ix].nwgc);
        let mut j = 0;
        while j < i {
            if s[j].inst == ix {
                kani::assume(s[j].dgc <= s[i].dgc && s[j].nwgc <= s[i].nwgc);
            }
            j += 1;
        }
        i += 1;
    }

    let mut r = reader(neutral_qos(false));
    let mut i = 0;
    while i < M {
        r.instances.push(mk_inst(&inst[i]));
        i += 1;
    }
    let mut i = 0;
    while i < N {
        r.sample_list.push(mk_sample(&s[i]));
        i += 1;
    }

    // ---- arguments ---------------------------------------------------------------------------
    // Each mask is either K symbolic slots (every non-empty subset with at most K elements; slots may
    // repeat) or the concrete full set ("ANY"), so every non-empty subset is covered when K >= 2 for
    // the instance-state mask and K >= 1 for the two-valued masks.
    let mut sm_slots = [any_sample_state(); K];
    let mut vm_slots = [any_view_state(); K];
    let mut im_slots = [any_instance_state(); K];
    let mut k = 0;
    while k < K {
        sm_slots[k] = any_sample_state();
        vm_slots[k] = any_view_state();
        im_slots[k] = any_instance_state();
        k += 1;
    }
    let sm: &[SampleStateKind] = if kani::any() { &ANY_SAMPLE[..] } else { &sm_slots[..] };
    let vm: &[ViewStateKind] = if kani::any() { &ANY_VIEW[..] } else { &vm_slots[..] };
    let im: &[InstanceStateKind] = if FULL_IM && kani::any() { &ANY_INSTANCE[..] } else { &im_slots[..] };
    let max_samples: i32 = kani::any();
    kani::assume((max_samples >= 1 && max_samples <= 4) || max_samples == i32::MAX);
    let which: u8 = kani::any();
    kani::assume(which < 3);
    let mut unknown = false;
    let specific: Option<InstanceHandle> = match which {
        0 => None,
        1 => {
            let ix: usize = kani::any();
            kani::assume(ix < M);
            Some(inst[ix].h)
        }
        _ => {
            let h = any_handle();
            let mut j = 0;
            while j < M {
                kani::assume(inst[j].h != h);
                j += 1;
            }
            unknown = true;
            Some(h)
        }
    };

    let (sel, nsel) = select(&s, &inst, &specific, sm, vm, im, max_samples);

    if mode != Mode::Main {
        let mut trig = false;
        let mut i = 0;
        while i < N {
            if sel[i] && rebirths_in_collection(&s, &sel, i) != s[i].dgc + s[i].nwgc {
                trig = true;
            }
            i += 1;
        }
        kani::assume(!unknown && nsel > 0);
        kani::assume(trig == (mode == Mode::RanksKnown));
    }

    // ---- the one real operation ---------------------------------------------------------------
    let res = if take {
        r.take(max_samples, sm, vm, im, &specific)
    } else {
        r.read(max_samples, sm, vm, im, &specific)
    };

    // ---- result --------------------------------------------------------------------------------
    let mut returned_ok = false;
    match &res {
        Err(DdsError::BadParameter) => {
            if mode == Mode::Main {
                assert!(unknown, "C20: BadParameter only for an unknown instance handle");
            }
        }
        Err(DdsError::NoData) => {
            if mode == Mode::Main {
                assert!(!unknown, "C20: unknown instance handle must give BadParameter");
                assert!(nsel == 0, "C20: NoData although a stored sample matches");
            }
        }
        Err(_) => assert!(false, "C20: unexpected error from read/take"),
        Ok(list) => {
            returned_ok = true;
            if mode == Mode::Main {
                assert!(!unknown, "C20: unknown instance handle must give BadParameter");
                assert!(nsel > 0, "C20: Ok collection although nothing matches (must be NoData)");
                assert!(list.len() == nsel, "C20: number of returned samples");
            }
            // position j of the returned list (concrete index) must be the j-th selected sample
            let mut j = 0usize;
            while j < N {
                if j < list.len() && j < nsel {
                    let i = kth(&sel, true, j);
                    let info = &list[j].1;
                    let x = inst[s[i].inst];
                    // samples of the same instance that follow in the collection
                    let mut follow = 0;
                    let mut last = i;
                    let mut k = 0;
                    while k < N {
                        if k > i && sel[k] && s[k].inst == s[i].inst {
                            follow += 1;
                            last = k;
                        }
                        k += 1;
                    }
                    if mode == Mode::Main {
                        assert!(
                            info.instance_handle == s[i].h
                                && eq16(&bytes_of(&info.publication_handle), &s[i].writer)
                                && info.source_timestamp == s[i].ts
                                && info.disposed_generation_count == s[i].dgc
                                && info.no_writers_generation_count == s[i].nwgc,
                            "C20: returned samples are the first max_samples matching ones in storage order"
                        );
                        assert!(
                            info.sample_state == s[i].ss
                                && info.view_state == x.view
                                && info.instance_state == x.st,
                            "C20: SampleInfo states are the states at the time of the call"
                        );
                        assert!(
                            info.valid_data == is_alive_kind(s[i].kind),
                            "C20: valid_data iff the sample carries data"
                        );
                        assert!(info.sample_rank == follow, "C20: sample_rank (DDS 2.2.2.5.1.9)");
                    } else {
                        let own = s[i].dgc + s[i].nwgc;
                        assert!(
                            info.absolute_generation_rank == (x.dgc + x.nwgc) - own,
                            "C20: absolute_generation_rank (DDS 2.2.2.5.1.11)"
                        );
                        assert!(
                            info.generation_rank == (s[last].dgc + s[last].nwgc) - own,
                            "C20: generation_rank (DDS 2.2.2.5.1.10)"
                        );
                    }
                }
                j += 1;
            }
        }
    }

    // ---- post-state ------------------------------------------------------------------------------
    if mode == Mode::Main {
        let changed = returned_ok;
        if take && changed {
            assert!(r.sample_list.len() == N - nsel, "C20: take removes exactly the returned samples");
            // position k of the remaining cache (concrete index) must be the k-th unselected sample
            let mut k = 0usize;
            while k < N {
                if k < r.sample_list.len() && k < N - nsel {
                    let i = kth(&sel, false, k);
                    assert!(
                        sample_is(&r.sample_list[k], &s[i], s[i].ss),
                        "C20: take leaves the other samples untouched and in order"
                    );
                }
                k += 1;
            }
        } else {
            assert!(r.sample_list.len() == N, "C20: read (or an error) keeps every sample");
            let mut i = 0;
            while i < N {
                if i < r.sample_list.len() {
                    let exp = if sel[i] && changed { SampleStateKind::Read } else { s[i].ss };
                    assert!(
                        sample_is(&r.sample_list[i], &s[i], exp),
                        "C20: read marks exactly the returned samples READ and changes nothing else"
                    );
                }
                i += 1;
            }
        }
        assert!(r.instances.len() == M, "C20: read/take never creates or removes instances");
        let mut m = 0;
        while m < M {
            let mut hit = false;
            let mut i = 0;
            while i < N {
                if sel[i] && s[i].inst == m && changed {
                    hit = true;
                }
                i += 1;
            }
            if m < r.instances.len() {
                // instances are never reordered: entry m is the m-th constructed instance
                let (v, st, d, n, _) = r.instances[m].verif_parts();
                assert!(
                    r.instances[m].handle == inst[m].h
                        && v == (if hit { ViewStateKind::NotNew } else { inst[m].view })
                        && st == inst[m].st
                        && d == inst[m].dgc
                        && n == inst[m].nwgc,
                    "C20: instance of a returned sample becomes NOT_NEW, nothing else of any instance changes"
                );
            }
            m += 1;
        }
    }
    let out = Outcome {
        ok: returned_ok,
        nodata: matches!(res, Err(DdsError::NoData)),
        badparam: matches!(res, Err(DdsError::BadParameter)),
        specific: specific.is_some(),
        nsel,
    };
    core::mem::forget(res);
    core::mem::forget(r);
    out
}

// @check props=C20 tier=thorough
// @desc read on an empty cache: NoData, or BadParameter for an unknown instance handle; nothing changes
// @bounds 0 stored samples, 2 instances (fully symbolic view/instance state, generation counts 0..10^6, handle with 2 symbolic bytes), all three masks: every non-empty subset (two symbolic slots or ANY), max_samples 1..=4 or i32::MAX, specific handle none/known/unknown; unwind 3
// @assume I1: one InstanceState per handle and every stored sample has one; reader enabled
// @assume stub: InstanceHandle == is replaced by the equivalent branch-free 128-bit comparison (support_reader2::ih_eq; equivalence with the derived PartialEq proved over all inputs by c20_stub_equivalence)
// @enc dcps::dcps_domain_participant::data_reader_entity::DataReaderEntity::create_sample_collection
// @enc dcps::dcps_domain_participant::data_reader_entity::DataReaderEntity::read
#[kani::proof]
#[kani::unwind(3)]
#[kani::stub(<InstanceHandle as PartialEq<InstanceHandle>>::eq, super::support_reader2::ih_eq)]
fn c20_read_n0() {
    let o = c20_body::<0, 2, 2, true>(false, Mode::Main);
    kani::cover!(o.nodata, "NoData");
    kani::cover!(o.badparam, "BadParameter for an unknown handle");
}

// @check props=C20 tier=quick
// @desc read with one stored sample: it is returned iff it matches the three masks (and the requested instance); read marks it READ and keeps it; SampleInfo states/counts/handles/valid_data/sample_rank; the instance becomes NOT_NEW and nothing else of any instance changes (C22: read/take never change instance_state or generation counts); NoData iff nothing matches; BadParameter iff the handle is unknown
// @bounds 1 stored sample (all 5 change kinds, symbolic writer/timestamp/counts) of one of 2 instances (fully symbolic view/instance state, generation counts 0..10^6, handle with 2 symbolic bytes), all three masks: every non-empty subset (two symbolic slots or ANY), max_samples 1..=4 or i32::MAX, specific handle none/known/unknown; unwind 3, the loops over the collection being built capped at 2 iterations (one stored sample; per-loop bounds from the ptab entry, unwinding assertions on)
// @assume I1: one InstanceState per handle and every stored sample has one; reader enabled
// @assume I2: sample generation counts 0..10^6, <= the instance's current counts, non-decreasing along the storage order of an instance
// @assume stub: InstanceHandle == is replaced by the equivalent branch-free 128-bit comparison (support_reader2::ih_eq; equivalence with the derived PartialEq proved over all inputs by c20_stub_equivalence)
// @enc dcps::dcps_domain_participant::data_reader_entity::DataReaderEntity::create_sample_collection
// @enc dcps::dcps_domain_participant::data_reader_entity::DataReaderEntity::read
#[kani::proof]
#[kani::unwind(3)]
#[kani::stub(<InstanceHandle as PartialEq<InstanceHandle>>::eq, super::support_reader2::ih_eq)]
fn c20_read_n1() {
    let o = c20_body::<1, 2, 2, true>(false, Mode::Main);
    kani::cover!(o.ok && !o.specific, "a collection was returned");
    kani::cover!(o.ok && o.specific, "a collection was returned for a specific instance");
    kani::cover!(o.nodata, "NoData");
    kani::cover!(o.badparam, "BadParameter for an unknown handle");
}

// @check props=C20 tier=thorough
// @desc take on an empty cache: NoData, or BadParameter for an unknown instance handle; nothing changes
// @bounds 0 stored samples, 2 instances (fully symbolic view/instance state, generation counts 0..10^6, handle with 2 symbolic bytes), all three masks: every non-empty subset (two symbolic slots or ANY), max_samples 1..=4 or i32::MAX, specific handle none/known/unknown; unwind 3
// @assume I1: one InstanceState per handle and every stored sample has one; reader enabled
// @assume stub: InstanceHandle == is replaced by the equivalent branch-free 128-bit comparison (support_reader2::ih_eq; equivalence with the derived PartialEq proved over all inputs by c20_stub_equivalence)
// @enc dcps::dcps_domain_participant::data_reader_entity::DataReaderEntity::create_sample_collection
// @enc dcps::dcps_domain_participant::data_reader_entity::DataReaderEntity::take
#[kani::proof]
#[kani::unwind(3)]
#[kani::stub(<InstanceHandle as PartialEq<InstanceHandle>>::eq, super::support_reader2::ih_eq)]
fn c20_take_n0() {
    let o = c20_body::<0, 2, 2, true>(true, Mode::Main);
    kani::cover!(o.nodata, "NoData");
    kani::cover!(o.badparam, "BadParameter for an unknown handle");
}

// @check props=C20,C22 tier=thorough
// @desc take with one stored sample: it is returned iff it matches the three masks (and the requested instance); take removes it; SampleInfo states/counts/handles/valid_data/sample_rank; the instance becomes NOT_NEW and nothing else of any instance changes (C22: read/take never change instance_state or generation counts); NoData iff nothing matches; BadParameter iff the handle is unknown
// @bounds 1 stored sample (all 5 change kinds, symbolic writer/timestamp/counts) of one of 2 instances (fully symbolic view/instance state, generation counts 0..10^6, handle with 2 symbolic bytes), all three masks: every non-empty subset (two symbolic slots or ANY), max_samples 1..=4 or i32::MAX, specific handle none/known/unknown; unwind 3, the loops over the collection being built capped at 2 iterations (one stored sample; per-loop bounds from the ptab entry, unwinding assertions on)
// @assume I1: one InstanceState per handle and every stored sample has one; reader enabled
// @assume I2: sample generation counts 0..10^6, <= the instance's current counts, non-decreasing along the storage order of an instance
// @assume stub: InstanceHandle == is replaced by the equivalent branch-free 128-bit comparison (support_reader2::ih_eq; equivalence with the derived PartialEq proved over all inputs by c20_stub_equivalence)
// @enc dcps::dcps_domain_participant::data_reader_entity::DataReaderEntity::create_sample_collection
// @enc dcps::dcps_domain_participant::data_reader_entity::DataReaderEntity::take
#[kani::proof]
#[kani::unwind(3)]
#[kani::stub(<InstanceHandle as PartialEq<InstanceHandle>>::eq, super::support_reader2::ih_eq)]
fn c20_take_n1() {
    let o = c20_body::<1, 2, 2, true>(true, Mode::Main);
    kani::cover!(o.ok && !o.specific, "a collection was returned");
    kani::cover!(o.ok && o.specific, "a collection was returned for a specific instance");
    kani::cover!(o.nodata, "NoData");
    kani::cover!(o.badparam, "BadParameter for an unknown handle");
}

// @check props=C20 tier=quick known=KF-C20-1
// @desc generation_rank and absolute_generation_rank of the returned sample equal the DDS definitions (2.2.2.5.1.10/11) computed from the sample's own generation counts -- restricted to the trigger of KF-C20-1 (expected to fail)
// @bounds 1 stored sample of one of 2 instances (fully symbolic view/instance state, generation counts 0..10^6, handle with 2 symbolic bytes), all three masks: every non-empty subset (two symbolic slots or ANY), max_samples 1..=4 or i32::MAX, specific handle none/known; unwind 3, the loops over the collection being built capped at 2 iterations
// @assume trigger KF-C20-1: some returned sample's own disposed+no_writers generation count differs from the number of not-alive->alive transitions among the returned samples of its instance up to and including it (with one stored sample: its own count is not 0, i.e. the samples of earlier generations were taken or do not match)
// @assume I1: one InstanceState per handle and every stored sample has one; reader enabled
// @assume I2: sample generation counts 0..10^6, <= the instance's current counts, non-decreasing along the storage order of an instance
// @assume known instance handle; the sample matches
// @assume stub: InstanceHandle == is replaced by the equivalent branch-free 128-bit comparison (support_reader2::ih_eq; equivalence with the derived PartialEq proved over all inputs by c20_stub_equivalence)
// @enc dcps::dcps_domain_participant::data_reader_entity::DataReaderEntity::create_sample_collection
// @enc dcps::dcps_domain_participant::data_reader_entity::DataReaderEntity::read
#[kani::proof]
#[kani::unwind(3)]
#[kani::stub(<InstanceHandle as PartialEq<InstanceHandle>>::eq, super::support_reader2::ih_eq)]
fn c20_ranks_n1__known() {
    let o = c20_body::<1, 2, 2, true>(false, Mode::RanksKnown);
    kani::cover!(o.ok, "a collection was returned");
}

// @check props=C20 tier=quick
// @desc generation_rank and absolute_generation_rank of the returned sample equal the DDS definitions (2.2.2.5.1.10/11) whenever the trigger of KF-C20-1 does not hold
// @bounds 1 stored sample of one of 2 instances (fully symbolic view/instance state, generation counts 0..10^6, handle with 2 symbolic bytes), all three masks: every non-empty subset (two symbolic slots or ANY), max_samples 1..=4 or i32::MAX, specific handle none/known; unwind 3, the loops over the collection being built capped at 2 iterations
// @assume negation of trigger KF-C20-1: every returned sample's own disposed+no_writers generation count equals the number of not-alive->alive transitions among the returned samples of its instance up to and including it
// @assume I1: one InstanceState per handle and every stored sample has one; reader enabled
// @assume I2: sample generation counts 0..10^6, <= the instance's current counts, non-decreasing along the storage order of an instance
// @assume known instance handle; the sample matches
// @assume stub: InstanceHandle == is replaced by the equivalent branch-free 128-bit comparison (support_reader2::ih_eq; equivalence with the derived PartialEq proved over all inputs by c20_stub_equivalence)
// @enc dcps::dcps_domain_participant::data_reader_entity::DataReaderEntity::create_sample_collection
// @enc dcps::dcps_domain_participant::data_reader_entity::DataReaderEntity::read
#[kani::proof]
#[kani::unwind(3)]
#[kani::stub(<InstanceHandle as PartialEq<InstanceHandle>>::eq, super::support_reader2::ih_eq)]
fn c20_ranks_n1__rest() {
    let o = c20_body::<1, 2, 2, true>(false, Mode::RanksRest);
    kani::cover!(o.ok, "a collection was returned");
}

// @check props=C20,C22,C23,C24 tier=thorough
// @desc the loop-free replacements used as stubs agree with the derived PartialEq / Ord / PartialOrd of InstanceHandle for all pairs of handles (all 32 bytes symbolic)
// @bounds none (all 2^256 pairs); unwind 17 (the derived comparisons are 16-byte memcmp loops)
// @enc dcps::infrastructure::instance::InstanceHandle::eq
// @enc dcps::infrastructure::instance::InstanceHandle::cmp
// @enc dcps::infrastructure::instance::InstanceHandle::partial_cmp
#[kani::proof]
#[kani::unwind(17)]
fn c20_stub_equivalence() {
    let a = InstanceHandle::new(kani::any());
    let b = InstanceHandle::new(kani::any());
    assert!((a == b) == ih_eq(&a, &b), "stub: eq agrees with the derived PartialEq");
    assert!(a.cmp(&b) == ih_cmp(&a, &b), "stub: cmp agrees with the derived Ord");
    assert!(a.partial_cmp(&b) == ih_partial_cmp(&a, &b), "stub: partial_cmp agrees with the derived PartialOrd");
    kani::cover!(a == b, "equal handles");
    kani::cover!(a < b, "ordered handles");
}
