// Root of the in-crate Kani harnesses (included from /repo/dds/src/lib.rs under
// cfg(all(kani, s2e_systems_dust_dds_verif))).
macro_rules! verif_mod {
    ($name:ident, $file:literal) => {
        mod $name {
            include!(concat!(env!("DUST_DDS_VERIF_HARNESS_DIR"), "/", $file));
        }
    };
}

verif_mod!(c14_time, "c14_time.rs");
