// C23 — read_next_instance / take_next_instance walk the instances in handle order.
//
// `UserDefinedDataReader::{read,take}_next_instance` (user_defined_data_reader.rs) are two-line
// compositions:   match self.next_instance(previous_handle) {
//                     Some(next_handle) => self.read(max_samples, masks.., &Some(next_handle)),
//                     None => Err(DdsError::NoData) }
// (`take` likewise; the inner read/take additionally clears the DATA_AVAILABLE status bit).  The
// wrapper type owns an `RtpsStatefulReader` and a status condition, so it is MIRRORED here on
// `DataReaderEntity<()>`: `wrapper_read_next_instance` below is that composition, token for token;
// a source guard in vlib/ptab/reader_cache2.py pins the text of the two wrappers in /repo.
//
// Obligations:
//  * c23_next_instance_*: the real `DataReaderEntity::next_instance` on a symbolic instance table
//    (<= 3 instances, <= 3 stored samples, symbolic masks).  By C20 (`read(.., &Some(h))` returns
//    exactly the matching samples of h and NoData iff there are none) the wrapper satisfies the
//    property iff `next_instance` returns the smallest handle > previous THAT HAS MATCHING SAMPLES
//    whenever such an instance exists -- this is what is asserted (no read is executed, cheap).
//  * c23_wrapper_*: the mirrored wrapper end to end (real next_instance + real read) on the minimal
//    shape: 2 instances, 1 stored sample (create_sample_collection is expensive: the loops over the
//    collection being built are capped at 2 iterations through the ptab entry's per-loop bounds).
use core::cmp::{Ord, PartialEq, PartialOrd}; // (in scope for the trait paths of the kani::stub attributes)

use super::support_reader2::*;
use crate::dcps::dcps_domain_participant::data_reader_entity::{DataReaderEntity, SampleList};
use crate::infrastructure::{
    error::{DdsError, DdsResult},
    instance::InstanceHandle,
    sample_info::{InstanceStateKind, SampleStateKind, ViewStateKind},
};
use crate::transport::types::ChangeKind;

/// Mirror of `UserDefinedDataReader::read_next_instance` (the `enabled` test is part of the mirrored
/// `DataReaderEntity::read`).
fn wrapper_read_next_instance(
    r: &mut DataReaderEntity<()>,
    max_samples: i32,
    previous_handle: &Option<InstanceHandle>,
    sample_states: &[SampleStateKind],
    view_states: &[ViewStateKind],
    instance_states: &[InstanceStateKind],
) -> DdsResult<SampleList> {
    match r.next_instance(previous_handle) {
        Some(next_handle) => r.read(
            max_samples,
            sample_states,
            view_states,
            instance_states,
            &Some(next_handle),
        ),
        None => Err(DdsError::NoData),
    }
}

fn lt(a: &InstanceHandle, b: &InstanceHandle) -> bool {
    u128::from_be_bytes(bytes_of(a)) < u128::from_be_bytes(bytes_of(b))
}

#[derive(Clone, Copy, PartialEq, Eq)]
enum Part {
    Known,
    Rest,
}

struct WalkOut {
    target_exists: bool,
    got_some: bool,
    skipped_needed: bool,
}

/// M instances (in any storage order), N stored samples, symbolic masks and previous handle.
fn c23_walk<const N: usize, const M: usize>(part: Part) -> WalkOut {
    let mut inst = [any_ispec(any_handle()); M];
    let mut i = 0;
    while i < M {
        inst[i] = any_ispec(any_handle());
        let mut j = 0;
        while j < i {
            kani::assume(inst[j].h != inst[i].h); // I1
            j += 1;
        }
        i += 1;
    }
    let mut r = reader(neutral_qos(false));
    let mut i = 0;
    while i < M {
        r.instances.push(mk_inst(&inst[i]));
        i += 1;
    }
    let sm = any_sample_mask();
    let vm = any_view_mask();
    let im = any_instance_mask();
    // matching[m]: instance m has a stored sample matching the masks (an instance may have no samples
    // at all: all of them taken -- `instances` entries are never removed by the implementation)
    let mut matching = [false; M];
    let mut i = 0;
    while i < N {
        let ix: usize = kani::any();
        kani::assume(ix < M);
        let s = SSpec {
            kind: any_kind(),
            writer: wguid(kani::any()),
            inst: ix,
            h: inst[ix].h,
            ss: any_sample_state(),
            dgc: 0,
            nwgc: 0,
            ts: None,
        };
        r.sample_list.push(mk_sample(&s));
        if in_smask(&sm, s.ss) && in_vmask(&vm, inst[ix].view) && in_imask(&im, inst[ix].st) {
            matching[ix] = true;
        }
        i += 1;
    }
    let prev: Option<InstanceHandle> = if kani::any() { Some(any_handle()) } else { None };

    // oracle: smallest handle > previous that has matching samples; and whether some instance
    // without matching samples lies strictly between previous and it
    let mut target: Option<InstanceHandle> = None;
    let mut m = 0;
    while m < M {
        let after = match &prev {
            Some(p) => lt(p, &inst[m].h),
            None => true,
        };
        if after && matching[m] {
            let better = match &target {
                Some(t) => lt(&inst[m].h, t),
                None => true,
            };
            if better {
                target = Some(inst[m].h);
            }
        }
        m += 1;
    }
    let mut blocked = false;
    let mut m = 0;
    while m < M {
        let after = match &prev {
            Some(p) => lt(p, &inst[m].h),
            None => true,
        };
        if let Some(t) = &target {
            if after && !matching[m] && lt(&inst[m].h, t) {
                blocked = true;
            }
        }
        m += 1;
    }
    kani::assume(blocked == (part == Part::Known));

    // ---- the real operation ----------------------------------------------------------------------
    let got = r.next_instance(&prev);

    if let Some(g) = &got {
        let after = match &prev {
            Some(p) => lt(p, g),
            None => true,
        };
        assert!(after, "C23: the selected instance handle is greater than the given one");
        assert!(inst_count(&r, g) == 1, "C23: the selected handle is an instance of the reader");
    }
    if let Some(t) = &target {
        assert!(
            got.is_some() && eq16(&bytes_of(&got.unwrap()), &bytes_of(t)),
            "C23: the first instance after the given handle that has matching samples is selected (otherwise the call answers NoData although such an instance exists)"
        );
    }
    core::mem::forget(r);
    WalkOut { target_exists: target.is_some(), got_some: got.is_some(), skipped_needed: blocked }
}

// @check props=C23 tier=quick known=KF-C23-1
// @desc next_instance must select the smallest instance handle greater than the given one that has samples matching the masks -- restricted to the trigger of KF-C23-1 (expected to fail: next_instance ignores the masks and the stored samples, so an instance without matching samples is selected and the wrapper answers NoData)
// @bounds 3 instances in any storage order (handles with 2 symbolic bytes, symbolic view/instance state), 2 stored samples with symbolic instance and sample state, masks = every non-empty subset, previous handle none or any handle; unwind 4 (3 instances + 1)
// @assume trigger KF-C23-1: an instance with a handle greater than the given one has matching samples and an instance without matching samples lies strictly between the given handle and it
// @assume I1: one InstanceState per handle and every stored sample has one
// @assume stub: InstanceHandle == / cmp / partial_cmp are replaced by the equivalent loop-free 128-bit comparisons (support_reader2::ih_eq, ih_cmp, ih_partial_cmp; equivalence proved over all inputs by c20_stub_equivalence)
// @enc dcps::dcps_domain_participant::data_reader_entity::DataReaderEntity::next_instance
#[kani::proof]
#[kani::unwind(4)]
#[kani::stub(<InstanceHandle as PartialEq<InstanceHandle>>::eq, super::support_reader2::ih_eq)]
#[kani::stub(<InstanceHandle as Ord>::cmp, super::support_reader2::ih_cmp)]
#[kani::stub(<InstanceHandle as PartialOrd<InstanceHandle>>::partial_cmp, super::support_reader2::ih_partial_cmp)]
fn c23_next_instance__known() {
    let o = c23_walk::<2, 3>(Part::Known);
    kani::cover!(o.skipped_needed && o.got_some, "an instance without matching samples was selected");
}

// @check props=C23 tier=quick
// @desc next_instance selects the smallest instance handle greater than the given one that has samples matching the masks, whenever no instance without matching samples lies in between (negation of trigger KF-C23-1); the selected handle is always greater than the given one and an instance of the reader; None only if no instance has a greater handle
// @bounds 3 instances in any storage order (handles with 2 symbolic bytes, symbolic view/instance state), 2 stored samples with symbolic instance and sample state, masks = every non-empty subset, previous handle none or any handle; unwind 4 (3 instances + 1)
// @assume negation of trigger KF-C23-1
// @assume I1: one InstanceState per handle and every stored sample has one
// @assume stub: InstanceHandle == / cmp / partial_cmp are replaced by the equivalent loop-free 128-bit comparisons (support_reader2::ih_eq, ih_cmp, ih_partial_cmp; equivalence proved over all inputs by c20_stub_equivalence)
// @enc dcps::dcps_domain_participant::data_reader_entity::DataReaderEntity::next_instance
#[kani::proof]
#[kani::unwind(4)]
#[kani::stub(<InstanceHandle as PartialEq<InstanceHandle>>::eq, super::support_reader2::ih_eq)]
#[kani::stub(<InstanceHandle as Ord>::cmp, super::support_reader2::ih_cmp)]
#[kani::stub(<InstanceHandle as PartialOrd<InstanceHandle>>::partial_cmp, super::support_reader2::ih_partial_cmp)]
fn c23_next_instance__rest() {
    let o = c23_walk::<2, 3>(Part::Rest);
    kani::cover!(o.target_exists && o.got_some, "the next instance with matching samples was selected");
    kani::cover!(!o.target_exists && !o.got_some, "no further instance");
    kani::cover!(!o.target_exists && o.got_some, "a further instance without matching samples (NoData from the inner read)");
}

// @check props=C23 tier=thorough
// @desc as c23_next_instance__rest with 3 stored samples
// @bounds 3 instances, 3 stored samples, otherwise as c23_next_instance__rest; unwind 4
// @assume negation of trigger KF-C23-1
// @assume I1: one InstanceState per handle and every stored sample has one
// @assume stub: InstanceHandle == / cmp / partial_cmp are replaced by the equivalent loop-free 128-bit comparisons (support_reader2::ih_eq, ih_cmp, ih_partial_cmp; equivalence proved over all inputs by c20_stub_equivalence)
// @enc dcps::dcps_domain_participant::data_reader_entity::DataReaderEntity::next_instance
#[kani::proof]
#[kani::unwind(4)]
#[kani::stub(<InstanceHandle as PartialEq<InstanceHandle>>::eq, super::support_reader2::ih_eq)]
#[kani::stub(<InstanceHandle as Ord>::cmp, super::support_reader2::ih_cmp)]
#[kani::stub(<InstanceHandle as PartialOrd<InstanceHandle>>::partial_cmp, super::support_reader2::ih_partial_cmp)]
fn c23_next_instance_n3__rest() {
    let o = c23_walk::<3, 3>(Part::Rest);
    kani::cover!(o.target_exists && o.got_some, "the next instance with matching samples was selected");
    kani::cover!(!o.target_exists && !o.got_some, "no further instance");
}

/// End to end: the mirrored wrapper on 2 instances A < B where only `with_sample` (0 = A, 1 = B) has
/// a stored, matching sample.
fn c23_wrapper(sample_in_b: bool) {
    let a = any_handle();
    let b = any_handle();
    kani::assume(lt(&a, &b));
    let ia = any_ispec(a);
    let ib = any_ispec(b);
    let mut r = reader(neutral_qos(false));
    // storage order of the two instances is symbolic
    if kani::any() {
        r.instances.push(mk_inst(&ia));
        r.instances.push(mk_inst(&ib));
    } else {
        r.instances.push(mk_inst(&ib));
        r.instances.push(mk_inst(&ia));
    }
    let owner = if sample_in_b { ib } else { ia };
    let s = SSpec {
        kind: any_kind(),
        writer: wguid(kani::any()),
        inst: 0,
        h: owner.h,
        ss: any_sample_state(),
        dgc: owner.dgc,
        nwgc: owner.nwgc,
        ts: None,
    };
    r.sample_list.push(mk_sample(&s));
    // masks that match the sample (one symbolic slot each; they contain the sample's states)
    let sm = [s.ss];
    let vm = [owner.view];
    let im = [owner.st];
    let res = wrapper_read_next_instance(&mut r, 1, &None, &sm, &vm, &im);
    match &res {
        Ok(list) => {
            assert!(list.len() == 1, "C23: the matching sample is returned");
            if list.len() == 1 {
                assert!(
                    eq16(&bytes_of(&list[0].1.instance_handle), &bytes_of(&owner.h)),
                    "C23: the returned sample belongs to the first instance with matching samples"
                );
            }
        }
        Err(DdsError::NoData) => {
            assert!(false, "C23: NoData although an instance after the given handle has matching samples");
        }
        Err(_) => assert!(false, "C23: unexpected error"),
    }
    kani::cover!(res.is_ok(), "samples of the next instance were returned");
    core::mem::forget(res);
    core::mem::forget(r);
}

// @check props=C23 tier=thorough known=KF-C23-1
// @desc mirrored read_next_instance(previous = none) end to end: instance A (smaller handle) has no stored samples, instance B has one matching sample: the call must return B's sample (expected to fail with NoData: KF-C23-1)
// @bounds 2 instances in any storage order (handles with 2 symbolic bytes, symbolic states), 1 stored sample (any kind / sample state) of the larger instance, masks = the singleton masks matching it, max_samples 1; unwind 3, the loops over the collection being built capped at 2 iterations
// @assume trigger KF-C23-1 (the first instance has no matching samples, a later one has)
// @assume stub: InstanceHandle == / cmp / partial_cmp are replaced by the equivalent loop-free 128-bit comparisons (support_reader2::ih_eq, ih_cmp, ih_partial_cmp; equivalence proved over all inputs by c20_stub_equivalence)
// @assume the wrapper UserDefinedDataReader::read_next_instance is mirrored (source guard pins its text)
// @enc dcps::dcps_domain_participant::data_reader_entity::DataReaderEntity::next_instance
// @enc dcps::dcps_domain_participant::data_reader_entity::DataReaderEntity::read
// @enc dcps::dcps_domain_participant::data_reader_entity::DataReaderEntity::create_sample_collection
#[kani::proof]
#[kani::unwind(3)]
#[kani::stub(<InstanceHandle as PartialEq<InstanceHandle>>::eq, super::support_reader2::ih_eq)]
#[kani::stub(<InstanceHandle as Ord>::cmp, super::support_reader2::ih_cmp)]
#[kani::stub(<InstanceHandle as PartialOrd<InstanceHandle>>::partial_cmp, super::support_reader2::ih_partial_cmp)]
fn c23_wrapper_skips__known() {
    c23_wrapper(true);
}

// @check props=C23 tier=thorough
// @desc mirrored read_next_instance(previous = none) end to end: the instance with the smaller handle has one matching sample, the other instance has none: the call returns exactly that sample
// @bounds 2 instances in any storage order (handles with 2 symbolic bytes, symbolic states), 1 stored sample (any kind / sample state) of the smaller instance, masks = the singleton masks matching it, max_samples 1; unwind 3, the loops over the collection being built capped at 2 iterations
// @assume negation of trigger KF-C23-1 (the first instance has matching samples)
// @assume stub: InstanceHandle == / cmp / partial_cmp are replaced by the equivalent loop-free 128-bit comparisons (support_reader2::ih_eq, ih_cmp, ih_partial_cmp; equivalence proved over all inputs by c20_stub_equivalence)
// @assume the wrapper UserDefinedDataReader::read_next_instance is mirrored (source guard pins its text)
// @enc dcps::dcps_domain_participant::data_reader_entity::DataReaderEntity::next_instance
// @enc dcps::dcps_domain_participant::data_reader_entity::DataReaderEntity::read
// @enc dcps::dcps_domain_participant::data_reader_entity::DataReaderEntity::create_sample_collection
#[kani::proof]
#[kani::unwind(3)]
#[kani::stub(<InstanceHandle as PartialEq<InstanceHandle>>::eq, super::support_reader2::ih_eq)]
#[kani::stub(<InstanceHandle as Ord>::cmp, super::support_reader2::ih_cmp)]
#[kani::stub(<InstanceHandle as PartialOrd<InstanceHandle>>::partial_cmp, super::support_reader2::ih_partial_cmp)]
fn c23_wrapper_first__rest() {
    c23_wrapper(false);
}

#[allow(dead_code)]
fn _kinds(_: ChangeKind) {}
