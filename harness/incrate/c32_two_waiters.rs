// C32 — several waiters on ONE StatusCondition (several WaitSets, or clones of one, blocked on the same condition):
// every waiter that registered while the trigger value was false must be notified when the condition becomes true,
// not only the one that registered last. Straight-line scenario on the real DcpsStatusCondition and the real
// notification channel; the status kinds, the enabled mask and which of the two wake-up paths is taken
// (add_communication_state of an enabled status, or set_enabled_statuses enabling a status that already changed)
// are symbolic. (The set_enabled_statuses wake-up path is decided for one waiter by c32_enable_after_register*.)
use core::future::Future;
use core::pin::Pin;
use core::task::{Context, Poll, Waker};

use crate::dcps::channels::notification::{notification, NotificationReceiver};
use crate::dcps::status_condition::DcpsStatusCondition;
use crate::infrastructure::status::StatusKind;

fn kind(k: u8) -> StatusKind {
    match k {
        0 => StatusKind::DataAvailable,
        1 => StatusKind::OfferedDeadlineMissed,
        _ => StatusKind::PublicationMatched,
    }
}

// Ready(Ok(())) = notified; Ready(Err(_)) (every sender dropped) does not count as a wake-up
fn poll_ready(rx: &mut NotificationReceiver) -> bool {
    let w = Waker::noop();
    let mut cx = Context::from_waker(w);
    matches!(Pin::new(rx).poll(&mut cx), Poll::Ready(Ok(())))
}

// @check props=C32 tier=quick
// @desc two waiters register on the same condition while its trigger value is false (the first one is parked: polled Pending); then an enabled status changes (add_communication_state): BOTH waiters are notified (their next poll is Ready) and get_trigger_value is true
// @bounds two waiters, one condition, all statuses enabled (default mask), symbolic changed status (3 kinds); unwind 14 (13-status loop of DcpsStatusCondition::default)
// @assume critical_section::acquire/release stubbed by no-ops (support_cs.rs): every access to the condition is one atomic step (one mail handled by the participant actor)
// @assume AtomicUsize::fetch_sub stubbed (support_cs.rs fetch_sub_never_last): shared channel state behind an Arc is never destroyed or freed
// @assume alloc::raw_vec::min_non_zero_cap stubbed by a faithful copy that, after the concrete warm-up (one earlier completed wait), asserts amortized Vec growth unreachable (checked obligation, support_cs.rs)
// @assume polls use Waker::noop(): "the waiter is woken" is established as "its next poll is Ready" + C34 (notify wakes the most recent Pending poll's waker)
// @enc dcps::status_condition::DcpsStatusCondition::register_notification
// @enc dcps::status_condition::DcpsStatusCondition::add_communication_state
// @enc dcps::status_condition::DcpsStatusCondition::set_enabled_statuses
// @enc dcps::status_condition::DcpsStatusCondition::get_trigger_value
// @enc dcps::channels::notification::NotificationSender::notify
#[kani::proof]
#[kani::unwind(14)]
#[kani::stub(critical_section::acquire, super::support_cs::cs_acquire)]
#[kani::stub(critical_section::release, super::support_cs::cs_release)]
#[kani::stub(core::sync::atomic::Atomic::<usize>::fetch_sub, super::support_cs::fetch_sub_never_last)]
#[kani::stub(alloc::raw_vec::min_non_zero_cap, super::support_cs::min_non_zero_cap_checked)]
fn c32_two_waiters_both_woken() {
    let mut sc = DcpsStatusCondition::default();
    // concrete warm-up = one earlier completed wait (register, status change, read): logically the initial state,
    // physically both Vecs of the condition have their first allocation, so amortized growth can be asserted
    // unreachable afterwards (checked obligation of the min_non_zero_cap stub)
    let (tx0, rx0) = notification();
    sc.register_notification(tx0);
    sc.add_communication_state(kind(0));
    sc.remove_communication_state(kind(0));
    core::mem::forget(rx0);
    super::support_cs::arm_growth_check();
    let s: u8 = kani::any();
    kani::assume(s < 3);
    assert!(!sc.get_trigger_value(), "C32: nothing has changed yet");
    let (tx1, mut rx1) = notification();
    let (tx2, mut rx2) = notification();
    sc.register_notification(tx1.clone()); // WaitSetAsync::wait registers a clone and keeps its sender while it waits
    assert!(!poll_ready(&mut rx1), "C32: waiter 1 parks (Pending) while the trigger value is false");
    sc.register_notification(tx2.clone());
    sc.add_communication_state(kind(s));
    assert!(sc.get_trigger_value(), "C32: trigger value true once an enabled status has changed");
    let r2 = poll_ready(&mut rx2);
    let r1 = poll_ready(&mut rx1);
    assert!(r2, "C32: the waiter that registered last is woken when the condition becomes true");
    assert!(r1, "C32: an earlier registered waiter on the same condition is woken too (no lost wake-up)");
    kani::cover!(s == 2, "woken through add_communication_state(PublicationMatched)");
    core::mem::forget((sc, rx1, rx2, tx1, tx2));
}
