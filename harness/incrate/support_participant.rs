// Shared fixture: a REAL DcpsDomainParticipant built by its own constructor, with the environment
// replaced by stubs implemented through the repository's own traits:
//   * clock      : `VRuntime { now }` returns one (symbolic) Time,
//   * timer      : delay() is an immediately-ready future, arguments ignored,
//   * spawner    : spawn() drops the future (listener tasks never run: their mails stay queued in the
//                  real mpsc channel where a harness can inspect them),
//   * transport  : `Capture` records every datagram handed to WriteMessage::write_message,
//   * DCPS channel: one static embassy channel (its sender is only stored, never polled).
// Every harness using it must carry the critical-section stubs (see support_cs.rs).
use alloc::{boxed::Box, string::String, sync::Arc, vec::Vec};
use core::cell::RefCell;
use core::future::Future;

use crate::dcps::dcps_domain_participant::participant_entity::DcpsDomainParticipant;
use crate::dcps::status_mask::StatusMask;
use crate::dds_async::domain_participant_factory::{DcpsChannel, DcpsSender};
use crate::infrastructure::qos::DomainParticipantQos;
use crate::infrastructure::status::StatusKind;
use crate::infrastructure::time::Time;
use crate::runtime::{Clock, DdsRuntime, Spawner, TaskHandle, Timer};
use crate::transport::interface::{RtpsTransportParticipant, WriteMessage};
use crate::transport::types::{GuidPrefix, Locator};

#[derive(Clone)]
pub struct VClock {
    pub now: Time,
}
impl Clock for VClock {
    fn now(&self) -> Time {
        self.now
    }
}

#[derive(Clone)]
pub struct VTimer;
impl Timer for VTimer {
    fn delay(&mut self, _duration: core::time::Duration) -> impl Future<Output = ()> + Send {
        core::future::ready(())
    }
}

pub struct VTask;
impl TaskHandle for VTask {
    fn join(&self) {}
}

#[derive(Clone)]
pub struct VSpawner;
impl Spawner for VSpawner {
    type TaskHandle = VTask;
    fn spawn(&self, f: impl Future<Output = ()> + Send + 'static) -> Self::TaskHandle {
        core::mem::forget(f);
        VTask
    }
}

pub struct VRuntime {
    pub now: Time,
}
impl DdsRuntime for VRuntime {
    type ClockHandle = VClock;
    type TimerHandle = VTimer;
    type SpawnerHandle = VSpawner;
    fn timer(&self) -> VTimer {
        VTimer
    }
    fn clock(&self) -> VClock {
        VClock { now: self.now }
    }
    fn spawner(&self) -> VSpawner {
        VSpawner
    }
}

/// Capturing transport: datagrams (and the number of destination locators) in send order.
pub struct CaptureInner {
    pub datagrams: critical_section::Mutex<RefCell<Vec<(Vec<u8>, usize)>>>,
}
#[derive(Clone)]
pub struct Capture(pub Arc<CaptureInner>);
impl Capture {
    pub fn new() -> Self {
        Capture(Arc::new(CaptureInner {
            datagrams: critical_section::Mutex::new(RefCell::new(Vec::new())),
        }))
    }
    pub fn count(&self) -> usize {
        critical_section::with(|cs| self.0.datagrams.borrow(cs).borrow().len())
    }
    pub fn get(&self, i: usize) -> Vec<u8> {
        critical_section::with(|cs| self.0.datagrams.borrow(cs).borrow()[i].0.clone())
    }
    pub fn clear(&self) {
        critical_section::with(|cs| self.0.datagrams.borrow(cs).borrow_mut().clear())
    }
}
impl WriteMessage for Capture {
    fn write_message(&self, buf: &[u8], locators: &[Locator]) {
        critical_section::with(|cs| {
            self.0
                .datagrams
                .borrow(cs)
                .borrow_mut()
                .push((buf.to_vec(), locators.len()))
        })
    }
}

pub static VERIF_DCPS_CHANNEL: DcpsChannel = DcpsChannel::new();

pub fn dcps_sender() -> DcpsSender {
    VERIF_DCPS_CHANNEL.sender()
}

pub const PREFIX: GuidPrefix = [1, 2, 3, 4, 5, 6, 7, 8, 9, 10, 11, 12];

pub fn transport(capture: &Capture, fragment_size: usize) -> RtpsTransportParticipant {
    RtpsTransportParticipant {
        message_writer: Box::new(capture.clone()),
        default_unicast_locator_list: Vec::new(),
        metatraffic_unicast_locator_list: Vec::new(),
        metatraffic_multicast_locator_list: Vec::new(),
        default_multicast_locator_list: Vec::new(),
        fragment_size,
    }
}

pub fn mask_from_bits(bits: u16) -> StatusMask {
    if bits == 0 {
        // loop-free for the common "no listener status" case (keeps harness unwind bounds small)
        return StatusMask::default();
    }
    const ALL: [StatusKind; 13] = [
        StatusKind::InconsistentTopic,
        StatusKind::OfferedDeadlineMissed,
        StatusKind::RequestedDeadlineMissed,
        StatusKind::OfferedIncompatibleQos,
        StatusKind::RequestedIncompatibleQos,
        StatusKind::SampleLost,
        StatusKind::SampleRejected,
        StatusKind::DataOnReaders,
        StatusKind::DataAvailable,
        StatusKind::LivelinessLost,
        StatusKind::LivelinessChanged,
        StatusKind::PublicationMatched,
        StatusKind::SubscriptionMatched,
    ];
    ALL.iter().enumerate().filter(|(i, _)| bits & (1 << i) != 0).map(|(_, s)| s).collect()
}

/// A participant in domain `domain_id` (not enabled: enabling announces through XTypes).
pub fn participant(capture: &Capture, domain_id: i32) -> DcpsDomainParticipant {
    DcpsDomainParticipant::new(
        domain_id,
        String::new(),
        PREFIX,
        DomainParticipantQos::default(),
        None,
        mask_from_bits(0),
        transport(capture, 1344),
        dcps_sender(),
        core::time::Duration::from_secs(5),
    )
}


/// Stub for `<TypeInformation as From<DynamicType>>::from` (computes MD5 hashes of the XTypes-serialized
/// minimal/complete type objects through DynamicData — not encodable, see DESIGN.md section 2). Every
/// `TopicEntity::new` calls it. Use on harnesses that create topics:
///   #[kani::stub(<crate::xtypes::type_object::TypeInformation as core::convert::From<crate::xtypes::dynamic_type::DynamicType<'static>>>::from, super::support_participant::type_information_stub)]
/// The returned value (TkNone identifiers) is only stored in `TopicEntity::type_information` and sent in
/// discovery announcements; a claim that depends on the type information value must not use this stub.
pub fn type_information_stub<'a>(
    _value: crate::xtypes::dynamic_type::DynamicType<'a>,
) -> crate::xtypes::type_object::TypeInformation
where
    'a: 'a,
{
    use crate::xtypes::type_object::{TypeIdentifier, TypeIdentifierWithDependencies, TypeIdentifierWithSize, TypeInformation};
    let w = || TypeIdentifierWithDependencies {
        typeid_with_size: TypeIdentifierWithSize { type_id: TypeIdentifier::TkNone, typeobject_serialized_size: 0 },
        dependent_typeid_count: 0,
        dependent_typeids: Vec::new(),
    };
    TypeInformation { minimal: w(), complete: w() }
}


/// `.expect()` / `.unwrap()` on a `Result` whose `Err` is reachable as far as symbolic execution can tell
/// drags `core::fmt` Debug formatting of `DdsError` (Strings, PadAdapter, memchr loops) into the model —
/// measured: c35_topic_handle >900 s with `.expect`, see HARNESS_GUIDE. `must_ok!(result, "literal")` fails
/// the proof with a static message instead and formats nothing (kani::assert needs a string literal, hence
/// a macro). Use as `sp::must_ok!(p.create_topic(..), "C35: topic creation must succeed")`.
macro_rules! must_ok {
    ($r:expr, $msg:literal) => {
        match $r {
            Ok(v) => v,
            Err(_) => {
                kani::assert(false, $msg);
                kani::assume(false);
                loop {}
            }
        }
    };
}
pub(crate) use must_ok;

/// Same for `Option`.
macro_rules! must_some {
    ($r:expr, $msg:literal) => {
        match $r {
            Some(v) => v,
            None => {
                kani::assert(false, $msg);
                kani::assume(false);
                loop {}
            }
        }
    };
}
pub(crate) use must_some;

/// Stub for `alloc::fmt::format` (what `format!` expands to): error paths such as
/// `DdsError::PreconditionNotMet(format!(..))` build their messages with it, and string formatting
/// (memchr, PadAdapter, integer printing loops) dominates symbolic execution. The message text is in no claim.
///   #[kani::stub(alloc::fmt::format, super::support_participant::fmt_format_stub)]
pub fn fmt_format_stub(_args: core::fmt::Arguments<'_>) -> String {
    String::new()
}

/// Stub for `<TopicKind as From<&DynamicType>>::from` (recursive walk over the member list looking for key
/// members). The `&'static DynamicType` is read back through heap-stored `TopicEntity`s, so CBMC cannot
/// constant-fold it and unrolls the recursion to the unwind bound (measured: one create_data_writer > 900 s).
/// Returns what the real function returns for the KEYLESS type every participant harness uses
/// (`<infrastructure::time::Duration as Type>::TYPE`: two primitive members, no key) — only valid with that type.
///   #[kani::stub(<crate::transport::types::TopicKind as core::convert::From<&crate::xtypes::dynamic_type::DynamicType<'static>>>::from, super::support_participant::topic_kind_nokey_stub)]
pub fn topic_kind_nokey_stub<'r, 'a>(_value: &'r crate::xtypes::dynamic_type::DynamicType<'a>) -> crate::transport::types::TopicKind
where
    'a: 'a,
    'r: 'r,
{
    crate::transport::types::TopicKind::NoKey
}

/// No-op stubs for the SEDP announcement of a new/changed local entity (`announce_data_writer`,
/// `announce_data_reader`, `announce_topic`): they encode DiscoveredWriter/Reader/TopicData through
/// DynamicData (not encodable). `create_data_writer` etc. reach them only when the parent is enabled, but the
/// `enabled` flag is read back from a heap-stored entity and symbolic execution cannot discharge the branch,
/// so without the stub the DynamicData code is unrolled anyway (measured: one create_data_writer > 600 s).
/// A harness using them states: "the discovery announcement of local entities is cut out".
///   #[kani::stub(crate::dcps::dcps_domain_participant::participant_entity::DcpsDomainParticipant::announce_data_writer, super::support_participant::announce_data_writer_stub)]
pub fn announce_data_writer_stub<R: DdsRuntime>(
    _p: &mut DcpsDomainParticipant,
    _publisher_handle: &crate::infrastructure::instance::InstanceHandle,
    _data_writer_handle: &crate::infrastructure::instance::InstanceHandle,
    _runtime: &R,
) {
}
pub fn announce_data_reader_stub<R: DdsRuntime>(
    _p: &mut DcpsDomainParticipant,
    _subscriber_handle: &crate::infrastructure::instance::InstanceHandle,
    _data_reader_handle: &crate::infrastructure::instance::InstanceHandle,
    _runtime: &R,
) {
}
pub fn announce_topic_stub<R: DdsRuntime>(_p: &mut DcpsDomainParticipant, _topic_name: String, _runtime: &R) {}
