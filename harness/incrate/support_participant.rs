// Shared fixture: a REAL DcpsDomainParticipant built by its own constructor, with the environment
// replaced by stubs implemented through the repository's own traits:
//   * clock      : `VRuntime { now }` returns one (symbolic) Time,
//   * timer      : delay() is an immediately-ready future, arguments ignored,
//   * spawner    : spawn() drops the future (listener tasks never run: their mails stay queued in the
//                  real mpsc channel where a harness can inspect them),
//   * transport  : `Capture` records every datagram handed to WriteMessage::write_message,
//   * DCPS channel: one static embassy channel (its sender is only stored, never polled).
// Every harness using it must carry the critical-section stubs (see support_cs.rs).
use alloc::{boxed::Box, string::String, sync::Arc, vec::Vec};
use core::cell::RefCell;
use core::future::Future;

use crate::dcps::dcps_domain_participant::participant_entity::DcpsDomainParticipant;
use crate::dcps::status_mask::StatusMask;
use crate::dds_async::domain_participant_factory::{DcpsChannel, DcpsSender};
use crate::infrastructure::qos::DomainParticipantQos;
use crate::infrastructure::status::StatusKind;
use crate::infrastructure::time::Time;
use crate::runtime::{Clock, DdsRuntime, Spawner, TaskHandle, Timer};
use crate::transport::interface::{RtpsTransportParticipant, WriteMessage};
use crate::transport::types::{GuidPrefix, Locator};

#[derive(Clone)]
pub struct VClock {
    pub now: Time,
}
impl Clock for VClock {
    fn now(&self) -> Time {
        self.now
    }
}

#[derive(Clone)]
pub struct VTimer;
impl Timer for VTimer {
    fn delay(&mut self, _duration: core::time::Duration) -> impl Future<Output = ()> + Send {
        core::future::ready(())
    }
}

pub struct VTask;
impl TaskHandle for VTask {
    fn join(&self) {}
}

#[derive(Clone)]
pub struct VSpawner;
impl Spawner for VSpawner {
    type TaskHandle = VTask;
    fn spawn(&self, f: impl Future<Output = ()> + Send + 'static) -> Self::TaskHandle {
        core::mem::forget(f);
        VTask
    }
}

pub struct VRuntime {
    pub now: Time,
}
impl DdsRuntime for VRuntime {
    type ClockHandle = VClock;
    type TimerHandle = VTimer;
    type SpawnerHandle = VSpawner;
    fn timer(&self) -> VTimer {
        VTimer
    }
    fn clock(&self) -> VClock {
        VClock { now: self.now }
    }
    fn spawner(&self) -> VSpawner {
        VSpawner
    }
}

/// Capturing transport: datagrams (and the number of destination locators) in send order.
pub struct CaptureInner {
    pub datagrams: critical_section::Mutex<RefCell<Vec<(Vec<u8>, usize)>>>,
}
#[derive(Clone)]
pub struct Capture(pub Arc<CaptureInner>);
impl Capture {
    pub fn new() -> Self {
        Capture(Arc::new(CaptureInner {
            datagrams: critical_section::Mutex::new(RefCell::new(Vec::new())),
        }))
    }
    pub fn count(&self) -> usize {
        critical_section::with(|cs| self.0.datagrams.borrow(cs).borrow().len())
    }
    pub fn get(&self, i: usize) -> Vec<u8> {
        critical_section::with(|cs| self.0.datagrams.borrow(cs).borrow()[i].0.clone())
    }
    pub fn clear(&self) {
        critical_section::with(|cs| self.0.datagrams.borrow(cs).borrow_mut().clear())
    }
}
impl WriteMessage for Capture {
    fn write_message(&self, buf: &[u8], locators: &[Locator]) {
        critical_section::with(|cs| {
            self.0
                .datagrams
                .borrow(cs)
                .borrow_mut()
                .push((buf.to_vec(), locators.len()))
        })
    }
}

pub static VERIF_DCPS_CHANNEL: DcpsChannel = DcpsChannel::new();

pub fn dcps_sender() -> DcpsSender {
    VERIF_DCPS_CHANNEL.sender()
}

pub const PREFIX: GuidPrefix = [1, 2, 3, 4, 5, 6, 7, 8, 9, 10, 11, 12];

pub fn transport(capture: &Capture, fragment_size: usize) -> RtpsTransportParticipant {
    RtpsTransportParticipant {
        message_writer: Box::new(capture.clone()),
        default_unicast_locator_list: Vec::new(),
        metatraffic_unicast_locator_list: Vec::new(),
        metatraffic_multicast_locator_list: Vec::new(),
        default_multicast_locator_list: Vec::new(),
        fragment_size,
    }
}

pub fn mask_from_bits(bits: u16) -> StatusMask {
    const ALL: [StatusKind; 13] = [
        StatusKind::InconsistentTopic,
        StatusKind::OfferedDeadlineMissed,
        StatusKind::RequestedDeadlineMissed,
        StatusKind::OfferedIncompatibleQos,
        StatusKind::RequestedIncompatibleQos,
        StatusKind::SampleLost,
        StatusKind::SampleRejected,
        StatusKind::DataOnReaders,
        StatusKind::DataAvailable,
        StatusKind::LivelinessLost,
        StatusKind::LivelinessChanged,
        StatusKind::PublicationMatched,
        StatusKind::SubscriptionMatched,
    ];
    ALL.iter().enumerate().filter(|(i, _)| bits & (1 << i) != 0).map(|(_, s)| s).collect()
}

/// A participant in domain `domain_id` (not enabled: enabling announces through XTypes).
pub fn participant(capture: &Capture, domain_id: i32) -> DcpsDomainParticipant {
    DcpsDomainParticipant::new(
        domain_id,
        String::new(),
        PREFIX,
        DomainParticipantQos::default(),
        None,
        mask_from_bits(0),
        transport(capture, 1344),
        dcps_sender(),
        core::time::Duration::from_secs(5),
    )
}
