// C37 (aggregate part) — set_qos / get_qos / create_topic on a REAL DcpsDomainParticipant (pattern A).
// Participant, publisher, subscriber and topic are created through the real create_* operations; the
// `enabled` flag and (where stated) the previous QoS of the entity under test are written directly
// into the entity (the real enable_* announces through DynamicData, which is out of reach; set_*_qos
// only reads the flag).  ONE real set_*_qos / create_topic with a symbolic QoS follows and the stored
// QoS is observed in the entity's `qos` field; that get_*_qos returns exactly that field is decided by
// the separate c37_get_* harnesses (a `set` followed by a `get` in one harness makes CBMC lose track
// of the vector pointers inside the heap-allocated entity: > 10 GB, measured).
//   Err  => the error is the one DDS names (InconsistentPolicy / ImmutablePolicy) and the stored QoS
//           is the previous one;
//   Ok   => exactly when the reference model (support_qos) accepts, and the stored QoS is the argument.
// NOT reachable (measured, see the property table): set_data_writer_qos / set_data_reader_qos on a
// participant - any access to the writer/reader entity that lives in the vector inside the
// heap-allocated publisher/subscriber entity (pointer loaded from an untyped heap object) exhausts
// 10 GB in CBMC's propositional reduction even with fully concrete inputs.  Their two ingredients,
// is_consistent and check_immutability, are decided in c37_qos_kernels.rs.
use super::support_participant as sp;
use super::support_qos as sq;
use crate::dcps::dcps_domain_participant::participant_entity::DcpsDomainParticipant;
use crate::infrastructure::error::{DdsError, DdsResult};
use crate::infrastructure::instance::InstanceHandle;
use crate::infrastructure::qos::{PublisherQos, QosKind, SubscriberQos, TopicQos};
use crate::infrastructure::time::Time;
use crate::xtypes::type_support::Type;
use alloc::string::String;

fn rt() -> sp::VRuntime {
    sp::VRuntime { now: Time::new(1, 0) }
}
fn new_topic(p: &mut DcpsDomainParticipant, qos: QosKind<TopicQos>) -> DdsResult<InstanceHandle> {
    p.create_topic(
        String::from("A"),
        String::from("T"),
        qos,
        None,
        sp::mask_from_bits(0),
        <crate::infrastructure::time::Duration as Type>::TYPE,
        &rt(),
    )
}
fn new_publisher(p: &mut DcpsDomainParticipant) -> InstanceHandle {
    sp::must_ok!(p.create_user_defined_publisher(QosKind::Default, None, sp::mask_from_bits(0), &rt()), "C37: publisher creation")
}
fn new_subscriber(p: &mut DcpsDomainParticipant) -> InstanceHandle {
    sp::must_ok!(p.create_user_defined_subscriber(QosKind::Default, None, sp::mask_from_bits(0), &rt()), "C37: subscriber creation")
}
fn is_inconsistent<T>(r: &DdsResult<T>) -> bool {
    matches!(r, Err(DdsError::InconsistentPolicy))
}
fn is_immutable<T>(r: &DdsResult<T>) -> bool {
    matches!(r, Err(DdsError::ImmutablePolicy))
}

/// Every scalar (non-sequence) policy of two TopicQos values is equal.
fn topic_scalars_equal(a: &TopicQos, b: &TopicQos) -> bool {
    a.durability == b.durability
        && a.deadline == b.deadline
        && a.latency_budget == b.latency_budget
        && a.liveliness == b.liveliness
        && a.reliability == b.reliability
        && a.destination_order == b.destination_order
        && a.history == b.history
        && a.resource_limits == b.resource_limits
        && a.transport_priority == b.transport_priority
        && a.lifespan == b.lifespan
        && a.ownership == b.ownership
}
/// TopicQos with every scalar policy symbolic and empty sequences (topic data, representation).
fn any_scalar_topic_qos() -> TopicQos {
    let mut q = sq::any_topic_qos();
    q.representation.value = alloc::vec::Vec::new();
    q
}

// @check props=C37 tier=quick
// @desc set_topic_qos on a topic created by the real create_topic, enabled flag symbolic, previous QoS = default, ANY new QoS: Ok exactly when consistent and (not enabled or no Changeable=NO policy differs); Err is InconsistentPolicy / ImmutablePolicy and the stored QoS is the previous one; Ok => the stored QoS is the argument (every scalar policy compared)
// @bounds one participant / topic; new TopicQos with every scalar policy symbolic (limits Unlimited / Limited(any i32 >= 0), all kinds, all durations); topic data and representation list empty; enabled flag symbolic. unwind 18 (16-byte instance handles compared by memcmp + 2; 13 status kinds of the listener mask; lists of length 1)
// @assume stub: TypeInformation::from (not read by set/get_topic_qos) and alloc::fmt::format (error-message text); enabled flag written directly; limits non-negative; when the new QoS is both inconsistent and an immutable change either error is accepted
// @enc dcps::dcps_domain_participant::topic_methods::DcpsDomainParticipant::set_topic_qos
// @enc dcps::dcps_domain_participant::participant_methods::DcpsDomainParticipant::create_topic
// @enc infrastructure::qos::TopicQos::is_consistent
#[kani::proof]
#[kani::unwind(18)]
#[kani::stub(critical_section::acquire, super::support_cs::cs_acquire)]
#[kani::stub(critical_section::release, super::support_cs::cs_release)]
#[kani::stub(<crate::xtypes::type_object::TypeInformation as core::convert::From<crate::xtypes::dynamic_type::DynamicType<'static>>>::from, super::support_participant::type_information_stub)]
#[kani::stub(alloc::fmt::format, super::support_participant::fmt_format_stub)]
fn c37_set_topic_qos() {
    let cap = sp::Capture::new();
    let mut p = sp::participant(&cap, 0);
    sp::must_ok!(new_topic(&mut p, QosKind::Default), "C37: topic creation");
    let old = TopicQos::const_default();
    let enabled: bool = kani::any();
    let n_topics = p.domain_participant.locally_created_topic_list.len();
    assert!(n_topics == 1, "C37: the created topic is stored");
    p.domain_participant.locally_created_topic_list[0].enabled = enabled;

    let new = any_scalar_topic_qos();
    kani::assume(sq::topic_limits_non_negative(&new));
    let consistent = sq::topic_consistent(&new);
    let immutable_ok = sq::topic_immutables_equal(&old, &new);

    let r = p.set_topic_qos(String::from("A"), QosKind::Specific(new.clone()));
    let stored = &p.domain_participant.locally_created_topic_list[0].qos;

    assert!(r.is_ok() == (consistent && (!enabled || immutable_ok)), "C37: set_topic_qos accepts exactly a consistent QoS that changes no immutable policy of an enabled topic");
    match &r {
        Ok(()) => assert!(topic_scalars_equal(stored, &new), "C37: an accepted set_topic_qos stores the argument"),
        Err(_) => {
            assert!((!consistent && is_inconsistent(&r)) || (enabled && !immutable_ok && is_immutable(&r)), "C37: set_topic_qos fails with InconsistentPolicy / ImmutablePolicy");
            assert!(topic_scalars_equal(stored, &old), "C37: a rejected set_topic_qos keeps the previous QoS");
        }
    }
    kani::cover!(r.is_ok() && enabled && !topic_scalars_equal(&old, &new), "enabled topic: changeable policies changed");
    kani::cover!(r.is_ok() && !enabled && !immutable_ok, "not enabled topic: immutable policies changed");
    kani::cover!(is_immutable(&r), "ImmutablePolicy reported");
    kani::cover!(is_inconsistent(&r) && enabled, "InconsistentPolicy reported on an enabled topic");
    kani::cover!(is_inconsistent(&r) && !enabled, "InconsistentPolicy reported on a topic that is not enabled");
    core::mem::forget((p, old, new));
}

// @check props=C37 tier=quick
// @desc get_topic_qos returns exactly the QoS stored in the topic entity, for ANY stored scalar policies (written directly into the entity) - together with c37_set_topic_qos / c37_create_topic_qos: an accepted QoS is returned unchanged by get_qos, a rejected one leaves get_qos at the previous value
// @bounds one topic; every scalar policy of the stored TopicQos symbolic; sequences empty. unwind 18
// @assume stub: TypeInformation::from, alloc::fmt::format
// @enc dcps::dcps_domain_participant::topic_methods::DcpsDomainParticipant::get_topic_qos
#[kani::proof]
#[kani::unwind(18)]
#[kani::stub(critical_section::acquire, super::support_cs::cs_acquire)]
#[kani::stub(critical_section::release, super::support_cs::cs_release)]
#[kani::stub(<crate::xtypes::type_object::TypeInformation as core::convert::From<crate::xtypes::dynamic_type::DynamicType<'static>>>::from, super::support_participant::type_information_stub)]
#[kani::stub(alloc::fmt::format, super::support_participant::fmt_format_stub)]
fn c37_get_topic_qos_returns_stored() {
    let cap = sp::Capture::new();
    let mut p = sp::participant(&cap, 0);
    sp::must_ok!(new_topic(&mut p, QosKind::Default), "C37: topic creation");
    let t = any_scalar_topic_qos();
    {
        let q = &mut p.domain_participant.locally_created_topic_list[0].qos;
        q.durability = t.durability.clone();
        q.deadline = t.deadline.clone();
        q.latency_budget = t.latency_budget.clone();
        q.liveliness = t.liveliness.clone();
        q.reliability = t.reliability.clone();
        q.destination_order = t.destination_order.clone();
        q.history = t.history.clone();
        q.resource_limits = t.resource_limits.clone();
        q.transport_priority = t.transport_priority.clone();
        q.lifespan = t.lifespan.clone();
        q.ownership = t.ownership.clone();
    }
    let gt = sp::must_ok!(p.get_topic_qos(String::from("A")), "C37: get_topic_qos succeeds");
    assert!(topic_scalars_equal(&gt, &t), "C37: get_topic_qos returns the stored QoS");
    kani::cover!(!topic_scalars_equal(&t, &TopicQos::const_default()), "non-default stored values");
    core::mem::forget((p, t, gt));
}

// get_publisher_qos / get_subscriber_qos on an entity whose stored QoS is symbolic are NOT decidable here
// (measured, 2 variants each: QoS written into the entity, entity created with the QoS): the getters clone
// PublisherQos / SubscriberQos including `partition.name: Vec<String>` out of the heap-allocated entity;
// with symbolic bytes in that object CBMC no longer knows the vector length and the element-wise String
// clone loop exhausts 8 GB in propositional reduction.  The setters are observed through the stored field.

// @check props=C37 tier=quick
// @desc set_subscriber_qos and set_publisher_qos (enabled flag symbolic, ANY previous and new presentation / autoenable): Ok exactly when not enabled or PRESENTATION unchanged; Err is ImmutablePolicy and the stored QoS is the previous one; Ok => the stored QoS is the argument (the publisher part found KF-C37-1 - no immutability check in set_publisher_qos -, repaired; the full oracle is asserted for both entities)
// @bounds one participant / publisher / subscriber; presentation (scope x coherent x ordered) and autoenable symbolic in previous and new QoS; partition and group data empty. unwind 18
// @assume enabled flags and previous presentation / autoenable written directly into the entities
// @enc dcps::dcps_domain_participant::subscriber_methods::DcpsDomainParticipant::set_subscriber_qos
// @enc dcps::dcps_domain_participant::publisher_methods::DcpsDomainParticipant::set_publisher_qos
// @enc infrastructure::qos::SubscriberQos::check_immutability
// @enc infrastructure::qos::PublisherQos::check_immutability
#[kani::proof]
#[kani::unwind(18)]
#[kani::stub(critical_section::acquire, super::support_cs::cs_acquire)]
#[kani::stub(critical_section::release, super::support_cs::cs_release)]
fn c37_set_group_qos() {
    let cap = sp::Capture::new();
    let mut p = sp::participant(&cap, 0);
    let hs = new_subscriber(&mut p);
    let hp = new_publisher(&mut p);

    // subscriber
    let old_pres = sq::any_presentation();
    let old_auto: bool = kani::any();
    let mut new = SubscriberQos::const_default();
    new.presentation = sq::any_presentation();
    new.entity_factory.autoenable_created_entities = kani::any();
    let enabled: bool = kani::any();
    p.domain_participant.user_defined_subscriber_list[0].subscriber_entity.qos.presentation = old_pres.clone();
    p.domain_participant.user_defined_subscriber_list[0].subscriber_entity.qos.entity_factory.autoenable_created_entities = old_auto;
    p.domain_participant.user_defined_subscriber_list[0].subscriber_entity.enabled = enabled;
    let r = p.set_subscriber_qos(&hs, QosKind::Specific(new.clone()));
    let stored = &p.domain_participant.user_defined_subscriber_list[0].subscriber_entity.qos;
    assert!(r.is_ok() == (!enabled || old_pres == new.presentation), "C37: set_subscriber_qos rejects exactly a PRESENTATION change on an enabled subscriber");
    match &r {
        Ok(()) => assert!(stored.presentation == new.presentation && stored.entity_factory == new.entity_factory, "C37: an accepted set_subscriber_qos stores the argument"),
        Err(_) => {
            assert!(is_immutable(&r), "C37: set_subscriber_qos fails with ImmutablePolicy");
            assert!(stored.presentation == old_pres && stored.entity_factory.autoenable_created_entities == old_auto, "C37: a rejected set_subscriber_qos keeps the previous QoS");
        }
    }
    kani::cover!(is_immutable(&r), "subscriber: ImmutablePolicy reported");
    kani::cover!(r.is_ok() && enabled && old_auto != new.entity_factory.autoenable_created_entities, "enabled subscriber: autoenable changed");
    kani::cover!(r.is_ok() && !enabled && old_pres != new.presentation, "not enabled subscriber: presentation changed");

    // publisher: same oracle
    let pold_pres = sq::any_presentation();
    let pold_auto: bool = kani::any();
    let mut pnew = PublisherQos::const_default();
    pnew.presentation = sq::any_presentation();
    pnew.entity_factory.autoenable_created_entities = kani::any();
    let penabled: bool = kani::any();
    p.domain_participant.user_defined_publisher_list[0].qos.presentation = pold_pres.clone();
    p.domain_participant.user_defined_publisher_list[0].qos.entity_factory.autoenable_created_entities = pold_auto;
    p.domain_participant.user_defined_publisher_list[0].enabled = penabled;
    let pr = p.set_publisher_qos(&hp, QosKind::Specific(pnew.clone()));
    let pstored = &p.domain_participant.user_defined_publisher_list[0].qos;
    assert!(pr.is_ok() == (!penabled || pold_pres == pnew.presentation), "C37: set_publisher_qos rejects exactly a PRESENTATION change on an enabled publisher");
    match &pr {
        Ok(()) => assert!(pstored.presentation == pnew.presentation && pstored.entity_factory == pnew.entity_factory, "C37: an accepted set_publisher_qos stores the argument"),
        Err(_) => {
            assert!(is_immutable(&pr), "C37: set_publisher_qos fails with ImmutablePolicy");
            assert!(pstored.presentation == pold_pres && pstored.entity_factory.autoenable_created_entities == pold_auto, "C37: a rejected set_publisher_qos keeps the previous QoS");
        }
    }
    kani::cover!(is_immutable(&pr), "publisher: ImmutablePolicy reported");
    kani::cover!(pr.is_ok() && penabled && pold_auto != pnew.entity_factory.autoenable_created_entities, "enabled publisher: autoenable changed");
    kani::cover!(pr.is_ok() && !penabled && pold_pres != pnew.presentation, "not enabled publisher: presentation changed");
    core::mem::forget((p, new, pnew));
}

// @check props=C37 tier=quick
// @desc regression obligation for the repaired KF-C37-1: set_publisher_qos on an ENABLED publisher with a different PRESENTATION policy (Changeable = NO in DDS 1.4 2.2.3) fails with ImmutablePolicy and keeps the previous QoS
// @bounds one participant / publisher; previous and new presentation symbolic. unwind 18
// @assume focus region: publisher enabled and new presentation != previous presentation (unrestricted oracle: c37_set_group_qos)
// @enc dcps::dcps_domain_participant::publisher_methods::DcpsDomainParticipant::set_publisher_qos
#[kani::proof]
#[kani::unwind(18)]
#[kani::stub(critical_section::acquire, super::support_cs::cs_acquire)]
#[kani::stub(critical_section::release, super::support_cs::cs_release)]
fn c37_set_publisher_qos_presentation() {
    let cap = sp::Capture::new();
    let mut p = sp::participant(&cap, 0);
    let hp = new_publisher(&mut p);
    let pold_pres = sq::any_presentation();
    let mut pnew = PublisherQos::const_default();
    pnew.presentation = sq::any_presentation();
    kani::assume(pold_pres != pnew.presentation);
    p.domain_participant.user_defined_publisher_list[0].qos.presentation = pold_pres.clone();
    p.domain_participant.user_defined_publisher_list[0].enabled = true;
    let pr = p.set_publisher_qos(&hp, QosKind::Specific(pnew.clone()));
    kani::cover!(pold_pres.access_scope != pnew.presentation.access_scope, "access scope change reachable");
    assert!(is_immutable(&pr), "C37: set_publisher_qos rejects a PRESENTATION change on an enabled publisher with ImmutablePolicy");
    assert!(p.domain_participant.user_defined_publisher_list[0].qos.presentation == pold_pres, "C37: a rejected set_publisher_qos keeps the previous QoS");
    core::mem::forget((p, pnew));
}

// @check props=C37 tier=quick
// @desc create_topic with ANY specific QoS: Ok exactly for consistent values and then the topic stores exactly that QoS; otherwise Err(InconsistentPolicy) and no topic is created (found KF-C37-2 - create_topic did not check consistency -, repaired; full oracle asserted). set_default_topic_qos: Ok exactly for consistent values, Err(InconsistentPolicy) keeps the previous default, Ok stores the argument
// @bounds TopicQos with every scalar policy symbolic (limits Unlimited / Limited(any i32 >= 0)); sequences empty. unwind 18
// @assume stub: TypeInformation::from and alloc::fmt::format; limits non-negative
// @enc dcps::dcps_domain_participant::participant_methods::DcpsDomainParticipant::create_topic
// @enc dcps::dcps_domain_participant::participant_methods::DcpsDomainParticipant::set_default_topic_qos
#[kani::proof]
#[kani::unwind(18)]
#[kani::stub(critical_section::acquire, super::support_cs::cs_acquire)]
#[kani::stub(critical_section::release, super::support_cs::cs_release)]
#[kani::stub(<crate::xtypes::type_object::TypeInformation as core::convert::From<crate::xtypes::dynamic_type::DynamicType<'static>>>::from, super::support_participant::type_information_stub)]
#[kani::stub(alloc::fmt::format, super::support_participant::fmt_format_stub)]
fn c37_create_topic_qos() {
    let cap = sp::Capture::new();
    let mut p = sp::participant(&cap, 0);
    let d = any_scalar_topic_qos();
    kani::assume(sq::topic_limits_non_negative(&d));
    let dr = p.set_default_topic_qos(QosKind::Specific(d.clone()));
    assert!(dr.is_ok() == sq::topic_consistent(&d), "C37: set_default_topic_qos accepts exactly the consistent values");
    match &dr {
        Ok(()) => assert!(topic_scalars_equal(&p.domain_participant.default_topic_qos, &d), "C37: an accepted set_default_topic_qos stores the argument"),
        Err(_) => {
            assert!(is_inconsistent(&dr), "C37: set_default_topic_qos fails with InconsistentPolicy");
            assert!(topic_scalars_equal(&p.domain_participant.default_topic_qos, &TopicQos::const_default()), "C37: a rejected set_default_topic_qos keeps the previous default");
        }
    }
    kani::cover!(dr.is_err(), "inconsistent default rejected");
    kani::cover!(dr.is_ok() && !topic_scalars_equal(&d, &TopicQos::const_default()), "non-default default accepted");

    let q = any_scalar_topic_qos();
    kani::assume(sq::topic_limits_non_negative(&q));
    let n_before = p.domain_participant.locally_created_topic_list.len();
    let r = new_topic(&mut p, QosKind::Specific(q.clone()));
    assert!(r.is_ok() == sq::topic_consistent(&q), "C37: create_topic accepts exactly the consistent QoS values");
    match &r {
        Ok(_) => {
            assert!(p.domain_participant.locally_created_topic_list.len() == n_before + 1, "C37: the created topic is stored");
            assert!(topic_scalars_equal(&p.domain_participant.locally_created_topic_list[n_before].qos, &q), "C37: the topic stores the QoS it was created with");
        }
        Err(_) => {
            assert!(is_inconsistent(&r), "C37: create_topic rejects an inconsistent QoS with InconsistentPolicy");
            assert!(p.domain_participant.locally_created_topic_list.len() == n_before, "C37: a rejected create_topic creates no topic");
        }
    }
    kani::cover!(r.is_ok() && !topic_scalars_equal(&q, &TopicQos::const_default()), "non-default topic QoS accepted");
    kani::cover!(r.is_err(), "inconsistent topic QoS rejected");
    core::mem::forget((p, d, q));
}

// @check props=C37 tier=quick
// @desc regression obligation for the repaired KF-C37-2: create_topic with an INCONSISTENT specific QoS fails with InconsistentPolicy and creates nothing
// @bounds TopicQos with history and the three resource limits symbolic (limits non-negative), other policies default. unwind 18
// @assume focus region: the QoS passed to create_topic is inconsistent (max_samples < max_samples_per_instance or KEEP_LAST depth > max_samples_per_instance) (unrestricted oracle: c37_create_topic_qos); stub: TypeInformation::from, alloc::fmt::format
// @enc dcps::dcps_domain_participant::participant_methods::DcpsDomainParticipant::create_topic
#[kani::proof]
#[kani::unwind(18)]
#[kani::stub(critical_section::acquire, super::support_cs::cs_acquire)]
#[kani::stub(critical_section::release, super::support_cs::cs_release)]
#[kani::stub(<crate::xtypes::type_object::TypeInformation as core::convert::From<crate::xtypes::dynamic_type::DynamicType<'static>>>::from, super::support_participant::type_information_stub)]
#[kani::stub(alloc::fmt::format, super::support_participant::fmt_format_stub)]
fn c37_create_topic_inconsistent() {
    let cap = sp::Capture::new();
    let mut p = sp::participant(&cap, 0);
    let mut q = TopicQos::const_default();
    q.history.kind = sq::any_history();
    q.resource_limits.max_samples = sq::any_length();
    q.resource_limits.max_instances = sq::any_length();
    q.resource_limits.max_samples_per_instance = sq::any_length();
    kani::assume(sq::topic_limits_non_negative(&q) && !sq::topic_consistent(&q));
    let n_before = p.domain_participant.locally_created_topic_list.len();
    let r = new_topic(&mut p, QosKind::Specific(q.clone()));
    kani::cover!(true, "inconsistent topic QoS reachable");
    assert!(is_inconsistent(&r), "C37: create_topic rejects an inconsistent QoS with InconsistentPolicy");
    assert!(p.domain_participant.locally_created_topic_list.len() == n_before, "C37: a rejected create_topic creates no topic");
    core::mem::forget((p, q));
}
