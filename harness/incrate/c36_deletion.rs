// C36 — entity deletion follows the DDS preconditions.
// Pattern A: a real DcpsDomainParticipant; a small entity tree: topics through the real create_topic /
// create_content_filtered_topic, publishers / subscribers / writers / readers installed DIRECTLY, bottom-up
// (support_part1::make_writer / install_publisher_with: create_data_writer / create_data_reader do not fit the solver,
// HARNESS_GUIDE; a push into a heap-resident entity's list makes symbolic execution explore realloc with a symbolic
// size), the shape of the tree and the arguments of the delete operation symbolic; ONE real delete_*.
//
// NOT DECIDED (measured): delete_user_defined_publisher / delete_user_defined_subscriber / delete_data_writer /
// delete_data_reader. All four remove the entity with `Vec::remove(i)` (participant_entity.rs remove_publisher /
// remove_subscriber, publisher_methods.rs:157, subscriber_methods.rs:176) where `i` comes out of
// `Iterator::position`; for symbolic execution `i` is symbolic (payload of an Option), so the tail move inside
// Vec::remove is a `memmove` of SYMBOLIC size over 0.4-1.7 KB elements and the SAT encoding of the symbolic-size
// byte_extract / byte_update exhausts 10 GB in propositional reduction (measured on the 456-byte matched-endpoint
// entries of C16 with ONE element in the list; the entity structs are the same size or larger). The harnesses for
// these four operations were therefore removed; what they asserted is listed in the family report.
use super::support_part1 as s1;
use super::support_participant as sp;
use crate::dcps::dcps_domain_participant::participant_entity::DcpsDomainParticipant;
use crate::infrastructure::error::{DdsError, DdsResult};
use crate::infrastructure::instance::InstanceHandle;
use crate::infrastructure::qos::{DataReaderQos, DataWriterQos};
use alloc::string::String;
use alloc::vec::Vec;

fn unknown() -> InstanceHandle {
    InstanceHandle::new([0xEE; 16])
}
fn is_precondition_not_met<T>(r: &DdsResult<T>) -> bool {
    matches!(r, Err(DdsError::PreconditionNotMet(_)))
}
fn is_already_deleted<T>(r: &DdsResult<T>) -> bool {
    matches!(r, Err(DdsError::AlreadyDeleted))
}
fn n_pub(p: &DcpsDomainParticipant) -> usize {
    p.domain_participant.user_defined_publisher_list.len()
}
fn n_sub(p: &DcpsDomainParticipant) -> usize {
    p.domain_participant.user_defined_subscriber_list.len()
}
fn n_topic(p: &DcpsDomainParticipant) -> usize {
    p.domain_participant.locally_created_topic_list.len()
}

// @check props=C36 tier=quick
// @desc delete_user_defined_topic(participant, name) on a participant with topic "A" and a publisher holding 0 or 1 writer on topic "A" or "B", name in {"A","Z"}, participant handle own/foreign: PreconditionNotMet iff foreign participant handle or (name "A" and a writer uses topic "A"); AlreadyDeleted iff the name is unknown; on every error the topic list is unchanged; after Ok the topic is gone and deleting it again is AlreadyDeleted
// @bounds one topic (real create_topic), one publisher with 0-1 writer (installed directly) on topic "A" or "B"
// @assume the data writer is installed directly (a writer on topic "B" stands for a writer of another topic; its topic entity is not needed by the code under test)
// @assume stub: TypeInformation::from(DynamicType) returns a fixed value (MD5 over XTypes-serialized type objects); stub: alloc::fmt::format returns an empty String (error texts are in no claim)
// @enc DcpsDomainParticipant::delete_user_defined_topic
#[kani::proof]
#[kani::unwind(2)]
#[kani::stub(critical_section::acquire, super::support_cs::cs_acquire)]
#[kani::stub(critical_section::release, super::support_cs::cs_release)]
#[kani::stub(tracing::level_filters::LevelFilter::current, super::support_qos::tracing_off)]
#[kani::stub(<crate::xtypes::type_object::TypeInformation as core::convert::From<crate::xtypes::dynamic_type::DynamicType<'static>>>::from, super::support_participant::type_information_stub)]
#[kani::stub(alloc::fmt::format, super::support_participant::fmt_format_stub)]
fn c36_topic_delete_used_by_writer() {
    s1::link_drop_glue();
    let cap = sp::Capture::new();
    let mut p = sp::participant(&cap, 0);
    let _th = s1::new_topic(&mut p, "A");
    let has_writer: bool = kani::any();
    let on_a: bool = kani::any();
    let w = if has_writer { Some(s1::make_writer(0, 0, if on_a { "A" } else { "B" }, DataWriterQos::const_default())) } else { None };
    let _ph = s1::install_publisher_with(&mut p, w);
    let own: bool = kani::any();
    let known: bool = kani::any();
    let part_h = if own { *p.get_instance_handle() } else { unknown() };
    let name = if known { "A" } else { "Z" };

    let r = p.delete_user_defined_topic(&part_h, String::from(name));

    let used = has_writer && on_a;
    if !own {
        assert!(is_precondition_not_met(&r), "C36: topic deleted through a foreign participant is PreconditionNotMet");
    } else if !known {
        assert!(is_already_deleted(&r), "C36: unknown topic is AlreadyDeleted");
    } else if used {
        assert!(is_precondition_not_met(&r), "C36: topic still used by a data writer is PreconditionNotMet");
    } else {
        assert!(r.is_ok(), "C36: unused topic is deleted");
    }
    if r.is_err() {
        assert!(n_topic(&p) == 1, "C36: failed topic deletion keeps the topic");
        assert!(p.domain_participant.locally_created_topic_list[0].topic_name == "A", "C36: failed topic deletion keeps the topic identity");
    } else {
        assert!(n_topic(&p) == 0, "C36: deleted topic is removed");
        let again = p.delete_user_defined_topic(&part_h, String::from(name));
        assert!(is_already_deleted(&again), "C36: deleting a deleted topic is AlreadyDeleted");
    }
    assert!(n_pub(&p) == 1, "C36: topic deletion never touches publishers");
    kani::cover!(own && known && used, "topic used by a writer");
    kani::cover!(own && known && has_writer && !on_a && r.is_ok(), "writer of another topic does not block");
    kani::cover!(own && !known, "unknown topic");
    core::mem::forget(r);
    core::mem::forget(p);
}

// @check props=C36 tier=quick
// @desc delete_user_defined_topic with the topic used (or not) by a data READER: PreconditionNotMet iff a reader uses topic "A"; errors change nothing; Ok removes the topic
// @bounds one topic (real create_topic), one subscriber with 0-1 reader (installed directly) on topic "A" or "B"
// @assume the data reader is installed directly
// @assume stub: TypeInformation::from(DynamicType) returns a fixed value; stub: alloc::fmt::format returns an empty String
// @enc DcpsDomainParticipant::delete_user_defined_topic
#[kani::proof]
#[kani::unwind(2)]
#[kani::stub(critical_section::acquire, super::support_cs::cs_acquire)]
#[kani::stub(critical_section::release, super::support_cs::cs_release)]
#[kani::stub(tracing::level_filters::LevelFilter::current, super::support_qos::tracing_off)]
#[kani::stub(<crate::xtypes::type_object::TypeInformation as core::convert::From<crate::xtypes::dynamic_type::DynamicType<'static>>>::from, super::support_participant::type_information_stub)]
#[kani::stub(alloc::fmt::format, super::support_participant::fmt_format_stub)]
fn c36_topic_delete_used_by_reader() {
    s1::link_drop_glue();
    let cap = sp::Capture::new();
    let mut p = sp::participant(&cap, 0);
    let _th = s1::new_topic(&mut p, "A");
    let has_reader: bool = kani::any();
    let on_a: bool = kani::any();
    let rd = if has_reader { Some(s1::make_reader(0, 0, if on_a { "A" } else { "B" }, DataReaderQos::const_default())) } else { None };
    let _sh = s1::install_subscriber_with(&mut p, rd);
    let own = *p.get_instance_handle();

    let r = p.delete_user_defined_topic(&own, String::from("A"));

    let used = has_reader && on_a;
    if used {
        assert!(is_precondition_not_met(&r), "C36: topic still used by a data reader is PreconditionNotMet");
        assert!(n_topic(&p) == 1, "C36: failed topic deletion keeps the topic");
    } else {
        assert!(r.is_ok(), "C36: topic not used by any reader is deleted");
        assert!(n_topic(&p) == 0, "C36: deleted topic is removed");
    }
    assert!(n_sub(&p) == 1, "C36: topic deletion never touches subscribers");
    assert!(
        p.domain_participant.user_defined_subscriber_list[0].data_reader_list.len() == has_reader as usize,
        "C36: topic deletion never touches readers"
    );
    kani::cover!(used, "topic used by a reader");
    kani::cover!(has_reader && !on_a, "reader of another topic does not block");
    core::mem::forget(r);
    core::mem::forget(p);
}

fn contained(p: &mut DcpsDomainParticipant) -> (bool, bool) {
    // one publisher with 0-1 writer, one subscriber with 0-1 reader, built bottom-up; the leaves are symbolic
    let has_writer: bool = kani::any();
    let has_reader: bool = kani::any();
    let w = if has_writer { Some(s1::make_writer(0, 0, "A", DataWriterQos::const_default())) } else { None };
    s1::install_publisher_with(p, w);
    let r = if has_reader { Some(s1::make_reader(0, 0, "A", DataReaderQos::const_default())) } else { None };
    s1::install_subscriber_with(p, r);
    (has_writer, has_reader)
}

// @check props=C36 tier=quick
// @desc delete_participant_contained_entities on a participant with one publisher (0-1 writer) and one subscriber (0-1 reader): before the call is_participant_empty() is false (DcpsParticipantFactory::delete_participant would answer PreconditionNotMet); the call returns Ok, afterwards the publisher and subscriber lists are empty and is_participant_empty() holds (the participant is deletable by the factory's precondition)
// @bounds one publisher with 0-1 writer, one subscriber with 0-1 reader (leaves symbolic); no user topic, no content-filtered topic (see the __known / __rest pair)
// @assume publisher / subscriber / writers / readers installed directly (bottom-up) with the state the create_* calls give them; stub: announce_deleted_data_writer / announce_deleted_data_reader (SEDP dispose through DynamicData) are no-ops
// @enc DcpsDomainParticipant::delete_participant_contained_entities
// @enc DcpsDomainParticipant::is_participant_empty
#[kani::proof]
#[kani::unwind(2)]
#[kani::stub(critical_section::acquire, super::support_cs::cs_acquire)]
#[kani::stub(critical_section::release, super::support_cs::cs_release)]
#[kani::stub(tracing::level_filters::LevelFilter::current, super::support_qos::tracing_off)]
#[kani::stub(crate::dcps::dcps_domain_participant::participant_entity::DcpsDomainParticipant::announce_deleted_data_writer, super::support_part1::announce_deleted_data_writer_stub)]
#[kani::stub(crate::dcps::dcps_domain_participant::participant_entity::DcpsDomainParticipant::announce_deleted_data_reader, super::support_part1::announce_deleted_data_reader_stub)]
fn c36_contained_entities_tree() {
    s1::link_drop_glue();
    let cap = sp::Capture::new();
    let mut p = sp::participant(&cap, 0);
    let (has_writer, has_reader) = contained(&mut p);
    assert!(!p.is_participant_empty(), "C36: a participant that contains a publisher and a subscriber is not empty (not deletable)");

    let r = p.delete_participant_contained_entities(&s1::rt1());

    assert!(r.is_ok(), "C36: delete_contained_entities succeeds");
    assert!(n_pub(&p) == 0 && n_sub(&p) == 0, "C36: delete_contained_entities removes every publisher and subscriber");
    assert!(p.is_participant_empty(), "C36: delete_contained_entities leaves the participant empty (deletable)");
    kani::cover!(has_writer && has_reader, "publisher and subscriber with endpoints");
    kani::cover!(!has_writer && !has_reader, "empty publisher and subscriber");
    core::mem::forget(r);
    core::mem::forget(p);
}

fn contained_topics(with_cft: bool) {
    let cap = sp::Capture::new();
    let mut p = sp::participant(&cap, 0);
    let _th = s1::new_topic(&mut p, "A");
    if with_cft {
        let own = *p.get_instance_handle();
        let r = p.create_content_filtered_topic(&own, String::from("F"), String::from("A"), String::new(), Vec::new());
        assert!(r.is_ok(), "harness: content filtered topic creation must succeed");
        core::mem::forget(r);
        // the only deletion operation for it reports success
        let d = p.delete_content_filtered_topic(&own, String::from("F"));
        assert!(d.is_ok(), "C36: delete_content_filtered_topic reports success");
    }
    assert!(!p.is_participant_empty(), "C36: a participant with a user topic is not empty");
    let r = p.delete_participant_contained_entities(&s1::rt1());
    assert!(r.is_ok(), "C36: delete_contained_entities succeeds");
    assert!(n_topic(&p) == 0, "C36: delete_contained_entities removes every user topic");
    assert!(p.is_participant_empty(), "C36: delete_contained_entities leaves the participant empty (deletable)");
    kani::cover!(true, "reached the end");
    core::mem::forget(p);
}

// @check props=C36 tier=quick
// @desc OBSERVATION FROM CODE READING, not confirmed by a completed run (expected to fail on the current tree): a participant on which a content-filtered topic was created (and deleted with delete_content_filtered_topic, which returns Ok) is NOT empty after delete_participant_contained_entities: content_filtered_topic_list is never cleared by any operation, so is_participant_empty() stays false and DcpsParticipantFactory::delete_participant fails with PreconditionNotMet forever
// @bounds one topic (real create_topic), one content-filtered topic (real create_content_filtered_topic + delete_content_filtered_topic)
// @assume trigger: a content-filtered topic was created on the participant
// @assume stub: TypeInformation::from(DynamicType) returns a fixed value; stub: alloc::fmt::format returns an empty String
// @enc DcpsDomainParticipant::delete_participant_contained_entities
// @enc DcpsDomainParticipant::create_content_filtered_topic
// @enc DcpsDomainParticipant::delete_content_filtered_topic
// @enc DcpsDomainParticipant::is_participant_empty
#[kani::proof]
#[kani::unwind(2)]
#[kani::stub(critical_section::acquire, super::support_cs::cs_acquire)]
#[kani::stub(critical_section::release, super::support_cs::cs_release)]
#[kani::stub(tracing::level_filters::LevelFilter::current, super::support_qos::tracing_off)]
#[kani::stub(<crate::xtypes::type_object::TypeInformation as core::convert::From<crate::xtypes::dynamic_type::DynamicType<'static>>>::from, super::support_participant::type_information_stub)]
#[kani::stub(alloc::fmt::format, super::support_participant::fmt_format_stub)]
fn c36_contained_entities_topics__known() {
    s1::link_drop_glue();
    contained_topics(true);
}

// @check props=C36 tier=quick
// @desc sibling of the known finding with the trigger negated: a participant with one user topic and NO content-filtered topic: delete_participant_contained_entities returns Ok, removes the topic and leaves is_participant_empty() true
// @bounds one topic (real create_topic), no content-filtered topic
// @assume negated trigger: no content-filtered topic was ever created on the participant
// @assume stub: TypeInformation::from(DynamicType) returns a fixed value; stub: alloc::fmt::format returns an empty String
// @enc DcpsDomainParticipant::delete_participant_contained_entities
// @enc DcpsDomainParticipant::is_participant_empty
#[kani::proof]
#[kani::unwind(2)]
#[kani::stub(critical_section::acquire, super::support_cs::cs_acquire)]
#[kani::stub(critical_section::release, super::support_cs::cs_release)]
#[kani::stub(tracing::level_filters::LevelFilter::current, super::support_qos::tracing_off)]
#[kani::stub(<crate::xtypes::type_object::TypeInformation as core::convert::From<crate::xtypes::dynamic_type::DynamicType<'static>>>::from, super::support_participant::type_information_stub)]
#[kani::stub(alloc::fmt::format, super::support_participant::fmt_format_stub)]
fn c36_contained_entities_topics__rest() {
    s1::link_drop_glue();
    contained_topics(false);
}
