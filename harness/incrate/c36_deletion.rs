// C36 — entity deletion follows the DDS preconditions.
// Pattern A: a real DcpsDomainParticipant; a small entity tree built with the real create_user_defined_publisher /
// create_user_defined_subscriber / create_topic plus DIRECTLY installed writers / readers (create_data_writer /
// create_data_reader do not fit the solver, HARNESS_GUIDE), the shape of the tree and the handles passed to the
// delete operation symbolic; ONE real delete_* (plus one follow-up operation on the deleted entity).
use super::support_part1 as s1;
use super::support_participant as sp;
use crate::dcps::dcps_domain_participant::participant_entity::DcpsDomainParticipant;
use crate::infrastructure::error::{DdsError, DdsResult};
use crate::infrastructure::instance::InstanceHandle;
use crate::infrastructure::qos::{DataReaderQos, DataWriterQos};
use alloc::string::String;
use alloc::vec::Vec;

fn unknown() -> InstanceHandle {
    InstanceHandle::new([0xEE; 16])
}
fn is_precondition_not_met<T>(r: &DdsResult<T>) -> bool {
    matches!(r, Err(DdsError::PreconditionNotMet(_)))
}
fn is_already_deleted<T>(r: &DdsResult<T>) -> bool {
    matches!(r, Err(DdsError::AlreadyDeleted))
}
fn n_pub(p: &DcpsDomainParticipant) -> usize {
    p.domain_participant.user_defined_publisher_list.len()
}
fn n_sub(p: &DcpsDomainParticipant) -> usize {
    p.domain_participant.user_defined_subscriber_list.len()
}
fn n_topic(p: &DcpsDomainParticipant) -> usize {
    p.domain_participant.locally_created_topic_list.len()
}

// @check props=C36 tier=quick
// @desc delete_user_defined_publisher on a participant with one publisher holding 0 or 1 data writer, for every combination of (participant handle own/foreign, publisher handle known/unknown): PreconditionNotMet iff the participant handle is foreign or the (known) publisher still contains a writer, AlreadyDeleted iff the publisher handle is unknown, otherwise Ok; on every error the publisher list and its writer list are unchanged; after Ok the publisher is gone and both deleting it again and using it (get_publisher_qos) fail with AlreadyDeleted
// @bounds one publisher (real create_user_defined_publisher), 0-1 writer; handles chosen among {valid, unknown}
// @assume the data writer is installed directly with the state create_data_writer(QosKind::Default, no listener) + enable give it
// @enc DcpsDomainParticipant::delete_user_defined_publisher
// @enc DcpsDomainParticipant::get_publisher_qos
#[kani::proof]
#[kani::unwind(2)]
#[kani::stub(critical_section::acquire, super::support_cs::cs_acquire)]
#[kani::stub(critical_section::release, super::support_cs::cs_release)]
fn c36_tree_delete_publisher() {
    s1::link_drop_glue();
    let cap = sp::Capture::new();
    let mut p = sp::participant(&cap, 0);
    let ph = s1::new_publisher(&mut p);
    let has_writer: bool = kani::any();
    if has_writer {
        s1::install_writer(&mut p, 0, 0, "A", DataWriterQos::const_default());
    }
    let own: bool = kani::any();
    let known: bool = kani::any();
    let part_h = if own { *p.get_instance_handle() } else { unknown() };
    let pub_h = if known { ph } else { unknown() };

    let r = p.delete_user_defined_publisher(&part_h, &pub_h);

    if !own {
        assert!(is_precondition_not_met(&r), "C36: publisher deleted through a foreign participant is PreconditionNotMet");
    } else if !known {
        assert!(is_already_deleted(&r), "C36: unknown publisher handle is AlreadyDeleted");
    } else if has_writer {
        assert!(is_precondition_not_met(&r), "C36: publisher that still contains a data writer is PreconditionNotMet");
    } else {
        assert!(r.is_ok(), "C36: empty publisher is deleted");
    }
    if r.is_err() {
        assert!(n_pub(&p) == 1, "C36: failed publisher deletion keeps the publisher");
        assert!(p.domain_participant.user_defined_publisher_list[0].instance_handle == ph, "C36: failed deletion keeps the publisher identity");
        assert!(
            p.domain_participant.user_defined_publisher_list[0].data_writer_list.len() == has_writer as usize,
            "C36: failed publisher deletion keeps its writers"
        );
    } else {
        assert!(n_pub(&p) == 0, "C36: deleted publisher is removed");
        let again = p.delete_user_defined_publisher(&part_h, &pub_h);
        assert!(is_already_deleted(&again), "C36: deleting a deleted publisher is AlreadyDeleted");
        let q = p.get_publisher_qos(&pub_h);
        assert!(is_already_deleted(&q), "C36: operation on a deleted publisher is AlreadyDeleted");
        core::mem::forget(q);
    }
    kani::cover!(own && known && has_writer, "publisher with a writer");
    kani::cover!(r.is_ok(), "publisher deleted");
    kani::cover!(own && !known, "unknown publisher");
    core::mem::forget(r);
    core::mem::forget(p);
}

// @check props=C36 tier=quick
// @desc delete_user_defined_subscriber, mirror of c36_tree_delete_publisher: PreconditionNotMet iff foreign participant handle or the subscriber still contains a data reader; AlreadyDeleted iff unknown subscriber; errors change nothing; after Ok a second delete and get_subscriber_qos are AlreadyDeleted
// @bounds one subscriber (real create_user_defined_subscriber), 0-1 reader; handles chosen among {valid, unknown}
// @assume the data reader is installed directly with the state create_data_reader(QosKind::Default, no listener) + enable give it
// @enc DcpsDomainParticipant::delete_user_defined_subscriber
// @enc DcpsDomainParticipant::get_subscriber_qos
#[kani::proof]
#[kani::unwind(2)]
#[kani::stub(critical_section::acquire, super::support_cs::cs_acquire)]
#[kani::stub(critical_section::release, super::support_cs::cs_release)]
fn c36_tree_delete_subscriber() {
    s1::link_drop_glue();
    let cap = sp::Capture::new();
    let mut p = sp::participant(&cap, 0);
    let sh = s1::new_subscriber(&mut p);
    let has_reader: bool = kani::any();
    if has_reader {
        s1::install_reader(&mut p, 0, 0, "A", DataReaderQos::const_default());
    }
    let own: bool = kani::any();
    let known: bool = kani::any();
    let part_h = if own { *p.get_instance_handle() } else { unknown() };
    let sub_h = if known { sh } else { unknown() };

    let r = p.delete_user_defined_subscriber(&part_h, &sub_h);

    if !own {
        assert!(is_precondition_not_met(&r), "C36: subscriber deleted through a foreign participant is PreconditionNotMet");
    } else if !known {
        assert!(is_already_deleted(&r), "C36: unknown subscriber handle is AlreadyDeleted");
    } else if has_reader {
        assert!(is_precondition_not_met(&r), "C36: subscriber that still contains a data reader is PreconditionNotMet");
    } else {
        assert!(r.is_ok(), "C36: empty subscriber is deleted");
    }
    if r.is_err() {
        assert!(n_sub(&p) == 1, "C36: failed subscriber deletion keeps the subscriber");
        assert!(p.domain_participant.user_defined_subscriber_list[0].instance_handle == sh, "C36: failed deletion keeps the subscriber identity");
        assert!(
            p.domain_participant.user_defined_subscriber_list[0].data_reader_list.len() == has_reader as usize,
            "C36: failed subscriber deletion keeps its readers"
        );
    } else {
        assert!(n_sub(&p) == 0, "C36: deleted subscriber is removed");
        let again = p.delete_user_defined_subscriber(&part_h, &sub_h);
        assert!(is_already_deleted(&again), "C36: deleting a deleted subscriber is AlreadyDeleted");
        let q = p.get_subscriber_qos(&sub_h);
        assert!(is_already_deleted(&q), "C36: operation on a deleted subscriber is AlreadyDeleted");
        core::mem::forget(q);
    }
    kani::cover!(own && known && has_reader, "subscriber with a reader");
    kani::cover!(r.is_ok(), "subscriber deleted");
    kani::cover!(own && !known, "unknown subscriber");
    core::mem::forget(r);
    core::mem::forget(p);
}

// @check props=C36 tier=quick
// @desc delete_data_writer(publisher, writer) on a publisher with one writer, handles known/unknown: AlreadyDeleted iff the publisher or the writer handle is unknown (nothing changes), otherwise Ok and the writer list is empty; afterwards deleting the writer again is AlreadyDeleted and the now empty publisher deletes Ok (the parent becomes deletable)
// @bounds one publisher (real create), one writer installed directly; handles chosen among {valid, unknown}
// @assume the data writer is installed directly with the state create_data_writer + enable give it
// @assume stub: announce_deleted_data_writer (SEDP dispose through DynamicData / XTypes serializer) is a no-op that forgets the writer
// @enc DcpsDomainParticipant::delete_data_writer
// @enc DcpsDomainParticipant::delete_user_defined_publisher
#[kani::proof]
#[kani::unwind(2)]
#[kani::stub(critical_section::acquire, super::support_cs::cs_acquire)]
#[kani::stub(critical_section::release, super::support_cs::cs_release)]
#[kani::stub(crate::dcps::dcps_domain_participant::participant_entity::DcpsDomainParticipant::announce_deleted_data_writer, super::support_part1::announce_deleted_data_writer_stub)]
fn c36_tree_delete_writer() {
    s1::link_drop_glue();
    let cap = sp::Capture::new();
    let mut p = sp::participant(&cap, 0);
    let ph = s1::new_publisher(&mut p);
    let wh = s1::install_writer(&mut p, 0, 0, "A", DataWriterQos::const_default());
    let pub_known: bool = kani::any();
    let w_known: bool = kani::any();
    let pub_h = if pub_known { ph } else { unknown() };
    let w_h = if w_known { wh } else { unknown() };

    let r = p.delete_data_writer(&pub_h, &w_h, &s1::rt1());

    if pub_known && w_known {
        assert!(r.is_ok(), "C36: existing data writer is deleted");
        assert!(p.domain_participant.user_defined_publisher_list[0].data_writer_list.is_empty(), "C36: deleted writer is removed");
        let again = p.delete_data_writer(&pub_h, &w_h, &s1::rt1());
        assert!(is_already_deleted(&again), "C36: deleting a deleted data writer is AlreadyDeleted");
        let own = *p.get_instance_handle();
        let d = p.delete_user_defined_publisher(&own, &ph);
        assert!(d.is_ok(), "C36: publisher is deletable once its writers are deleted");
        assert!(n_pub(&p) == 0, "C36: publisher removed");
        core::mem::forget(d);
    } else {
        assert!(is_already_deleted(&r), "C36: unknown publisher / writer handle is AlreadyDeleted");
        assert!(n_pub(&p) == 1, "C36: failed writer deletion keeps the publisher");
        assert!(p.domain_participant.user_defined_publisher_list[0].data_writer_list.len() == 1, "C36: failed writer deletion keeps the writer");
        assert!(
            p.domain_participant.user_defined_publisher_list[0].data_writer_list[0].writer.instance_handle == wh,
            "C36: failed writer deletion keeps the writer identity"
        );
    }
    kani::cover!(pub_known && w_known, "writer deleted");
    kani::cover!(pub_known && !w_known, "unknown writer");
    kani::cover!(!pub_known, "unknown publisher");
    core::mem::forget(r);
    core::mem::forget(p);
}

// @check props=C36 tier=quick
// @desc delete_data_reader, mirror of c36_tree_delete_writer
// @bounds one subscriber (real create), one reader installed directly; handles chosen among {valid, unknown}
// @assume the data reader is installed directly with the state create_data_reader + enable give it
// @assume stub: announce_deleted_data_reader (SEDP dispose through DynamicData / XTypes serializer) is a no-op that forgets the reader
// @enc DcpsDomainParticipant::delete_data_reader
// @enc DcpsDomainParticipant::delete_user_defined_subscriber
#[kani::proof]
#[kani::unwind(2)]
#[kani::stub(critical_section::acquire, super::support_cs::cs_acquire)]
#[kani::stub(critical_section::release, super::support_cs::cs_release)]
#[kani::stub(crate::dcps::dcps_domain_participant::participant_entity::DcpsDomainParticipant::announce_deleted_data_reader, super::support_part1::announce_deleted_data_reader_stub)]
fn c36_tree_delete_reader() {
    s1::link_drop_glue();
    let cap = sp::Capture::new();
    let mut p = sp::participant(&cap, 0);
    let sh = s1::new_subscriber(&mut p);
    let rh = s1::install_reader(&mut p, 0, 0, "A", DataReaderQos::const_default());
    let sub_known: bool = kani::any();
    let r_known: bool = kani::any();
    let sub_h = if sub_known { sh } else { unknown() };
    let r_h = if r_known { rh } else { unknown() };

    let r = p.delete_data_reader(&sub_h, &r_h, &s1::rt1());

    if sub_known && r_known {
        assert!(r.is_ok(), "C36: existing data reader is deleted");
        assert!(p.domain_participant.user_defined_subscriber_list[0].data_reader_list.is_empty(), "C36: deleted reader is removed");
        let again = p.delete_data_reader(&sub_h, &r_h, &s1::rt1());
        assert!(is_already_deleted(&again), "C36: deleting a deleted data reader is AlreadyDeleted");
        let own = *p.get_instance_handle();
        let d = p.delete_user_defined_subscriber(&own, &sh);
        assert!(d.is_ok(), "C36: subscriber is deletable once its readers are deleted");
        assert!(n_sub(&p) == 0, "C36: subscriber removed");
        core::mem::forget(d);
    } else {
        assert!(is_already_deleted(&r), "C36: unknown subscriber / reader handle is AlreadyDeleted");
        assert!(n_sub(&p) == 1, "C36: failed reader deletion keeps the subscriber");
        assert!(p.domain_participant.user_defined_subscriber_list[0].data_reader_list.len() == 1, "C36: failed reader deletion keeps the reader");
        assert!(
            p.domain_participant.user_defined_subscriber_list[0].data_reader_list[0].reader.instance_handle == rh,
            "C36: failed reader deletion keeps the reader identity"
        );
    }
    kani::cover!(sub_known && r_known, "reader deleted");
    kani::cover!(sub_known && !r_known, "unknown reader");
    kani::cover!(!sub_known, "unknown subscriber");
    core::mem::forget(r);
    core::mem::forget(p);
}

// @check props=C36 tier=quick
// @desc delete_user_defined_topic(participant, name) on a participant with topic "A" and a publisher holding 0 or 1 writer on topic "A" or "B", name in {"A","Z"}, participant handle own/foreign: PreconditionNotMet iff foreign participant handle or (name "A" and a writer uses topic "A"); AlreadyDeleted iff the name is unknown; on every error the topic list is unchanged; after Ok the topic is gone and deleting it again is AlreadyDeleted
// @bounds one topic (real create_topic), one publisher (real create), 0-1 writer installed directly with topic name "A" or "B"
// @assume the data writer is installed directly (a writer on topic "B" stands for a writer of another topic; its topic entity is not needed by the code under test)
// @assume stub: TypeInformation::from(DynamicType) returns a fixed value (MD5 over XTypes-serialized type objects); stub: alloc::fmt::format returns an empty String (error texts are in no claim)
// @enc DcpsDomainParticipant::delete_user_defined_topic
#[kani::proof]
#[kani::unwind(2)]
#[kani::stub(critical_section::acquire, super::support_cs::cs_acquire)]
#[kani::stub(critical_section::release, super::support_cs::cs_release)]
#[kani::stub(<crate::xtypes::type_object::TypeInformation as core::convert::From<crate::xtypes::dynamic_type::DynamicType<'static>>>::from, super::support_participant::type_information_stub)]
#[kani::stub(alloc::fmt::format, super::support_participant::fmt_format_stub)]
fn c36_topic_delete_used_by_writer() {
    s1::link_drop_glue();
    let cap = sp::Capture::new();
    let mut p = sp::participant(&cap, 0);
    let _th = s1::new_topic(&mut p, "A");
    let _ph = s1::new_publisher(&mut p);
    let has_writer: bool = kani::any();
    let on_a: bool = kani::any();
    if has_writer {
        s1::install_writer(&mut p, 0, 0, if on_a { "A" } else { "B" }, DataWriterQos::const_default());
    }
    let own: bool = kani::any();
    let known: bool = kani::any();
    let part_h = if own { *p.get_instance_handle() } else { unknown() };
    let name = if known { "A" } else { "Z" };

    let r = p.delete_user_defined_topic(&part_h, String::from(name));

    let used = has_writer && on_a;
    if !own {
        assert!(is_precondition_not_met(&r), "C36: topic deleted through a foreign participant is PreconditionNotMet");
    } else if !known {
        assert!(is_already_deleted(&r), "C36: unknown topic is AlreadyDeleted");
    } else if used {
        assert!(is_precondition_not_met(&r), "C36: topic still used by a data writer is PreconditionNotMet");
    } else {
        assert!(r.is_ok(), "C36: unused topic is deleted");
    }
    if r.is_err() {
        assert!(n_topic(&p) == 1, "C36: failed topic deletion keeps the topic");
        assert!(p.domain_participant.locally_created_topic_list[0].topic_name == "A", "C36: failed topic deletion keeps the topic identity");
    } else {
        assert!(n_topic(&p) == 0, "C36: deleted topic is removed");
        let again = p.delete_user_defined_topic(&part_h, String::from(name));
        assert!(is_already_deleted(&again), "C36: deleting a deleted topic is AlreadyDeleted");
    }
    assert!(n_pub(&p) == 1, "C36: topic deletion never touches publishers");
    kani::cover!(own && known && used, "topic used by a writer");
    kani::cover!(own && known && has_writer && !on_a && r.is_ok(), "writer of another topic does not block");
    kani::cover!(own && !known, "unknown topic");
    core::mem::forget(r);
    core::mem::forget(p);
}

// @check props=C36 tier=quick
// @desc delete_user_defined_topic with the topic used (or not) by a data READER: PreconditionNotMet iff a reader uses topic "A"; errors change nothing; Ok removes the topic
// @bounds one topic (real create_topic), one subscriber (real create), 0-1 reader installed directly with topic name "A" or "B"
// @assume the data reader is installed directly
// @assume stub: TypeInformation::from(DynamicType) returns a fixed value; stub: alloc::fmt::format returns an empty String
// @enc DcpsDomainParticipant::delete_user_defined_topic
#[kani::proof]
#[kani::unwind(2)]
#[kani::stub(critical_section::acquire, super::support_cs::cs_acquire)]
#[kani::stub(critical_section::release, super::support_cs::cs_release)]
#[kani::stub(<crate::xtypes::type_object::TypeInformation as core::convert::From<crate::xtypes::dynamic_type::DynamicType<'static>>>::from, super::support_participant::type_information_stub)]
#[kani::stub(alloc::fmt::format, super::support_participant::fmt_format_stub)]
fn c36_topic_delete_used_by_reader() {
    s1::link_drop_glue();
    let cap = sp::Capture::new();
    let mut p = sp::participant(&cap, 0);
    let _th = s1::new_topic(&mut p, "A");
    let _sh = s1::new_subscriber(&mut p);
    let has_reader: bool = kani::any();
    let on_a: bool = kani::any();
    if has_reader {
        s1::install_reader(&mut p, 0, 0, if on_a { "A" } else { "B" }, DataReaderQos::const_default());
    }
    let own = *p.get_instance_handle();

    let r = p.delete_user_defined_topic(&own, String::from("A"));

    let used = has_reader && on_a;
    if used {
        assert!(is_precondition_not_met(&r), "C36: topic still used by a data reader is PreconditionNotMet");
        assert!(n_topic(&p) == 1, "C36: failed topic deletion keeps the topic");
    } else {
        assert!(r.is_ok(), "C36: topic not used by any reader is deleted");
        assert!(n_topic(&p) == 0, "C36: deleted topic is removed");
    }
    assert!(n_sub(&p) == 1, "C36: topic deletion never touches subscribers");
    assert!(
        p.domain_participant.user_defined_subscriber_list[0].data_reader_list.len() == has_reader as usize,
        "C36: topic deletion never touches readers"
    );
    kani::cover!(used, "topic used by a reader");
    kani::cover!(has_reader && !on_a, "reader of another topic does not block");
    core::mem::forget(r);
    core::mem::forget(p);
}

fn contained(p: &mut DcpsDomainParticipant) -> (bool, bool, bool) {
    // publisher with 0-1 writer, subscriber with 0-1 reader (two real creates), shape symbolic
    let has_pub: bool = kani::any();
    let has_writer: bool = kani::any();
    let has_sub: bool = kani::any();
    let has_reader: bool = kani::any();
    if has_pub {
        s1::new_publisher(p);
        if has_writer {
            s1::install_writer(p, 0, 0, "A", DataWriterQos::const_default());
        }
    }
    if has_sub {
        s1::new_subscriber(p);
        if has_reader {
            s1::install_reader(p, 0, 0, "A", DataReaderQos::const_default());
        }
    }
    (has_pub, has_sub, (has_pub && has_writer) || (has_sub && has_reader))
}

// @check props=C36 tier=quick
// @desc delete_participant_contained_entities on a participant with 0-1 publisher (0-1 writer) and 0-1 subscriber (0-1 reader): returns Ok, afterwards the publisher and subscriber lists are empty and is_participant_empty() holds (the participant is deletable by the factory's precondition); before the call is_participant_empty() holds iff the tree is empty
// @bounds 0-1 publisher with 0-1 writer, 0-1 subscriber with 0-1 reader (shape symbolic); no user topic, no content-filtered topic (see the __known / __rest pair)
// @assume writers / readers installed directly; stub: announce_deleted_data_writer / announce_deleted_data_reader (SEDP dispose through DynamicData) are no-ops
// @enc DcpsDomainParticipant::delete_participant_contained_entities
// @enc DcpsDomainParticipant::is_participant_empty
#[kani::proof]
#[kani::unwind(2)]
#[kani::stub(critical_section::acquire, super::support_cs::cs_acquire)]
#[kani::stub(critical_section::release, super::support_cs::cs_release)]
#[kani::stub(crate::dcps::dcps_domain_participant::participant_entity::DcpsDomainParticipant::announce_deleted_data_writer, super::support_part1::announce_deleted_data_writer_stub)]
#[kani::stub(crate::dcps::dcps_domain_participant::participant_entity::DcpsDomainParticipant::announce_deleted_data_reader, super::support_part1::announce_deleted_data_reader_stub)]
fn c36_contained_entities_tree() {
    s1::link_drop_glue();
    let cap = sp::Capture::new();
    let mut p = sp::participant(&cap, 0);
    let (has_pub, has_sub, has_leaf) = contained(&mut p);
    assert!(p.is_participant_empty() == (!has_pub && !has_sub), "C36: participant is empty iff it contains no entity");

    let r = p.delete_participant_contained_entities(&s1::rt1());

    assert!(r.is_ok(), "C36: delete_contained_entities succeeds");
    assert!(n_pub(&p) == 0 && n_sub(&p) == 0, "C36: delete_contained_entities removes every publisher and subscriber");
    assert!(p.is_participant_empty(), "C36: delete_contained_entities leaves the participant empty (deletable)");
    kani::cover!(has_pub && has_sub && has_leaf, "publisher and subscriber with endpoints");
    kani::cover!(!has_pub && !has_sub, "already empty");
    core::mem::forget(r);
    core::mem::forget(p);
}

fn contained_topics(with_cft: bool) {
    let cap = sp::Capture::new();
    let mut p = sp::participant(&cap, 0);
    let _th = s1::new_topic(&mut p, "A");
    if with_cft {
        let own = *p.get_instance_handle();
        let r = p.create_content_filtered_topic(&own, String::from("F"), String::from("A"), String::new(), Vec::new());
        assert!(r.is_ok(), "harness: content filtered topic creation must succeed");
        core::mem::forget(r);
        // the only deletion operation for it reports success
        let d = p.delete_content_filtered_topic(&own, String::from("F"));
        assert!(d.is_ok(), "C36: delete_content_filtered_topic reports success");
    }
    assert!(!p.is_participant_empty(), "C36: a participant with a user topic is not empty");
    let r = p.delete_participant_contained_entities(&s1::rt1());
    assert!(r.is_ok(), "C36: delete_contained_entities succeeds");
    assert!(n_topic(&p) == 0, "C36: delete_contained_entities removes every user topic");
    assert!(p.is_participant_empty(), "C36: delete_contained_entities leaves the participant empty (deletable)");
    kani::cover!(true, "reached the end");
    core::mem::forget(p);
}

// @check props=C36 tier=quick known=KF-C36-1
// @desc KNOWN FINDING: a participant on which a content-filtered topic was created (and deleted with delete_content_filtered_topic, which returns Ok) is NOT empty after delete_participant_contained_entities: content_filtered_topic_list is never cleared by any operation, so is_participant_empty() stays false and DcpsParticipantFactory::delete_participant fails with PreconditionNotMet forever
// @bounds one topic (real create_topic), one content-filtered topic (real create_content_filtered_topic + delete_content_filtered_topic)
// @assume trigger: a content-filtered topic was created on the participant
// @assume stub: TypeInformation::from(DynamicType) returns a fixed value; stub: alloc::fmt::format returns an empty String
// @enc DcpsDomainParticipant::delete_participant_contained_entities
// @enc DcpsDomainParticipant::create_content_filtered_topic
// @enc DcpsDomainParticipant::delete_content_filtered_topic
// @enc DcpsDomainParticipant::is_participant_empty
#[kani::proof]
#[kani::unwind(2)]
#[kani::stub(critical_section::acquire, super::support_cs::cs_acquire)]
#[kani::stub(critical_section::release, super::support_cs::cs_release)]
#[kani::stub(<crate::xtypes::type_object::TypeInformation as core::convert::From<crate::xtypes::dynamic_type::DynamicType<'static>>>::from, super::support_participant::type_information_stub)]
#[kani::stub(alloc::fmt::format, super::support_participant::fmt_format_stub)]
fn c36_contained_entities_topics__known() {
    s1::link_drop_glue();
    contained_topics(true);
}

// @check props=C36 tier=quick
// @desc sibling of the known finding with the trigger negated: a participant with one user topic and NO content-filtered topic: delete_participant_contained_entities returns Ok, removes the topic and leaves is_participant_empty() true
// @bounds one topic (real create_topic), no content-filtered topic
// @assume negated trigger: no content-filtered topic was ever created on the participant
// @assume stub: TypeInformation::from(DynamicType) returns a fixed value; stub: alloc::fmt::format returns an empty String
// @enc DcpsDomainParticipant::delete_participant_contained_entities
// @enc DcpsDomainParticipant::is_participant_empty
#[kani::proof]
#[kani::unwind(2)]
#[kani::stub(critical_section::acquire, super::support_cs::cs_acquire)]
#[kani::stub(critical_section::release, super::support_cs::cs_release)]
#[kani::stub(<crate::xtypes::type_object::TypeInformation as core::convert::From<crate::xtypes::dynamic_type::DynamicType<'static>>>::from, super::support_participant::type_information_stub)]
#[kani::stub(alloc::fmt::format, super::support_participant::fmt_format_stub)]
fn c36_contained_entities_topics__rest() {
    s1::link_drop_glue();
    contained_topics(false);
}
