// C14 — time / duration arithmetic kernels (Kani side). The wire round trip (64-bit
// multiply/divide by constants) is decided by the MIR->SMT engine, see vlib/smtchecks.py.
use crate::infrastructure::time::{Duration, Time};

fn any_norm_duration() -> Duration {
    let sec: i32 = kani::any();
    let ns: u32 = kani::any();
    kani::assume(ns < 1_000_000_000);
    Duration::new(sec, ns)
}

fn any_norm_time() -> Time {
    let sec: i32 = kani::any();
    let ns: u32 = kani::any();
    kani::assume(ns < 1_000_000_000);
    Time::new(sec, ns)
}

// @check props=C14 tier=quick
// @desc Duration::new / Time::new always yield nanosec < 10^9 (any i32 sec, any u32 nanosec), never panic
// @bounds none (full i32 x u32 domain)
// @enc infrastructure::time::Duration::new
// @enc infrastructure::time::Time::new
#[kani::proof]
fn c14_new_normalized() {
    let sec: i32 = kani::any();
    let ns: u32 = kani::any();
    let d = Duration::new(sec, ns);
    assert!(d.nanosec() < 1_000_000_000, "C14: Duration::new normalized");
    let t = Time::new(sec, ns);
    assert!(t.nanosec() < 1_000_000_000, "C14: Time::new normalized");
    if ns < 1_000_000_000 {
        assert!(d.sec() == sec && d.nanosec() == ns, "C14: Duration::new identity on normalized input");
        assert!(t.sec() == sec && t.nanosec() == ns, "C14: Time::new identity on normalized input");
    }
    kani::cover!(ns >= 1_000_000_000 && sec == i32::MAX, "saturating corner reachable");
    kani::cover!(ns >= 4_000_000_000, "carry of 4 seconds reachable");
}

// @check props=C14 tier=quick
// @desc Duration + Duration and Duration - Duration on normalized operands are normalized and never panic
// @bounds none (full domain of normalized operands)
// @assume operands are normalized (nanosec < 10^9), the documented validity predicate
// @enc <infrastructure::time::Duration as Add>::add
// @enc <infrastructure::time::Duration as Sub>::sub
#[kani::proof]
fn c14_duration_add_sub_normalized() {
    let a = any_norm_duration();
    let b = any_norm_duration();
    let s = a + b;
    assert!(s.nanosec() < 1_000_000_000, "C14: Duration + Duration normalized");
    let d = a - b;
    assert!(d.nanosec() < 1_000_000_000, "C14: Duration - Duration normalized");
    kani::cover!(a.nanosec() + b.nanosec() >= 1_000_000_000, "carry path");
    kani::cover!(a.nanosec() < b.nanosec(), "borrow path");
}

// @check props=C14 tier=quick
// @desc Time + Duration and Time - Time on normalized operands are normalized and never panic
// @bounds none (full domain of normalized operands)
// @assume operands are normalized (nanosec < 10^9)
// @enc <infrastructure::time::Time as Add<Duration>>::add
// @enc <infrastructure::time::Time as Sub>::sub
#[kani::proof]
fn c14_time_add_sub_normalized() {
    let t = any_norm_time();
    let u = any_norm_time();
    let d = any_norm_duration();
    let s = t + d;
    assert!(s.nanosec() < 1_000_000_000, "C14: Time + Duration normalized");
    let diff = t - u;
    assert!(diff.nanosec() < 1_000_000_000, "C14: Time - Time normalized");
    kani::cover!(t.nanosec() + d.nanosec() >= 1_000_000_000, "carry path");
    kani::cover!(t.nanosec() < u.nanosec(), "borrow path");
}

// Non-saturating region: every operand has |sec| < 2^30, so no sum/difference of two operands
// (plus carry/borrow) reaches the i32 saturation used for the DDS "infinite" encoding.
fn small(sec: i32) -> bool {
    sec > -(1 << 30) && sec < (1 << 30)
}

// @check props=C14 tier=quick
// @desc monotonicity: a <= b implies a+c <= b+c and a-c <= b-c, and (a+c)-c == a, on the non-saturating region
// @bounds none on nanoseconds; seconds of every operand in (-2^30, 2^30) (saturation = DDS 'infinite' corner, outside)
// @assume operands normalized; |sec| < 2^30 for every operand (non-saturating region)
// @enc <infrastructure::time::Duration as Add>::add
// @enc <infrastructure::time::Duration as Sub>::sub
// @enc <infrastructure::time::Duration as Ord>::cmp
#[kani::proof]
fn c14_duration_monotone() {
    let a = any_norm_duration();
    let b = any_norm_duration();
    let c = any_norm_duration();
    kani::assume(a <= b);
    kani::assume(small(a.sec()) && small(b.sec()) && small(c.sec()));
    assert!(a + c <= b + c, "C14: Duration addition monotone");
    assert!(a - c <= b - c, "C14: Duration subtraction monotone");
    assert!((a + c) - c == a, "C14: (a + c) - c == a");
    kani::cover!(a.sec() == b.sec() && a.nanosec() < b.nanosec() && c.nanosec() > 0, "same second, carry relevant");
    kani::cover!(a.sec() < 0 && c.sec() > 0, "mixed signs");
}

// @check props=C14 tier=quick
// @desc monotonicity of Time + Duration and Time - Time; (t + d) - t == d on the non-saturating region
// @bounds none on values; region as c14_duration_monotone
// @assume operands normalized; |sec| < 2^30 for every operand
// @enc <infrastructure::time::Time as Add<Duration>>::add
// @enc <infrastructure::time::Time as Sub>::sub
#[kani::proof]
fn c14_time_monotone() {
    let t = any_norm_time();
    let u = any_norm_time();
    let d = any_norm_duration();
    kani::assume(t <= u);
    kani::assume(small(t.sec()) && small(u.sec()) && small(d.sec()));
    assert!(t + d <= u + d, "C14: Time + Duration monotone in the time");
    assert!((t + d) - t == d, "C14: (t + d) - t == d");
    assert!(u - t >= Duration::new(0, 0), "C14: later - earlier is non-negative");
    kani::cover!(t.nanosec() > u.nanosec() && t.sec() < u.sec(), "borrow path");
}

// @check props=C14 tier=quick
// @desc DDS Time <-> transport Time conversion is the identity on normalized values
// @bounds none
// @enc <transport::types::Time as From<infrastructure::time::Time>>::from
// @enc <infrastructure::time::Time as From<transport::types::Time>>::from
#[kani::proof]
fn c14_time_transport_identity() {
    let t = any_norm_time();
    let tt = crate::transport::types::Time::from(t);
    assert!(tt.sec() == t.sec() && tt.nanosec() == t.nanosec(), "C14: dds->transport time keeps fields");
    let back = Time::from(tt);
    assert!(back == t, "C14: dds->transport->dds time identity");
    kani::cover!(t.sec() < 0, "negative seconds");
}
