// C27 (reduced scope, see DESIGN.md) — a blocked reliable KEEP_LAST write returns Timeout when
// max_blocking_time has elapsed, without storing the sample.
//
// The blocking DECISION of `writer_methods::write_w_timestamp` (and its retry `process_pending_write_samples`)
// sits behind `serialize(dynamic_data)` / `KeyHolderData::from_dynamic_data`, i.e. behind DynamicData, and is
// not encodable. What is decided here is the part that ends the blocking by time: a writer with a directly
// installed `PendingWriteSample` (exactly what line 386 of writer_methods.rs stores: the sample as an — here
// EMPTY, never traversed — DynamicData, its timestamp, the caller's reply oneshot and
// `expiration_time = clock + max_blocking_time` or None for an infinite max_blocking_time), and the worker's
// duties `check_pending_writer_sample_timeout(now)` / `time_until_pending_writer_sample_timeout(now)`.
use super::support_part2 as s2;
use super::support_participant as sp;
use crate::dcps::channels::oneshot::{oneshot, OneshotReceiver};
use crate::dcps::dcps_domain_participant::participant_entity::DcpsDomainParticipant;
use crate::dcps::dcps_domain_participant::user_defined_data_writer::PendingWriteSample;
use crate::infrastructure::error::{DdsError, DdsResult};
use crate::infrastructure::qos::DataWriterQos;
use crate::infrastructure::qos_policy::{HistoryQosPolicy, HistoryQosPolicyKind, ReliabilityQosPolicy, ReliabilityQosPolicyKind};
use crate::infrastructure::time::{Duration, DurationKind, Time};
use crate::transport::types::{CacheChange, ChangeKind};
use crate::xtypes::dynamic_type::DynamicDataFactory;
use crate::xtypes::type_support::Type;
use alloc::sync::Arc;
use core::future::Future;
use core::pin::Pin;
use core::task::{Context, Poll, Waker};

const ZERO: Duration = Duration::new(0, 0);

#[derive(Clone, Copy, PartialEq, Eq)]
enum Pend {
    /// pending sample with `expiration_time = Some(exp)`
    Finite,
    /// pending sample of a writer with infinite max_blocking_time (`expiration_time = None`)
    Infinite,
    /// no write is blocked
    Absent,
}

struct Fx {
    p: DcpsDomainParticipant,
    rx: OneshotReceiver<DdsResult<()>>,
    exp: Time,
}

/// Participant + publisher + one enabled RELIABLE KEEP_LAST(1) writer whose only instance holds its one
/// allowed sample (sequence number 1, in the RTPS history, not acknowledged: a reliable reader is irrelevant
/// for the timeout path) and — unless `Absent` — a blocked second write.
fn fixture(kind: Pend) -> Fx {
    let cap = sp::Capture::new();
    let mut p = sp::participant(&cap, 0);
    let mut qos = DataWriterQos::default();
    qos.history = HistoryQosPolicy { kind: HistoryQosPolicyKind::KeepLast(1) };
    qos.reliability = ReliabilityQosPolicy {
        kind: ReliabilityQosPolicyKind::Reliable,
        max_blocking_time: if kind == Pend::Infinite { DurationKind::Infinite } else { DurationKind::Finite(Duration::new(1, 0)) },
    };
    let mut w = s2::new_writer(qos, None, sp::mask_from_bits(0));
    let mut info = s2::writer_instance(s2::INSTANCE_H, Some(Time::new(0, 0)));
    info.samples.push_back(1);
    w.registered_instance_info = alloc::vec![info];
    w.last_change_sequence_number = 1;
    w.transport_writer.changes_mut().push(CacheChange {
        kind: ChangeKind::Alive,
        writer_guid: s2::writer_guid(),
        sequence_number: 1,
        source_timestamp: Some(crate::transport::types::Time::new(0, 0)),
        instance_handle: Some([0; 16]),
        data_value: Arc::from(&[0u8; 0][..]),
    });
    let exp = s2::any_time();
    let (tx, rx) = oneshot::<DdsResult<()>>();
    match kind {
        Pend::Absent => core::mem::forget(tx),
        _ => {
            w.pending_write_sample = Some(PendingWriteSample {
                dynamic_data: DynamicDataFactory::create_data(<Duration as Type>::TYPE),
                timestamp: Time::new(0, 0),
                reply_sender: tx,
                expiration_time: if kind == Pend::Finite { Some(exp) } else { None },
            });
        }
    }
    s2::install_publisher(&mut p, None, sp::mask_from_bits(0), alloc::vec![w]);
    core::mem::forget(cap);
    Fx { p, rx, exp }
}

/// 0 = no reply yet (the write is still blocked), 1 = Err(Timeout), 2 = any other reply / sender dropped.
fn poll_reply(rx: &mut OneshotReceiver<DdsResult<()>>) -> u8 {
    let mut cx = Context::from_waker(Waker::noop());
    match Pin::new(rx).poll(&mut cx) {
        Poll::Pending => 0,
        Poll::Ready(Ok(Err(DdsError::Timeout))) => 1,
        Poll::Ready(r) => {
            core::mem::forget(r);
            2
        }
    }
}

fn timeout_step(kind: Pend) {
    let mut f = fixture(kind);
    let now = s2::any_time();
    f.p.check_pending_writer_sample_timeout(now);
    let reply = poll_reply(&mut f.rx);
    let w = &f.p.domain_participant.user_defined_publisher_list[0].data_writer_list[0];
    let still_pending = w.pending_write_sample.is_some();
    match kind {
        Pend::Finite => {
            if now > f.exp {
                assert!(reply == 1, "C27: a write blocked beyond its expiration time is answered with Timeout");
                assert!(!still_pending, "C27: the timed-out pending sample is discarded");
            }
            if now < f.exp {
                assert!(reply == 0, "C27: a blocked write is not answered before max_blocking_time has elapsed");
                assert!(still_pending, "C27: the blocked sample stays pending before its expiration time");
            }
            assert!(reply != 2, "C27: the only reply of the timeout duty is Timeout");
            assert!((reply == 1) == !still_pending, "C27: Timeout is sent exactly when the pending sample is discarded");
        }
        _ => {
            assert!(reply == 0, "C27: a write blocked with infinite max_blocking_time never times out");
            assert!(still_pending, "C27: the blocked sample stays pending (infinite max_blocking_time)");
        }
    }
    // "without storing the new sample": history and bookkeeping are exactly the pre-state
    assert!(w.last_change_sequence_number == 1, "C27: no sequence number is consumed by a timeout");
    assert!(w.registered_instance_info.len() == 1 && w.registered_instance_info[0].samples.len() == 1, "C27: the instance still holds exactly its depth (1) samples");
    assert!(w.registered_instance_info[0].samples.front().copied() == Some(1), "C27: the unacknowledged sample is not discarded");
    let ch = w.transport_writer.changes();
    assert!(ch.len() == 1 && ch[0].sequence_number == 1, "C27: the RTPS history still holds exactly the old change");
    if kind == Pend::Finite {
        kani::cover!(reply == 1, "Timeout branch taken");
        kani::cover!(reply == 0 && now > Time::new(0, 0), "still blocked");
    } else {
        kani::cover!(now > Time::new(3, 0), "late clock reading, still blocked");
    }
    core::mem::forget(f);
}

// PARKED (not run): symbolic execution does not finish — see the note at the end of this file.
// @parked props=C27 tier=quick
// @desc check_pending_writer_sample_timeout(now) on a real participant whose RELIABLE KEEP_LAST(1) writer has a blocked write with symbolic expiration time: now > expiration => the caller's reply oneshot holds Err(Timeout) and the pending sample is gone; now < expiration => no reply yet and the sample is still pending; in both cases nothing is stored (sequence counter, per-instance sample list = depth, RTPS history unchanged; the unacknowledged old sample is kept)
// @bounds one publisher, one writer, one instance holding depth = 1 sample, one blocked write; expiration and now on the value grid seconds 0..=7 x nanoseconds {0, 1, 5*10^8, 10^9-1}; at now == expiration either behaviour is accepted
// @assume the publisher/writer/pending sample were installed directly in the state create_* + enable + one accepted write + one blocked write (writer_methods.rs:386) leave them; the pending sample's DynamicData is an EMPTY value of a keyless type (never traversed by the code under test)
// @assume the reply is read by polling the real OneshotReceiver once with Waker::noop()
// @enc DcpsDomainParticipant::check_pending_writer_sample_timeout
// @enc OneshotSender::send
// #[kani::proof]
#[kani::unwind(3)]
#[kani::stub(critical_section::acquire, super::support_cs::cs_acquire)]
#[kani::stub(critical_section::release, super::support_cs::cs_release)]
#[kani::stub(core::task::wake::Waker::wake, super::support_part2::waker_wake_stub)]
#[kani::stub(core::task::wake::Waker::wake_by_ref, super::support_part2::waker_wake_by_ref_stub)]
#[kani::stub(<core::task::wake::Waker as core::ops::Drop>::drop, super::support_part2::waker_drop_stub)]
fn c27_timeout_finite() {
    timeout_step(Pend::Finite);
}

// PARKED (not run): symbolic execution does not finish — see the note at the end of this file.
// @parked props=C27 tier=thorough
// @desc as c27_timeout_finite for a writer with infinite max_blocking_time (expiration_time None): no clock reading makes the blocked write time out; nothing is stored or discarded
// @bounds as c27_timeout_finite
// @assume as c27_timeout_finite
// @enc DcpsDomainParticipant::check_pending_writer_sample_timeout
// #[kani::proof]
#[kani::unwind(3)]
#[kani::stub(critical_section::acquire, super::support_cs::cs_acquire)]
#[kani::stub(critical_section::release, super::support_cs::cs_release)]
#[kani::stub(core::task::wake::Waker::wake, super::support_part2::waker_wake_stub)]
#[kani::stub(core::task::wake::Waker::wake_by_ref, super::support_part2::waker_wake_by_ref_stub)]
#[kani::stub(<core::task::wake::Waker as core::ops::Drop>::drop, super::support_part2::waker_drop_stub)]
fn c27_timeout_infinite() {
    timeout_step(Pend::Infinite);
}

// @check props=C27 tier=quick
// @desc time_until_pending_writer_sample_timeout(now) for the same pre-state: Some(max(0, expiration - now)) — the value the worker's sleep computation (C31) uses, so the Timeout above is produced no later than the expiration time plus one wake-up
// @bounds as c27_timeout_finite
// @assume as c27_timeout_finite
// @enc DcpsDomainParticipant::time_until_pending_writer_sample_timeout
#[kani::proof]
#[kani::unwind(3)]
#[kani::stub(critical_section::acquire, super::support_cs::cs_acquire)]
#[kani::stub(critical_section::release, super::support_cs::cs_release)]
fn c27_time_until_timeout_finite() {
    time_until_finite();
}
fn time_until_finite() {
    let f = fixture(Pend::Finite);
    let now = s2::any_time();
    let r = f.p.time_until_pending_writer_sample_timeout(now);
    match r {
        Some(d) => {
            assert!(d >= ZERO, "C27: the time until a pending timeout is never negative");
            if now >= f.exp {
                assert!(d == ZERO, "C27: an overdue pending timeout is due immediately");
            } else {
                assert!(d == f.exp - now, "C27: the time until the pending timeout is expiration - now");
            }
        }
        None => assert!(false, "C27: a blocked write with finite max_blocking_time yields a timeout duty"),
    }
    kani::cover!(r.is_some_and(|d| d > ZERO), "timeout still ahead");
    kani::cover!(r.is_some_and(|d| d == ZERO), "timeout overdue");
    core::mem::forget(f);
}

fn time_until_none(kind: Pend) {
    let f = fixture(kind);
    let now = s2::any_time();
    let r = f.p.time_until_pending_writer_sample_timeout(now);
    assert!(r.is_none(), "C27: no timeout duty without a pending write with finite expiration time");
    kani::cover!(now > Time::new(1, 0), "some clock reading");
    core::mem::forget(f);
}

// @check props=C27 tier=thorough
// @desc time_until_pending_writer_sample_timeout(now) is None when the blocked write has no expiration time (infinite max_blocking_time)
// @bounds as c27_timeout_finite
// @assume as c27_timeout_finite
// @enc DcpsDomainParticipant::time_until_pending_writer_sample_timeout
#[kani::proof]
#[kani::unwind(3)]
#[kani::stub(critical_section::acquire, super::support_cs::cs_acquire)]
#[kani::stub(critical_section::release, super::support_cs::cs_release)]
fn c27_time_until_timeout_infinite() {
    time_until_none(Pend::Infinite);
}

// @check props=C27 tier=thorough
// @desc time_until_pending_writer_sample_timeout(now) is None when no write is blocked
// @bounds as c27_timeout_finite, no pending sample
// @assume as c27_timeout_finite
// @enc DcpsDomainParticipant::time_until_pending_writer_sample_timeout
#[kani::proof]
#[kani::unwind(3)]
#[kani::stub(critical_section::acquire, super::support_cs::cs_acquire)]
#[kani::stub(critical_section::release, super::support_cs::cs_release)]
fn c27_time_until_timeout_absent() {
    time_until_none(Pend::Absent);
}

// Why c27_timeout_finite / c27_timeout_infinite are parked: `check_pending_writer_sample_timeout` takes the
// PendingWriteSample out of the writer and lets it go out of scope after sending Timeout; that runs the drop
// glue of `DynamicData { abstract_data: BTreeMap<u32, DataStorage> }`. The map is empty, but it is read back
// from a heap-stored writer, so `length == 0` is not known to symbolic execution, which explores
// BTreeMap's dying-iterator (`deallocating_next`, `first_leaf_edge`) and the mutually recursive drop glue of
// DataStorage <-> DynamicData <-> Vec<String> ... Measured: symbolic execution alone > 400 s with the global
// unwinding bound 2 and bound 1 on every btree / drop-glue loop (unwinding assertions on), > 600 s with bound 3.
// Trait-impl Drop / drop glue cannot be stubbed in Kani 0.68 (generic trait impls), and the drop is inside the
// code under test, so `mem::forget` in the harness cannot avoid it.
