// Shared helpers of the RTPS message family (C06, C07-independent; C08): symbolic field values,
// the real message container, wire readers used as oracles. Nothing here re-implements an
// encoder or decoder: `wire_*` are the 1-3 line little-endian field readers of RTPS 2.x clause 9.4.
use alloc::vec::Vec;

use crate::rtps_messages::overall_structure::{
    Endianness, RtpsMessageHeader, RtpsMessageRead, RtpsMessageWrite, RtpsSubmessageReadKind, Submessage,
    SubmessageHeaderRead, TryReadFromBytes,
};
use crate::rtps_messages::submessage_elements::{FragmentNumberSet, SequenceNumberSet};
use crate::transport::types::{EntityId, GuidPrefix, ProtocolVersion};

pub fn any_entity_id() -> EntityId {
    EntityId::new(kani::any(), kani::any())
}

pub fn any_header() -> RtpsMessageHeader {
    let version = ProtocolVersion::new(kani::any(), kani::any());
    let vendor: [u8; 2] = kani::any();
    let prefix: GuidPrefix = kani::any();
    RtpsMessageHeader::new(version, vendor, prefix)
}

/// Encode with the REAL container (RtpsMessageWrite::new: Cursor<Vec<u8>>, header, then
/// write_submessage_into_bytes per submessage with the back-patched octetsToNextHeader).
pub fn encode(header: &RtpsMessageHeader, subs: &[&(dyn Submessage + Send)]) -> RtpsMessageWrite {
    RtpsMessageWrite::new(header, subs)
}

pub fn wire_u16(b: &[u8], o: usize) -> u16 {
    u16::from_le_bytes([b[o], b[o + 1]])
}
pub fn wire_u32(b: &[u8], o: usize) -> u32 {
    u32::from_le_bytes([b[o], b[o + 1], b[o + 2], b[o + 3]])
}

/// Checks the 20-byte RTPS header and the 4-byte header of the single submessage that follows:
/// protocol id, id byte, little-endian flag, and octetsToNextHeader == number of bytes that
/// actually follow the submessage header (the message ends with this submessage).
pub fn check_framing(buf: &[u8], header: &RtpsMessageHeader, kind_id: u8, body_len: usize) {
    assert!(buf.len() == 24 + body_len, "C08: encoded message length");
    assert!(buf[0] == b'R' && buf[1] == b'T' && buf[2] == b'P' && buf[3] == b'S', "C08: protocol id");
    assert!(buf[4] == header.version()._major() && buf[5] == header.version()._minor(), "C08: protocol version bytes");
    assert!(buf[6] == header.vendor_id()[0] && buf[7] == header.vendor_id()[1], "C08: vendor id bytes");
    assert!(buf[20] == kind_id, "C08: submessage id byte");
    assert!(buf[21] & 1 == 1, "C08: endianness flag (dust-dds always writes little-endian)");
    assert!(wire_u16(buf, 22) as usize == body_len, "C08: octetsToNextHeader differs from the encoded element length");
}

/// Copies the encoded message into a local array and re-writes the bytes the parser branches on
/// (protocol id, submessage id, octetsToNextHeader, optionally the flags octet) with the constants
/// they were just ASSERTED to equal. Semantically a no-op; it only lets CBMC's constant
/// propagation see them (the container builds the message in a growing heap Vec whose contents
/// are opaque to it - without this the 12-way dispatcher of RtpsMessageRead::try_from explores
/// every decoder on symbolic input and does not finish: measured > 900 s for one HEARTBEAT).
pub fn image<const N: usize>(buf: &[u8], header: &RtpsMessageHeader, kind_id: u8, flags: Option<u8>) -> [u8; N] {
    check_framing(buf, header, kind_id, N - 24);
    let mut img = [0u8; N];
    img.copy_from_slice(buf);
    img[0] = b'R';
    img[1] = b'T';
    img[2] = b'P';
    img[3] = b'S';
    img[20] = kind_id;
    let l = ((N - 24) as u16).to_le_bytes();
    img[22] = l[0];
    img[23] = l[1];
    if let Some(f) = flags {
        assert!(img[21] == f, "C08: flags octet");
        img[21] = f;
    }
    img
}

/// Assert that the little-endian u32 / u16 at `off` equals `v`, then re-write it with that constant
/// (see `image`): used for the length-like fields the decoders loop or branch on (numBits, bitmap
/// words of a FragmentNumberSet, parameter length, sentinel).
pub fn pin_u32(img: &mut [u8], off: usize, v: u32, what: &'static str) {
    assert!(wire_u32(img, off) == v, "{}", what);
    let x = v.to_le_bytes();
    img[off] = x[0];
    img[off + 1] = x[1];
    img[off + 2] = x[2];
    img[off + 3] = x[3];
}
pub fn pin_u16(img: &mut [u8], off: usize, v: u16, what: &'static str) {
    assert!(wire_u16(img, off) == v, "{}", what);
    let x = v.to_le_bytes();
    img[off] = x[0];
    img[off + 1] = x[1];
}

/// Decode with the REAL message parser; the message must contain exactly one submessage.
pub fn decode_single(buf: &[u8], header: &RtpsMessageHeader) -> RtpsMessageRead {
    match RtpsMessageRead::try_from(buf) {
        Ok(m) => {
            assert!(m.header() == *header, "C08: decoded RTPS header differs");
            assert!(m.submessages().len() == 1, "C08: decoded submessage count differs");
            m
        }
        Err(_) => {
            assert!(false, "C08: message built by dust-dds rejected by its own parser");
            unreachable!()
        }
    }
}

/// A SequenceNumberSet value with the given (concrete) base and numBits and an arbitrary
/// membership bitmap, obtained from the REAL element decoder applied to a little-endian wire image
/// written here (base, numBits, ceil(numBits/32) symbolic words; bits at offsets >= numBits are
/// cleared and the bit at offset numBits-1 is set, which is exactly the shape SequenceNumberSet::new
/// produces: numBits = highest member offset + 1). Building the value through
/// SequenceNumberSet::new from a symbolic member list makes numBits - and with it every length
/// and cursor position of the encoder - symbolic, which does not finish (> 900 s).
pub fn sn_set<const W: usize>(base: i64, nb: u32) -> SequenceNumberSet {
    assert!(W == ((nb + 31) / 32) as usize && W <= 8, "harness: word count");
    // `base` must be CONCRETE: the decoder rejects sets whose last member exceeds i64::MAX, and with a symbolic base that
    // check merges an error path into the result, which makes numBits (and every encoder length) symbolic for CBMC
    assert!(nb == 0 || base.checked_add(nb as i64 - 1).is_some(), "harness: set not representable");
    let mut b = [0u8; 44];
    let hi = ((base >> 32) as i32).to_le_bytes();
    let lo = (base as u32).to_le_bytes();
    let n = nb.to_le_bytes();
    let mut i = 0;
    while i < 4 {
        b[i] = hi[i];
        b[4 + i] = lo[i];
        b[8 + i] = n[i];
        i += 1;
    }
    let mut w = 0;
    while w < W {
        let mut x: u32 = kani::any();
        if w == W - 1 {
            let r = nb % 32;
            if r != 0 {
                x &= !0u32 << (32 - r);
            }
            x |= 1u32 << (31 - (nb - 1) % 32);
        }
        let xb = x.to_le_bytes();
        b[12 + 4 * w] = xb[0];
        b[13 + 4 * w] = xb[1];
        b[14 + 4 * w] = xb[2];
        b[15 + 4 * w] = xb[3];
        w += 1;
    }
    let mut d = &b[..12 + 4 * W];
    match SequenceNumberSet::try_read_from_bytes(&mut d, &Endianness::LittleEndian) {
        Ok(s) => s,
        Err(_) => {
            assert!(false, "harness: SequenceNumberSet image rejected");
            unreachable!()
        }
    }
}

/// FragmentNumberSet {base, base+2, base+32, base+33} (numBits 34) built by the real constructor.
/// `base` must be a concrete value: FragmentNumberSet::new computes numBits from
/// `fragment_number - base`, which CBMC only folds to a constant for a concrete base - with a
/// symbolic base numBits, and with it every encoder length, becomes symbolic (measured: 1.1 M
/// steps, > 9 GB).
pub fn fn_set_34(base: u32) -> FragmentNumberSet {
    FragmentNumberSet::new(base, [base + 33, base, base + 2, base + 32])
}

/// The two calls one arm of the dispatcher in RtpsMessageRead::try_from makes for the submessage at
/// offset 20: the real SubmessageHeaderRead::try_read_from_bytes, then the caller applies the
/// kind's real try_from_bytes to the returned body slice. Used where the whole dispatcher (all
/// twelve decoders in one harness) is too expensive; the dispatcher itself is exercised by
/// c08_heartbeat / c08_big_endian_decode and the C06 harnesses.
pub fn sub_at_20<'a>(img: &'a [u8], header: &RtpsMessageHeader) -> (SubmessageHeaderRead, &'a [u8]) {
    let p = header.guid_prefix();
    let mut i = 0;
    while i < 12 {
        assert!(img[8 + i] == p[i], "C08: guid prefix bytes of the RTPS header");
        i += 1;
    }
    let mut v = &img[20..];
    match SubmessageHeaderRead::try_read_from_bytes(&mut v) {
        Ok(h) => {
            assert!(h.submessage_length() as usize == v.len(), "C08: submessage_length differs from the bytes that follow");
            (h, v)
        }
        Err(_) => {
            assert!(false, "C08: submessage header rejected");
            unreachable!()
        }
    }
}

pub fn first<'a>(m: &'a RtpsMessageRead) -> &'a RtpsSubmessageReadKind {
    &m.submessages()[0]
}

#[allow(dead_code)]
pub fn to_vec(b: &[u8]) -> Vec<u8> {
    b.to_vec()
}
