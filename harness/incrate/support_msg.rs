// Shared helpers of the RTPS message family (C06, C07-independent; C08): symbolic field values,
// the real message container, wire readers used as oracles. Nothing here re-implements an
// encoder or decoder: `wire_*` are the 1-3 line little-endian field readers of RTPS 2.x clause 9.4.
use alloc::vec::Vec;

use crate::rtps_messages::overall_structure::{
    RtpsMessageHeader, RtpsMessageRead, RtpsMessageWrite, RtpsSubmessageReadKind, Submessage,
};
use crate::rtps_messages::submessage_elements::{FragmentNumberSet, SequenceNumberSet};
use crate::transport::types::{EntityId, GuidPrefix, ProtocolVersion};

pub fn any_entity_id() -> EntityId {
    EntityId::new(kani::any(), kani::any())
}

pub fn any_header() -> RtpsMessageHeader {
    let version = ProtocolVersion::new(kani::any(), kani::any());
    let vendor: [u8; 2] = kani::any();
    let prefix: GuidPrefix = kani::any();
    RtpsMessageHeader::new(version, vendor, prefix)
}

/// Encode with the REAL container (RtpsMessageWrite::new: Cursor<Vec<u8>>, header, then
/// write_submessage_into_bytes per submessage with the back-patched octetsToNextHeader).
pub fn encode(header: &RtpsMessageHeader, subs: &[&(dyn Submessage + Send)]) -> RtpsMessageWrite {
    RtpsMessageWrite::new(header, subs)
}

pub fn wire_u16(b: &[u8], o: usize) -> u16 {
    u16::from_le_bytes([b[o], b[o + 1]])
}
pub fn wire_u32(b: &[u8], o: usize) -> u32 {
    u32::from_le_bytes([b[o], b[o + 1], b[o + 2], b[o + 3]])
}

/// Checks the 20-byte RTPS header and the 4-byte header of the single submessage that follows:
/// protocol id, id byte, little-endian flag, and octetsToNextHeader == number of bytes that
/// actually follow the submessage header (the message ends with this submessage).
pub fn check_framing(buf: &[u8], header: &RtpsMessageHeader, kind_id: u8, body_len: usize) {
    assert!(buf.len() == 24 + body_len, "C08: encoded message length");
    assert!(buf[0] == b'R' && buf[1] == b'T' && buf[2] == b'P' && buf[3] == b'S', "C08: protocol id");
    assert!(buf[4] == header.version()._major() && buf[5] == header.version()._minor(), "C08: protocol version bytes");
    assert!(buf[6] == header.vendor_id()[0] && buf[7] == header.vendor_id()[1], "C08: vendor id bytes");
    assert!(buf[20] == kind_id, "C08: submessage id byte");
    assert!(buf[21] & 1 == 1, "C08: endianness flag (dust-dds always writes little-endian)");
    assert!(wire_u16(buf, 22) as usize == body_len, "C08: octetsToNextHeader differs from the encoded element length");
}

/// Copies the encoded message into a local array and re-writes the bytes the parser branches on
/// (protocol id, submessage id, octetsToNextHeader, optionally the flags octet) with the constants
/// they were just ASSERTED to equal. Semantically a no-op; it only lets CBMC's constant
/// propagation see them (the container builds the message in a growing heap Vec whose contents
/// are opaque to it - without this the 12-way dispatcher of RtpsMessageRead::try_from explores
/// every decoder on symbolic input and does not finish: measured > 900 s for one HEARTBEAT).
pub fn image<const N: usize>(buf: &[u8], header: &RtpsMessageHeader, kind_id: u8, flags: Option<u8>) -> [u8; N] {
    check_framing(buf, header, kind_id, N - 24);
    let mut img = [0u8; N];
    img.copy_from_slice(buf);
    img[0] = b'R';
    img[1] = b'T';
    img[2] = b'P';
    img[3] = b'S';
    img[20] = kind_id;
    let l = ((N - 24) as u16).to_le_bytes();
    img[22] = l[0];
    img[23] = l[1];
    if let Some(f) = flags {
        assert!(img[21] == f, "C08: flags octet");
        img[21] = f;
    }
    img
}

/// Assert that the little-endian u32 / u16 at `off` equals `v`, then re-write it with that constant
/// (see `image`): used for the length-like fields the decoders loop or branch on (numBits, bitmap
/// words of a FragmentNumberSet, parameter length, sentinel).
pub fn pin_u32(img: &mut [u8], off: usize, v: u32, what: &'static str) {
    assert!(wire_u32(img, off) == v, "{}", what);
    let x = v.to_le_bytes();
    img[off] = x[0];
    img[off + 1] = x[1];
    img[off + 2] = x[2];
    img[off + 3] = x[3];
}
pub fn pin_u16(img: &mut [u8], off: usize, v: u16, what: &'static str) {
    assert!(wire_u16(img, off) == v, "{}", what);
    let x = v.to_le_bytes();
    img[off] = x[0];
    img[off + 1] = x[1];
}

/// Decode with the REAL message parser; the message must contain exactly one submessage.
pub fn decode_single(buf: &[u8], header: &RtpsMessageHeader) -> RtpsMessageRead {
    match RtpsMessageRead::try_from(buf) {
        Ok(m) => {
            assert!(m.header() == *header, "C08: decoded RTPS header differs");
            assert!(m.submessages().len() == 1, "C08: decoded submessage count differs");
            m
        }
        Err(_) => {
            assert!(false, "C08: message built by dust-dds rejected by its own parser");
            unreachable!()
        }
    }
}

/// A SequenceNumberSet built by the real constructor: `dmax` (concrete) is the highest member
/// offset and is listed first so that numBits is the concrete value dmax + 1 from the first
/// iteration on; membership of every lower offset is symbolic (bits of `mask`, offset i <-> bit i).
/// `None` = empty set (numBits 0).
pub fn any_sn_set(base: i64, dmax: Option<u32>, mask: u64) -> SequenceNumberSet {
    match dmax {
        None => SequenceNumberSet::new(base, []),
        Some(d) => {
            let lower = (0..d).filter(move |i| (mask >> (*i % 64)) & 1 == 1).map(move |i| base + i as i64);
            SequenceNumberSet::new(base, core::iter::once(base + d as i64).chain(lower))
        }
    }
}

pub fn any_fn_set(base: u32, dmax: Option<u32>, mask: u64) -> FragmentNumberSet {
    match dmax {
        None => FragmentNumberSet::new(base, []),
        Some(d) => {
            let lower = (0..d).filter(move |i| (mask >> (*i % 64)) & 1 == 1).map(move |i| base + i);
            FragmentNumberSet::new(base, core::iter::once(base + d).chain(lower))
        }
    }
}

pub fn first<'a>(m: &'a RtpsMessageRead) -> &'a RtpsSubmessageReadKind {
    &m.submessages()[0]
}

#[allow(dead_code)]
pub fn to_vec(b: &[u8]) -> Vec<u8> {
    b.to_vec()
}
