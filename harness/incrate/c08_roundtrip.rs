// C08 — RTPS messages round-trip through their wire encoding.
// Per submessage kind: value with symbolic fields built by the real constructor -> real container
// RtpsMessageWrite::new (Cursor<Vec<u8>>, write_submessage_into_bytes, back-patched length) ->
// real decoders (HEARTBEAT and the big-endian images: the whole parser RtpsMessageRead::try_from;
// other kinds: SubmessageHeaderRead::try_read_from_bytes + the kind's try_from_bytes, the two calls
// of the dispatcher arm) -> equality of the RTPS header bytes and of every field, and
// octetsToNextHeader in the bytes == number of element bytes that follow.
//
// Tractability notes (measured): the container builds the message in a growing heap Vec whose
// contents CBMC does not constant-propagate; RtpsMessageRead::try_from then explores all twelve
// decoders at every position (> 900 s for one HEARTBEAT). The harnesses therefore (1) enumerate the
// flag values concretely, (2) assert the framing bytes (protocol id, submessage id, flags octet,
// octetsToNextHeader and - for the variable-length elements - numBits / bitmap words / parameter
// length / sentinel) against their expected constants and re-write them with those constants in a
// local copy of the message (`support_msg::image`, `pin_*`): a semantic no-op that makes the
// parser's control flow concrete. All other bytes stay symbolic.
use alloc::sync::Arc;
use alloc::vec::Vec;

use super::support_msg::*;

use crate::rtps_messages::overall_structure::{Endianness, RtpsMessageRead, RtpsSubmessageReadKind, TryReadFromBytes};
use crate::rtps_messages::submessage_elements::{Data, Parameter, ParameterList, SequenceNumberSet, SerializedDataFragment};
use crate::rtps_messages::submessages::{
    ack_nack::AckNackSubmessage, data::DataSubmessage, data_frag::DataFragSubmessage, gap::GapSubmessage,
    heartbeat::HeartbeatSubmessage, heartbeat_frag::HeartbeatFragSubmessage,
    info_destination::InfoDestinationSubmessage, info_source::InfoSourceSubmessage,
    info_timestamp::InfoTimestampSubmessage, nack_frag::NackFragSubmessage, pad::PadSubmessage,
};
use crate::rtps_messages::types::{
    Time, ACKNACK, DATA, DATA_FRAG, GAP, HEARTBEAT, HEARTBEAT_FRAG, INFO_DST, INFO_SRC, INFO_TS, NACK_FRAG, PAD,
    TIME_INVALID,
};
use crate::transport::types::ProtocolVersion;

fn heartbeat_trip(f: bool, l: bool) {
    let header = any_header();
    let s = HeartbeatSubmessage::new(f, l, any_entity_id(), any_entity_id(), kani::any(), kani::any(), kani::any());
    let w = encode(&header, &[&s]);
    let flags = 1 | ((f as u8) << 1) | ((l as u8) << 2);
    let img: [u8; 52] = image(w.buffer(), &header, HEARTBEAT, Some(flags));
    let m = decode_single(&img[..], &header);
    match first(&m) {
        RtpsSubmessageReadKind::Heartbeat(d) => {
            assert!(d.final_flag() == f && d.liveliness_flag() == l, "C08: HEARTBEAT flags");
            assert!(d._reader_id() == s._reader_id() && d.writer_id() == s.writer_id(), "C08: HEARTBEAT ids");
            assert!(d.first_sn() == s.first_sn() && d.last_sn() == s.last_sn(), "C08: HEARTBEAT sequence numbers");
            assert!(d.count() == s.count(), "C08: HEARTBEAT count");
            kani::cover!(d.first_sn() < 0 && d.last_sn() == i64::MAX && d.count() == i32::MIN, "negative first_sn, last_sn = i64::MAX, count = i32::MIN round-trip");
        }
        _ => assert!(false, "C08: HEARTBEAT decoded as another kind"),
    }
    core::mem::forget(m);
    core::mem::forget(w);
}

// @check props=C08 tier=quick
// @desc HEARTBEAT (final set, liveliness clear): any ids, first/last sequence number over the full i64 range, count over the full i32 range round-trip through the real container and the real parser; octetsToNextHeader = 28 = encoded element length
// @bounds all fields symbolic over their full machine domain; flags concrete; message 52 bytes; unwind 56 (byte-wise Vec::resize in the container, message copy)
// @enc rtps_messages::overall_structure::RtpsMessageWrite::new
// @enc rtps_messages::overall_structure::RtpsMessageRead::try_from
// @enc rtps_messages::submessages::heartbeat::HeartbeatSubmessage::try_from_bytes
#[kani::proof]
#[kani::unwind(56)]
fn c08_heartbeat() {
    heartbeat_trip(true, false);
}

// @check props=C08 tier=thorough
// @desc HEARTBEAT, the other three flag combinations
// @bounds as c08_heartbeat
// @enc rtps_messages::overall_structure::RtpsMessageWrite::new
// @enc rtps_messages::overall_structure::RtpsMessageRead::try_from
#[kani::proof]
#[kani::unwind(56)]
fn c08_heartbeat_other_flags() {
    heartbeat_trip(false, false);
    heartbeat_trip(false, true);
    heartbeat_trip(true, true);
}

// @check props=C08 tier=quick
// @desc HEARTBEAT_FRAG, INFO_DST, INFO_SRC, PAD: every field symbolic (sequence number full i64, fragment number full u32, count full i32, guid prefix / version / vendor bytes) round-trips; octetsToNextHeader = 24 / 12 / 20 / 0
// @bounds fields over their full machine domain; messages 48 / 36 / 44 / 24 bytes; unwind 52
// @enc rtps_messages::overall_structure::RtpsMessageWrite::new
// @enc rtps_messages::overall_structure::SubmessageHeaderRead::try_read_from_bytes
// @enc rtps_messages::submessages::heartbeat_frag::HeartbeatFragSubmessage::try_from_bytes
// @enc rtps_messages::submessages::info_destination::InfoDestinationSubmessage::try_from_bytes
// @enc rtps_messages::submessages::info_source::InfoSourceSubmessage::try_from_bytes
// @enc rtps_messages::submessages::pad::PadSubmessage::try_from_bytes
#[kani::proof]
#[kani::unwind(52)]
fn c08_fixed_size_kinds() {
    let header = any_header();
    {
        let s = HeartbeatFragSubmessage::_new(any_entity_id(), any_entity_id(), kani::any(), kani::any(), kani::any());
        let w = encode(&header, &[&s]);
        let img: [u8; 48] = image(w.buffer(), &header, HEARTBEAT_FRAG, Some(1));
        let (sh, body) = sub_at_20(&img[..], &header);
        match HeartbeatFragSubmessage::try_from_bytes(&sh, body) {
            Ok(dd) => {
                let d = &dd;
                assert!(*d == s, "C08: HEARTBEAT_FRAG differs after the round trip");
                assert!(d._writer_sn() == s._writer_sn() && d._last_fragment_num() == s._last_fragment_num() && d.count() == s.count(), "C08: HEARTBEAT_FRAG fields");
                kani::cover!(d._last_fragment_num() == u32::MAX && d._writer_sn() == i64::MIN, "extreme HEARTBEAT_FRAG values round-trip");
                core::mem::forget(dd);
            }
            Err(_) => assert!(false, "C08: HEARTBEAT_FRAG produced by dust-dds is rejected by its own decoder"),
        }
        core::mem::forget(w);
    }
    {
        let s = InfoDestinationSubmessage::new(kani::any());
        let w = encode(&header, &[&s]);
        let img: [u8; 36] = image(w.buffer(), &header, INFO_DST, Some(1));
        let (sh, body) = sub_at_20(&img[..], &header);
        match InfoDestinationSubmessage::try_from_bytes(&sh, body) {
            Ok(dd) => {
                let d = &dd;
                assert!(d.guid_prefix() == s.guid_prefix(), "C08: INFO_DST guid prefix");
                core::mem::forget(dd);
            }
            Err(_) => assert!(false, "C08: INFO_DST produced by dust-dds is rejected by its own decoder"),
        }
        core::mem::forget(w);
    }
    {
        let s = InfoSourceSubmessage::_new(ProtocolVersion::new(kani::any(), kani::any()), kani::any(), kani::any());
        let w = encode(&header, &[&s]);
        let img: [u8; 44] = image(w.buffer(), &header, INFO_SRC, Some(1));
        let (sh, body) = sub_at_20(&img[..], &header);
        match InfoSourceSubmessage::try_from_bytes(&sh, body) {
            Ok(dd) => {
                let d = &dd;
                assert!(d.protocol_version() == s.protocol_version() && d.vendor_id() == s.vendor_id() && d.guid_prefix() == s.guid_prefix(), "C08: INFO_SRC fields");
                core::mem::forget(dd);
            }
            Err(_) => assert!(false, "C08: INFO_SRC produced by dust-dds is rejected by its own decoder"),
        }
        core::mem::forget(w);
    }
    {
        let s = PadSubmessage::new();
        let w = encode(&header, &[&s]);
        let img: [u8; 24] = image(w.buffer(), &header, PAD, Some(1));
        let (sh, body) = sub_at_20(&img[..], &header);
        assert!(body.is_empty() && PadSubmessage::try_from_bytes(&sh, body).is_ok(), "C08: PAD produced by dust-dds is rejected by its own decoder");
        core::mem::forget(w);
    }
}

// @check props=C08 tier=quick
// @desc INFO_TS with a timestamp (seconds and fraction over the full u32 range) and with the invalidate flag (no timestamp on the wire, decodes to TIME_INVALID) round-trips; octetsToNextHeader = 8 / 0
// @bounds timestamp symbolic; both flag values; messages 32 / 24 bytes; unwind 36
// @enc rtps_messages::overall_structure::RtpsMessageWrite::new
// @enc rtps_messages::overall_structure::SubmessageHeaderRead::try_read_from_bytes
// @enc rtps_messages::submessages::info_timestamp::InfoTimestampSubmessage::try_from_bytes
#[kani::proof]
#[kani::unwind(36)]
fn c08_info_timestamp() {
    let header = any_header();
    let t = Time::new(kani::any(), kani::any());
    {
        let s = InfoTimestampSubmessage::new(false, t);
        let w = encode(&header, &[&s]);
        let img: [u8; 32] = image(w.buffer(), &header, INFO_TS, Some(0b01));
        let (sh, body) = sub_at_20(&img[..], &header);
        match InfoTimestampSubmessage::try_from_bytes(&sh, body) {
            Ok(dd) => {
                let d = &dd;
                assert!(!d.invalidate_flag() && d.timestamp() == t, "C08: INFO_TS timestamp");
                kani::cover!(d.timestamp().seconds() == u32::MAX && d.timestamp().fraction() == 1, "a timestamp with seconds = u32::MAX round-trips");
                core::mem::forget(dd);
            }
            Err(_) => assert!(false, "C08: INFO_TS produced by dust-dds is rejected by its own decoder"),
        }
        core::mem::forget(w);
    }
    {
        let s = InfoTimestampSubmessage::new(true, t);
        let w = encode(&header, &[&s]);
        let img: [u8; 24] = image(w.buffer(), &header, INFO_TS, Some(0b11));
        let (sh, body) = sub_at_20(&img[..], &header);
        match InfoTimestampSubmessage::try_from_bytes(&sh, body) {
            Ok(dd) => {
                let d = &dd;
                assert!(d.invalidate_flag() && d.timestamp() == TIME_INVALID, "C08: INFO_TS invalidate");
                core::mem::forget(dd);
            }
            Err(_) => assert!(false, "C08: INFO_TS produced by dust-dds is rejected by its own decoder"),
        }
        core::mem::forget(w);
    }
}

/// ACKNACK with a SequenceNumberSet of `W` bitmap words (message 48 + 4*W bytes).
/// Representative bases: the smallest, one whose members cross a 32-bit boundary of the wire format
/// (high / low word), and the largest admissible one (last member = i64::MAX).
fn bases(nb: u32) -> [i64; 3] {
    [i64::MIN, 0x0000_0001_ffff_fff0, i64::MAX - if nb == 0 { 0 } else { nb as i64 - 1 }]
}

fn acknack_trip<const N: usize, const W: usize>(fin: bool, nb: u32, base: i64) {
    let header = any_header();
    let set = sn_set::<W>(base, nb);
    let s = AckNackSubmessage::new(fin, any_entity_id(), any_entity_id(), set.clone(), kani::any());
    let w = encode(&header, &[&s]);
    let mut img: [u8; N] = image(w.buffer(), &header, ACKNACK, Some(1 | ((fin as u8) << 1)));
    assert!(N == 48 + 4 * W, "C08: harness message size");
    pin_u32(&mut img, 40, nb, "C08: ACKNACK numBits on the wire");
    let (sh, body) = sub_at_20(&img[..], &header);
    match AckNackSubmessage::try_from_bytes(&sh, body) {
        Ok(dd) => {
            let d = &dd;
            assert!(d._final_flag() == fin && d.reader_id() == s.reader_id() && d.writer_id() == s.writer_id() && d.count() == s.count(), "C08: ACKNACK flags / ids / count");
            assert!(d.reader_sn_state().base() == base, "C08: ACKNACK set base");
            assert!(*d.reader_sn_state() == set, "C08: ACKNACK set (base, numBits, bitmap) differs after the round trip");
            kani::cover!(d.count() == i32::MAX && (nb <= 32 || wire_u32(&img, 44) != 0), "count = i32::MAX and a set bit in the first bitmap word round-trip");
            core::mem::forget(dd);
        }
        Err(_) => assert!(false, "C08: ACKNACK produced by dust-dds is rejected by its own decoder"),
    }
    core::mem::forget(w);
}

// @check props=C08 tier=quick
// @desc ACKNACK with a SequenceNumberSet of numBits = 34 (two bitmap words, membership of the 33 lower offsets symbolic), base in {i64::MIN, 0x1fffffff0 (members cross the high/low word boundary), i64::MAX - 33 (last member = i64::MAX)}, count full i32, final flag clear: header, flags, ids, set (base, numBits, bitmap) and count round-trip; octetsToNextHeader = 24 + 4 * ceil(numBits / 32)
// @bounds numBits = 34 concrete (so that the encoded length is concrete), membership of the 33 lower offsets symbolic; base concrete from three representatives (since the decoder rejects sets reaching beyond i64::MAX, a symbolic base merges an error path into the constructed value and makes numBits - hence every encoder length - symbolic for CBMC: > 12 GB); message 56 bytes; unwind 60
// @assume the set value is obtained from the real element decoder on a harness-written image (bits >= numBits clear, bit numBits-1 set: the shape SequenceNumberSet::new produces); SequenceNumberSet::new on a symbolic member list makes every encoder length symbolic and does not finish
// @enc rtps_messages::overall_structure::RtpsMessageWrite::new
// @enc rtps_messages::overall_structure::SubmessageHeaderRead::try_read_from_bytes
// @enc rtps_messages::submessage_elements::SequenceNumberSet::write_into_bytes
// @enc rtps_messages::submessages::ack_nack::AckNackSubmessage::try_from_bytes
#[kani::proof]
#[kani::unwind(60)]
fn c08_acknack() {
    for b in bases(34) {
        acknack_trip::<56, 2>(false, 34, b);
    }
}

// @check props=C08 tier=thorough
// @desc ACKNACK: empty set (numBits 0), numBits 1, 32 and 64, final flag set
// @bounds numBits in {0, 1, 32, 64}, membership symbolic; unwind 68
// @assume set values obtained from the real element decoder (see c08_acknack)
// @enc rtps_messages::overall_structure::RtpsMessageWrite::new
// @enc rtps_messages::overall_structure::SubmessageHeaderRead::try_read_from_bytes
#[kani::proof]
#[kani::unwind(68)]
fn c08_acknack_other_sizes() {
    acknack_trip::<48, 0>(true, 0, i64::MAX);
    acknack_trip::<52, 1>(true, 1, i64::MAX);
    acknack_trip::<52, 1>(false, 32, -1);
    acknack_trip::<56, 2>(true, 64, 0x0000_0001_ffff_fff0);
}

// @check props=C08 tier=thorough timeout=1500
// @desc ACKNACK with the maximal SequenceNumberSet: numBits = 256 (8 bitmap words), membership of offsets 0..63 symbolic (the mask repeats every 64 offsets)
// @bounds numBits 256; message 80 bytes; unwind 260
// @assume set values obtained from the real element decoder (see c08_acknack)
// @enc rtps_messages::overall_structure::RtpsMessageWrite::new
// @enc rtps_messages::overall_structure::SubmessageHeaderRead::try_read_from_bytes
#[kani::proof]
#[kani::unwind(260)]
fn c08_acknack_256() {
    acknack_trip::<80, 8>(false, 256, i64::MAX - 255);
}

fn gap_trip<const N: usize, const W: usize>(nb: u32, base: i64) {
    let header = any_header();
    let set = sn_set::<W>(base, nb);
    let s = GapSubmessage::new(any_entity_id(), any_entity_id(), kani::any(), set.clone());
    let w = encode(&header, &[&s]);
    let mut img: [u8; N] = image(w.buffer(), &header, GAP, Some(1));
    assert!(N == 52 + 4 * W, "C08: harness message size");
    pin_u32(&mut img, 48, nb, "C08: GAP numBits on the wire");
    let (sh, body) = sub_at_20(&img[..], &header);
    match GapSubmessage::try_from_bytes(&sh, body) {
        Ok(dd) => {
            let d = &dd;
            assert!(d._reader_id() == s._reader_id() && d.writer_id() == s.writer_id(), "C08: GAP ids");
            assert!(d.gap_start() == s.gap_start(), "C08: GAP start");
            assert!(*d.gap_list() == set, "C08: GAP list differs after the round trip");
            kani::cover!(d.gap_start() == i64::MIN, "gap_start = i64::MIN round-trips");
            core::mem::forget(dd);
        }
        Err(_) => assert!(false, "C08: GAP produced by dust-dds is rejected by its own decoder"),
    }
    core::mem::forget(w);
}

// @check props=C08 tier=quick
// @desc GAP with gap_start over the full i64 range and a gap list of numBits = 41 (two bitmap words, lower membership symbolic), base 0x1fffffff0: ids, start and list round-trip; octetsToNextHeader = 28 + 4 * ceil(numBits / 32)
// @bounds numBits = 41; message 60 bytes; unwind 64
// @assume set values obtained from the real element decoder (see c08_acknack)
// @enc rtps_messages::overall_structure::RtpsMessageWrite::new
// @enc rtps_messages::overall_structure::SubmessageHeaderRead::try_read_from_bytes
// @enc rtps_messages::submessages::gap::GapSubmessage::try_from_bytes
#[kani::proof]
#[kani::unwind(64)]
fn c08_gap() {
    gap_trip::<60, 2>(41, 0x0000_0001_ffff_fff0);
}

// @check props=C08 tier=thorough
// @desc GAP with an empty list and with numBits = 64
// @bounds numBits in {0, 64}; unwind 68
// @assume set values obtained from the real element decoder (see c08_acknack)
// @enc rtps_messages::overall_structure::RtpsMessageWrite::new
// @enc rtps_messages::overall_structure::SubmessageHeaderRead::try_read_from_bytes
#[kani::proof]
#[kani::unwind(68)]
fn c08_gap_other_sizes() {
    gap_trip::<52, 0>(0, i64::MIN);
    gap_trip::<60, 2>(64, i64::MAX - 63);
}

fn nack_frag_trip(base: u32) {
    let header = any_header();
    let set = fn_set_34(base);
    let s = NackFragSubmessage::new(any_entity_id(), any_entity_id(), kani::any(), set.clone(), kani::any());
    let w = encode(&header, &[&s]);
    let mut img: [u8; 60] = image(w.buffer(), &header, NACK_FRAG, Some(1));
    pin_u32(&mut img, 40, base, "C08: NACK_FRAG bitmapBase on the wire");
    pin_u32(&mut img, 44, 34, "C08: NACK_FRAG numBits on the wire");
    pin_u32(&mut img, 48, 0xa000_0000, "C08: NACK_FRAG bitmap word 0 (offsets 0 and 2)");
    pin_u32(&mut img, 52, 0xc000_0000, "C08: NACK_FRAG bitmap word 1 (offsets 32 and 33)");
    let (sh, body) = sub_at_20(&img[..], &header);
    match NackFragSubmessage::try_from_bytes(&sh, body) {
        Ok(dd) => {
            let d = &dd;
            assert!(d.reader_id() == s.reader_id() && d._writer_id() == s._writer_id(), "C08: NACK_FRAG ids");
            assert!(d.writer_sn() == s.writer_sn() && d.count() == s.count(), "C08: NACK_FRAG sequence number / count");
            assert!(*d.fragment_number_state() == set, "C08: NACK_FRAG set differs after the round trip");
            kani::cover!(d.count() == i32::MIN && d.writer_sn() < 0, "count = i32::MIN and a negative sequence number round-trip");
            core::mem::forget(dd);
        }
        Err(_) => assert!(false, "C08: NACK_FRAG produced by dust-dds is rejected by its own decoder"),
    }
    core::mem::forget(w);
}

// @check props=C08 tier=quick
// @desc NACK_FRAG with writerSN full i64, count full i32, ids symbolic and the FragmentNumberSet {base, base+2, base+32, base+33} (numBits 34) for base = 1: ids, sequence number, set and count round-trip; the bitmap words on the wire are 0xa0000000, 0xc0000000 (RTPS bit order: offset i <-> bit 31 - i%32 of word i/32); octetsToNextHeader = 36
// @bounds set fully concrete (base 1; FragmentNumberSet::new derives numBits from `member - base`, which stays symbolic for a symbolic base and makes every encoder length symbolic; the decoder materialises members in a Vec and is not tractable with a symbolic bitmap, see C07); all other fields symbolic; message 60 bytes; unwind 64
// @enc rtps_messages::overall_structure::RtpsMessageWrite::new
// @enc rtps_messages::submessage_elements::FragmentNumberSet::new
// @enc rtps_messages::submessage_elements::FragmentNumberSet::try_read_from_bytes
// @enc rtps_messages::submessages::nack_frag::NackFragSubmessage::try_from_bytes
#[kani::proof]
#[kani::unwind(64)]
fn c08_nack_frag() {
    nack_frag_trip(1);
}

// @check props=C08 tier=thorough
// @desc NACK_FRAG as c08_nack_frag with base = 0xffffff00 (largest members close to u32::MAX)
// @bounds as c08_nack_frag
// @enc rtps_messages::overall_structure::RtpsMessageWrite::new
// @enc rtps_messages::submessages::nack_frag::NackFragSubmessage::try_from_bytes
#[kani::proof]
#[kani::unwind(64)]
fn c08_nack_frag_high_base() {
    nack_frag_trip(0xffff_ff00);
}

/// DATA round trip. `qos`: Some(value length) = inline QoS flag set with one parameter of that
/// many (multiple of 4) symbolic value bytes; `P` payload bytes (symbolic); N = message size.
fn data_trip<const N: usize, const P: usize>(qos: bool, d_flag: bool, k_flag: bool, n_flag: bool) -> bool {
    let mut extreme = false;
    let header = any_header();
    let pid: i16 = 0x0070; // PID_KEY_HASH; a symbolic id keeps the sentinel branch of the parameter reader alive and does not finish
    let pval: [u8; 4] = kani::any();
    let params: Vec<Parameter> = if qos { alloc::vec![Parameter::new(pid, Arc::from(&pval[..]))] } else { Vec::new() };
    let payload: [u8; P] = kani::any();
    let has_payload = d_flag || k_flag;
    let data = if has_payload { Data::new(Arc::from(&payload[..])) } else { Data::default() };
    let s = DataSubmessage::new(qos, d_flag, k_flag, n_flag, any_entity_id(), any_entity_id(), kani::any(), ParameterList::new(params), data);
    let w = encode(&header, &[&s]);
    let flags = 1 | ((qos as u8) << 1) | ((d_flag as u8) << 2) | ((k_flag as u8) << 3) | ((n_flag as u8) << 4);
    let mut img: [u8; N] = image(w.buffer(), &header, DATA, Some(flags));
    assert!(N == 44 + if qos { 12 } else { 0 } + if has_payload { P } else { 0 }, "C08: harness message size");
    pin_u16(&mut img, 26, 16, "C08: DATA octetsToInlineQos");
    if qos {
        pin_u16(&mut img, 44, pid as u16, "C08: parameter id on the wire");
        pin_u16(&mut img, 46, 4, "C08: parameter length on the wire");
        pin_u16(&mut img, 52, 1, "C08: sentinel after the parameter list");
    }
    let (sh, body) = sub_at_20(&img[..], &header);
    match DataSubmessage::try_from_bytes(&sh, body) {
        Ok(dd) => {
            let d = &dd;
            assert!(d._inline_qos_flag() == qos && d._data_flag() == d_flag && d._key_flag() == k_flag && d._non_standard_payload_flag() == n_flag, "C08: DATA flags");
            assert!(d.reader_id() == s.reader_id() && d.writer_id() == s.writer_id() && d.writer_sn() == s.writer_sn(), "C08: DATA ids / sequence number");
            assert!(d.inline_qos().parameter().len() == qos as usize, "C08: DATA inline QoS parameter count");
            if qos {
                let p = &d.inline_qos().parameter()[0];
                assert!(p.parameter_id() == pid && p.value().len() == 4, "C08: DATA parameter id / length");
                assert!(p.value()[0] == pval[0] && p.value()[1] == pval[1] && p.value()[2] == pval[2] && p.value()[3] == pval[3], "C08: DATA parameter value");
            }
            let dp = d.serialized_payload().as_ref();
            assert!(dp.len() == if has_payload { P } else { 0 }, "C08: DATA payload length");
            let mut i = 0;
            while i < dp.len() {
                assert!(dp[i] == payload[i], "C08: DATA payload bytes");
                i += 1;
            }
            assert!(*d == s, "C08: DATA differs after the round trip");
            extreme = d.writer_sn() == i64::MAX;
            core::mem::forget(dd);
        }
        Err(_) => assert!(false, "C08: DATA produced by dust-dds is rejected by its own decoder"),
    }
    core::mem::forget(w);
    extreme
}

// @check props=C08 tier=quick
// @desc DATA without inline QoS (flag D) and a 5-byte payload (not a multiple of 4): flags, ids, writerSN (full i64) and payload bytes round-trip; octetsToNextHeader = 20 + 5
// @bounds payload 5 symbolic bytes; message 49 bytes; unwind 52
// @enc rtps_messages::overall_structure::RtpsMessageWrite::new
// @enc rtps_messages::submessages::data::DataSubmessage::try_from_bytes
#[kani::proof]
#[kani::unwind(52)]
fn c08_data_payload() {
    let e = data_trip::<49, 5>(false, true, false, false);
    kani::cover!(e, "writer_sn = i64::MAX round-trips");
}

// @check props=C08 tier=quick
// @desc DATA with inline QoS (one parameter: id 0x0070, 4 symbolic value bytes), key flag, non-standard-payload flag and a 4-byte payload: flags, ids, writerSN, parameter and payload bytes round-trip; octetsToNextHeader = 20 + 12 + 4
// @bounds payload 4 symbolic bytes, 1 parameter of 4 bytes; message 60 bytes; unwind 64
// @assume parameter id concrete (0x0070); parameter value length a multiple of 4 (values are padded on the wire otherwise)
// @enc rtps_messages::overall_structure::RtpsMessageWrite::new
// @enc rtps_messages::submessages::data::DataSubmessage::try_from_bytes
// @enc rtps_messages::submessage_elements::ParameterList::write_into_bytes
// @enc rtps_messages::submessage_elements::ParameterList::try_read_from_bytes
#[kani::proof]
#[kani::unwind(64)]
fn c08_data_inline_qos() {
    let e = data_trip::<60, 4>(true, false, true, true);
    kani::cover!(e, "writer_sn = i64::MAX round-trips");
}

// @check props=C08 tier=thorough
// @desc DATA: no payload flags (neither D nor K: no payload on the wire), inline QoS only; D with inline QoS and an 8-byte payload; empty payload with D
// @bounds payload 0 / 8 bytes, <= 1 parameter of 4 bytes; unwind 68
// @assume parameter id concrete (0x0070)
// @enc rtps_messages::overall_structure::RtpsMessageWrite::new
// @enc rtps_messages::submessages::data::DataSubmessage::try_from_bytes
#[kani::proof]
#[kani::unwind(68)]
fn c08_data_other_shapes() {
    let a = data_trip::<56, 8>(true, false, false, false);
    let b = data_trip::<64, 8>(true, true, false, false);
    let c = data_trip::<44, 0>(false, true, false, false);
    kani::cover!(a && b && c, "writer_sn = i64::MAX round-trips in all three shapes");
}

fn data_frag_trip<const N: usize, const P: usize>(qos: bool, k_flag: bool, n_flag: bool) {
    let header = any_header();
    let pid: i16 = 0x0070;
    let pval: [u8; 4] = kani::any();
    let params: Vec<Parameter> = if qos { alloc::vec![Parameter::new(pid, Arc::from(&pval[..]))] } else { Vec::new() };
    let payload: [u8; P] = kani::any();
    let fragment_size: u16 = kani::any();
    kani::assume(fragment_size != 0); // dust-dds never builds (and its decoder rejects) fragmentSize 0
    let s = DataFragSubmessage::new(
        qos, n_flag, k_flag, any_entity_id(), any_entity_id(), kani::any(), kani::any(), kani::any(), fragment_size, kani::any(),
        ParameterList::new(params), SerializedDataFragment::from(&payload[..]),
    );
    let w = encode(&header, &[&s]);
    let flags = 1 | ((qos as u8) << 1) | ((k_flag as u8) << 2) | ((n_flag as u8) << 3);
    let mut img: [u8; N] = image(w.buffer(), &header, DATA_FRAG, Some(flags));
    assert!(N == 56 + if qos { 12 } else { 0 } + P, "C08: harness message size");
    pin_u16(&mut img, 26, 28, "C08: DATA_FRAG octetsToInlineQos");
    if qos {
        pin_u16(&mut img, 56, pid as u16, "C08: parameter id on the wire");
        pin_u16(&mut img, 58, 4, "C08: parameter length on the wire");
        pin_u16(&mut img, 64, 1, "C08: sentinel after the parameter list");
    }
    let (sh, body) = sub_at_20(&img[..], &header);
    match DataFragSubmessage::try_from_bytes(&sh, body) {
        Ok(dd) => {
            let d = &dd;
            assert!(d.inline_qos_flag() == qos && d.key_flag() == k_flag && d._non_standard_payload_flag() == n_flag, "C08: DATA_FRAG flags");
            assert!(d.reader_id() == s.reader_id() && d.writer_id() == s.writer_id() && d.writer_sn() == s.writer_sn(), "C08: DATA_FRAG ids / sequence number");
            assert!(d.fragment_starting_num() == s.fragment_starting_num() && d.fragments_in_submessage() == s.fragments_in_submessage() && d.fragment_size() == s.fragment_size() && d.data_size() == s.data_size(), "C08: DATA_FRAG fragment fields");
            assert!(d.inline_qos().parameter().len() == qos as usize, "C08: DATA_FRAG inline QoS parameter count");
            if qos {
                let p = &d.inline_qos().parameter()[0];
                assert!(p.parameter_id() == pid && p.value().len() == 4 && p.value()[0] == pval[0] && p.value()[3] == pval[3], "C08: DATA_FRAG parameter");
            }
            let dp = d.serialized_payload().as_ref();
            assert!(dp.len() == P, "C08: DATA_FRAG payload length");
            let mut i = 0;
            while i < dp.len() {
                assert!(dp[i] == payload[i], "C08: DATA_FRAG payload bytes");
                i += 1;
            }
            kani::cover!(d.data_size() == u32::MAX && d.fragment_size() == u16::MAX && d.fragment_starting_num() == 0, "extreme fragment fields round-trip");
            core::mem::forget(dd);
        }
        Err(_) => assert!(false, "C08: DATA_FRAG produced by dust-dds is rejected by its own decoder"),
    }
    core::mem::forget(w);
}

// @check props=C08 tier=quick
// @desc DATA_FRAG without inline QoS, key flag set, 4-byte payload: flags, ids, writerSN (full i64), fragmentStartingNum / dataSize (full u32), fragmentsInSubmessage (full u16), fragmentSize (1..=65535) and payload bytes round-trip; octetsToNextHeader = 32 + payload length
// @bounds payload 4 symbolic bytes; message 60 bytes; unwind 64
// @enc rtps_messages::overall_structure::RtpsMessageWrite::new
// @enc rtps_messages::overall_structure::SubmessageHeaderRead::try_read_from_bytes
// @enc rtps_messages::submessages::data_frag::DataFragSubmessage::try_from_bytes
#[kani::proof]
#[kani::unwind(64)]
fn c08_data_frag() {
    data_frag_trip::<60, 4>(false, true, false);
}

// @parked (DATA_FRAG with inline QoS round trip: no answer in 1800 s in the final thorough run; not indexed) props=C08 tier=thorough
// @desc DATA_FRAG with inline QoS (one 4-byte parameter), non-standard-payload flag, 3-byte payload (not a multiple of 4)
// @bounds payload 3 bytes, 1 parameter; message 71 bytes; unwind 76
// @assume parameter id concrete (0x0070)
// @enc rtps_messages::overall_structure::RtpsMessageWrite::new
// @enc rtps_messages::overall_structure::SubmessageHeaderRead::try_read_from_bytes
// #[kani::proof]
// #[kani::unwind(76)]
#[allow(dead_code)]
fn c08_data_frag_inline_qos() {
    data_frag_trip::<71, 3>(true, false, true);
}

// ------------------------------------------------------------------------------------------
// big-endian decode: images written by a harness-side big-endian writer (RTPS 9.4: same layout,
// multi-byte fields most significant byte first, flag E clear) decode to the same values.
// ------------------------------------------------------------------------------------------

fn put(b: &mut [u8], at: usize, v: &[u8]) {
    let mut i = 0;
    while i < v.len() {
        b[at + i] = v[i];
        i += 1;
    }
}
fn be_sn(b: &mut [u8], at: usize, sn: i64) {
    put(b, at, &((sn >> 32) as i32).to_be_bytes());
    put(b, at + 4, &(sn as u32).to_be_bytes());
}

// @check props=C08 tier=quick
// @desc big-endian decode: a HEARTBEAT and an ACKNACK (numBits 33, symbolic bitmap words) written big-endian (flag E clear) by a 15-line harness-side writer decode, through the real parser, to the field values they were written from; the ACKNACK's set equals the value the real element decoder yields for the same content written little-endian
// @bounds all field values symbolic (sequence numbers full i64, counts full i32, bitmap words full i32); flags octet concrete; messages 52 / 56 bytes; unwind 34 (32-byte bitmap comparison)
// @enc rtps_messages::overall_structure::RtpsMessageRead::try_from
// @enc rtps_messages::submessages::heartbeat::HeartbeatSubmessage::try_from_bytes
// @enc rtps_messages::submessages::ack_nack::AckNackSubmessage::try_from_bytes
#[kani::proof]
#[kani::unwind(34)]
fn c08_big_endian_decode() {
    let prefix: [u8; 12] = kani::any();
    let rid: [u8; 4] = kani::any();
    let wid: [u8; 4] = kani::any();
    let (first_sn, last_sn, count): (i64, i64, i32) = (kani::any(), kani::any(), kani::any());
    {
        let mut b = [0u8; 52];
        put(&mut b, 0, b"RTPS");
        b[4] = 2;
        b[5] = 4;
        b[6] = 1;
        b[7] = 20;
        put(&mut b, 8, &prefix);
        b[20] = HEARTBEAT;
        b[21] = 0b010; // E clear, final set
        b[22] = 0;
        b[23] = 28;
        put(&mut b, 24, &rid);
        put(&mut b, 28, &wid);
        be_sn(&mut b, 32, first_sn);
        be_sn(&mut b, 40, last_sn);
        put(&mut b, 48, &count.to_be_bytes());
        match RtpsMessageRead::try_from(&b[..]) {
            Ok(m) => {
                assert!(m.header().guid_prefix() == prefix && m.submessages().len() == 1, "C08: big-endian message header / count");
                match first(&m) {
                    RtpsSubmessageReadKind::Heartbeat(d) => {
                        assert!(d.final_flag() && !d.liveliness_flag(), "C08: big-endian HEARTBEAT flags");
                        assert!(d.first_sn() == first_sn && d.last_sn() == last_sn && d.count() == count, "C08: big-endian HEARTBEAT values");
                        assert!(d.writer_id().entity_key() == [wid[0], wid[1], wid[2]] && d.writer_id().entity_kind() == wid[3], "C08: big-endian HEARTBEAT writer id");
                        kani::cover!(first_sn == -2 && count == 0x0102_0304, "asymmetric values decode from big-endian bytes");
                    }
                    _ => assert!(false, "C08: big-endian HEARTBEAT decoded as another kind"),
                }
                core::mem::forget(m);
            }
            Err(_) => assert!(false, "C08: big-endian HEARTBEAT rejected"),
        }
    }
    {
        let (w0, w1): (i32, i32) = (kani::any(), kani::any());
        kani::assume(first_sn <= i64::MAX - 32); // numBits 33: the last member must fit in i64 (decoder rejects otherwise)
        let mut b = [0u8; 56];
        put(&mut b, 0, b"RTPS");
        b[4] = 2;
        b[5] = 4;
        b[6] = 1;
        b[7] = 20;
        put(&mut b, 8, &prefix);
        b[20] = ACKNACK;
        b[21] = 0b000;
        b[22] = 0;
        b[23] = 32;
        put(&mut b, 24, &rid);
        put(&mut b, 28, &wid);
        be_sn(&mut b, 32, first_sn);
        put(&mut b, 40, &33u32.to_be_bytes());
        put(&mut b, 44, &w0.to_be_bytes());
        put(&mut b, 48, &w1.to_be_bytes());
        put(&mut b, 52, &count.to_be_bytes());
        match RtpsMessageRead::try_from(&b[..]) {
            Ok(m) => {
                assert!(m.submessages().len() == 1, "C08: big-endian message count");
                match first(&m) {
                    RtpsSubmessageReadKind::AckNack(d) => {
                        assert!(!d._final_flag() && d.count() == count && d.reader_sn_state().base() == first_sn, "C08: big-endian ACKNACK values");
                        // the same logical set written little-endian decodes to the same value
                        let mut l = [0u8; 20];
                        put(&mut l, 0, &((first_sn >> 32) as i32).to_le_bytes());
                        put(&mut l, 4, &(first_sn as u32).to_le_bytes());
                        put(&mut l, 8, &33u32.to_le_bytes());
                        put(&mut l, 12, &w0.to_le_bytes());
                        put(&mut l, 16, &w1.to_le_bytes());
                        let mut lv = &l[..];
                        match SequenceNumberSet::try_read_from_bytes(&mut lv, &Endianness::LittleEndian) {
                            Ok(ls) => assert!(*d.reader_sn_state() == ls, "C08: ACKNACK set decoded from big-endian bytes differs from the little-endian decode of the same content"),
                            Err(_) => assert!(false, "C08: little-endian set image rejected"),
                        }
                    }
                    _ => assert!(false, "C08: big-endian ACKNACK decoded as another kind"),
                }
                core::mem::forget(m);
            }
            Err(_) => assert!(false, "C08: big-endian ACKNACK rejected"),
        }
    }
}
