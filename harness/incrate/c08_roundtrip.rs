// C08 — RTPS messages round-trip through their wire encoding.
// Per submessage kind: value with symbolic fields built by the real constructor -> real container
// RtpsMessageWrite::new (Cursor<Vec<u8>>, write_submessage_into_bytes, back-patched length) ->
// real parser RtpsMessageRead::try_from -> equality of the RTPS header and of every field, and
// octetsToNextHeader in the bytes == number of element bytes that follow.
use super::support_msg::*;

use crate::rtps_messages::overall_structure::RtpsSubmessageReadKind;
use crate::rtps_messages::submessages::heartbeat::HeartbeatSubmessage;
use crate::rtps_messages::types::HEARTBEAT;

// @check props=C08 tier=quick
// @desc HEARTBEAT: any flags, ids, first/last sequence number over the full i64 range, count over the full i32 range round-trip; octetsToNextHeader = 28
// @bounds all fields symbolic over their full machine domain; message 52 bytes; unwind 56 (byte-wise Vec::resize in the container)
// @enc rtps_messages::overall_structure::RtpsMessageWrite::new
// @enc rtps_messages::overall_structure::RtpsMessageRead::try_from
// @enc rtps_messages::submessages::heartbeat::HeartbeatSubmessage::try_from_bytes
#[kani::proof]
#[kani::unwind(56)]
fn c08_heartbeat() {
    let header = any_header();
    let s = HeartbeatSubmessage::new(kani::any(), kani::any(), any_entity_id(), any_entity_id(), kani::any(), kani::any(), kani::any());
    let w = encode(&header, &[&s]);
    check_framing(w.buffer(), &header, HEARTBEAT, 28);
    let m = decode_single(w.buffer(), &header);
    match first(&m) {
        RtpsSubmessageReadKind::Heartbeat(d) => {
            assert!(d.final_flag() == s.final_flag() && d.liveliness_flag() == s.liveliness_flag(), "C08: HEARTBEAT flags");
            assert!(d._reader_id() == s._reader_id() && d.writer_id() == s.writer_id(), "C08: HEARTBEAT ids");
            assert!(d.first_sn() == s.first_sn() && d.last_sn() == s.last_sn(), "C08: HEARTBEAT sequence numbers");
            assert!(d.count() == s.count(), "C08: HEARTBEAT count");
            kani::cover!(d.first_sn() < 0 && d.last_sn() == i64::MAX && d.count() == i32::MIN, "negative first_sn, last_sn = i64::MAX, count = i32::MIN round-trip");
        }
        _ => assert!(false, "C08: HEARTBEAT decoded as another kind"),
    }
    core::mem::forget(m);
    core::mem::forget(w);
}
