// C32 — StatusCondition trigger value and WaitSet wake-ups.
//
// Objects under test: the REAL `DcpsStatusCondition` (dds/src/dcps/status_condition.rs) and the REAL
// `notification()` channel (dds/src/dcps/channels/notification.rs) that `WaitSetAsync::wait`
// (dds/src/dds_async/wait_set.rs) hands to it. In the running system every access to a status
// condition is one mail handled by the participant actor (status_condition_methods.rs looks the
// entity up and calls the same four methods), so "every interleaving of status changes,
// set_enabled_statuses calls and wait calls" is exactly "every sequence of these calls":
//
//   worker:  add_communication_state(s) | remove_communication_state(s) | set_enabled_statuses(m)
//   waiter:  G  get_trigger_value()              (wait: "check if conditions are already triggered")
//            R  register_notification(tx.clone()) (wait: register the notification sender)
//            P  poll of the NotificationReceiver  (wait: `notification_receiver.await`)
//
// The waiter steps mirror the check-all / register-all / await order of `WaitSetAsync::wait` for one
// attached condition; the async glue itself (mail to the participant actor, oneshot reply) is
// MIRRORED, not executed (it needs the actor mail loop and an executor). A source-text guard in
// vlib/ptab/channels.py pins the order of the three phases in wait_set.rs.
//
// Shadow model (oracle, written from the DDS text: "trigger_value of a StatusCondition = some
// enabled status has changed since last read"): `changed[k]`, `enabled[k]` for NK status kinds.
use core::future::Future;
use core::pin::Pin;
use core::task::{Context, Poll, Waker};

use crate::dcps::channels::notification::{notification, NotificationReceiver, NotificationSender};
use crate::dcps::status_condition::DcpsStatusCondition;
use crate::dcps::status_mask::StatusMask;
use crate::infrastructure::status::StatusKind;

const NK: usize = 3;

/// Three status kinds spread over the 13 mask bits (bit 0, bit 8, bit 12).
fn kind(k: usize) -> StatusKind {
    match k {
        0 => StatusKind::InconsistentTopic,
        1 => StatusKind::DataAvailable,
        _ => StatusKind::SubscriptionMatched,
    }
}

/// Builds a `StatusMask` through its only constructor (`FromIterator<&StatusKind>`) with ONE
/// 3-iteration loop: the slots of disabled kinds are filled with a duplicate of the first enabled
/// kind (the mask is the OR of the bits, duplicates are harmless). An iterator-adapter version
/// (`iter().flatten().collect()`) cost 100 MB of formula under the unwind bound needed by `default()`.
fn mask(bits: [bool; NK]) -> StatusMask {
    let first = if bits[0] {
        0
    } else if bits[1] {
        1
    } else if bits[2] {
        2
    } else {
        return StatusMask::default();
    };
    let arr: [StatusKind; NK] = [
        if bits[0] { kind(0) } else { kind(first) },
        if bits[1] { kind(1) } else { kind(first) },
        if bits[2] { kind(2) } else { kind(first) },
    ];
    arr.iter().collect()
}

struct World {
    sc: DcpsStatusCondition,
    // shadow model
    changed: [bool; NK],
    enabled: [bool; NK],
    // the waiter (one WaitSetAsync::wait call): 0 = not started, 1 = G returned false and the
    // notification channel exists, 2 = R done, 3 = wait returned
    pc: u8,
    tx: Option<NotificationSender>,
    rx: Option<NotificationReceiver>,
    /// the waiter polled Pending and is parked (C34 proves: NotificationSender::notify wakes the
    /// waker of the most recent Pending poll, so "notify was called" == "the parked task is woken";
    /// here polls use `Waker::noop()` and the obligation is: the next poll is Ready)
    parked: bool,
    /// the waiter's sender sits in `registered_notifications` (R found the trigger false and no
    /// triggering add_communication_state happened since)
    registered_pending: bool,
    // witnesses
    w_woken_by_add: bool,
    w_woken_by_set: bool,
    w_ready_after_park: bool,
    w_immediate: bool,
    w_notified_at_register: bool,
    w_ready_unparked: bool,
}

impl World {
    /// A fresh condition after one completed earlier wait: a dummy waiter registered, kind(0)
    /// changed (the dummy is notified and drained) and was read again. Logically this is the
    /// initial state (nothing changed, all statuses enabled, nobody registered); physically both
    /// Vecs of the condition have performed their first allocation (capacity 8 / 4), so the
    /// amortized-growth path can be asserted unreachable from here on (`arm_growth_check`).
    fn new() -> Self {
        let mut sc = DcpsStatusCondition::default();
        let (tx0, rx0) = notification();
        sc.register_notification(tx0);
        sc.add_communication_state(kind(0));
        sc.remove_communication_state(kind(0));
        core::mem::forget(rx0);
        super::support_cs::arm_growth_check();
        World {
            sc,
            changed: [false; NK],
            enabled: [true; NK], // Default enables all 13 statuses
            pc: 0,
            tx: None,
            rx: None,
            parked: false,
            registered_pending: false,
            w_woken_by_add: false,
            w_woken_by_set: false,
            w_ready_after_park: false,
            w_immediate: false,
            w_notified_at_register: false,
            w_ready_unparked: false,
        }
    }

    /// Oracle: trigger value = some enabled status has changed.
    fn trig(&self) -> bool {
        (self.changed[0] && self.enabled[0]) || (self.changed[1] && self.enabled[1]) || (self.changed[2] && self.enabled[2])
    }

    fn op_add(&mut self, s: usize) {
        self.sc.add_communication_state(kind(s));
        self.changed[s] = true;
        if self.trig() {
            if self.registered_pending && self.parked {
                self.w_woken_by_add = true;
            }
            self.registered_pending = false; // drained and notified
        }
    }

    fn op_remove(&mut self, s: usize) {
        self.sc.remove_communication_state(kind(s));
        self.changed[s] = false;
    }

    /// set_enabled_statuses; like add_communication_state it drains and notifies the registered
    /// waiters when the trigger value is true afterwards (the defect KF-C32-1 found here — no
    /// notification — was repaired by 02ad31f). Returns true iff this call turned the trigger value
    /// false -> true while the waiter's sender was registered and not yet notified.
    fn op_set_enabled(&mut self, m: [bool; NK]) -> bool {
        let before = self.trig();
        self.sc.set_enabled_statuses(mask(m));
        self.enabled = m;
        let hit = self.registered_pending && !before && self.trig();
        if self.trig() {
            if self.registered_pending && self.parked {
                self.w_woken_by_set = true;
            }
            self.registered_pending = false; // drained and notified
        }
        hit
    }

    /// The next step of the waiter (G, then R, then P, P, …).
    fn op_waiter(&mut self) {
        match self.pc {
            0 => {
                // wait(): "Check if conditions are already triggered"
                let t = self.sc.get_trigger_value();
                assert!(t == self.trig(), "C32: trigger value is true exactly when an enabled status has changed");
                if t {
                    self.pc = 3; // wait returns the triggered condition immediately
                    self.w_immediate = true;
                } else {
                    let (tx, rx) = notification();
                    self.tx = Some(tx);
                    self.rx = Some(rx);
                    self.pc = 1;
                }
            }
            1 => {
                // wait(): register_notification(notification_sender.clone()); the original sender
                // stays alive in wait's frame until wait returns
                if let Some(tx) = &self.tx {
                    let before = self.trig();
                    self.sc.register_notification(tx.clone());
                    self.registered_pending = !before;
                    self.w_notified_at_register |= before;
                }
                self.pc = 2;
            }
            2 => {
                // wait(): notification_receiver.await
                if let Some(rx) = self.rx.as_mut() {
                    let mut cx = Context::from_waker(Waker::noop());
                    match Pin::new(rx).poll(&mut cx) {
                        Poll::Ready(Ok(())) => {
                            self.w_ready_after_park |= self.parked;
                            self.w_ready_unparked |= !self.parked;
                            self.pc = 3; // wait collects the triggered conditions and returns
                            self.parked = false;
                        }
                        Poll::Ready(Err(e)) => {
                            core::mem::forget(e);
                            assert!(false, "C32: the waiter's own notification sender is alive, no disconnection");
                        }
                        Poll::Pending => {
                            assert!(
                                !self.trig(),
                                "C32: no lost wake-up: a registered waiter is not left Pending while the trigger value is true"
                            );
                            self.parked = true;
                        }
                    }
                }
            }
            _ => {}
        }
    }

    /// Oracle (1) on the real object.
    fn check(&mut self) {
        assert!(
            self.sc.get_trigger_value() == self.trig(),
            "C32: trigger value is true exactly when an enabled status has changed"
        );
    }

    /// One symbolic worker slot (add | remove | set_enabled | nothing).
    fn worker_slot(&mut self) {
        let op: u8 = kani::any();
        kani::assume(op < 4);
        let s: usize = kani::any();
        kani::assume(s < NK);
        match op {
            0 => self.op_add(s),
            1 => self.op_remove(s),
            2 => {
                let m: [bool; NK] = kani::any();
                let _ = self.op_set_enabled(m);
            }
            _ => {}
        }
    }
}

/// One complete wait call G, R, P, P interleaved with symbolic worker operations: G0 before the
/// check, G1 between check and register, G2 between register and the first poll, G3 between the
/// first and the second poll (each slot: add(s) | remove(s) | set_enabled_statuses(m) | nothing).
fn wait_interleaved<const G0: usize, const G1: usize, const G2: usize, const G3: usize>() {
    let mut w = World::new();
    // arbitrary enabled mask (linear step, no branching): a later add(s) may or may not trigger
    let m0: [bool; NK] = kani::any();
    let _ = w.op_set_enabled(m0);
    for _ in 0..G0 {
        w.worker_slot();
    }
    w.op_waiter(); // G (asserts oracle (1) on the value it reads)
    for _ in 0..G1 {
        w.worker_slot();
    }
    w.op_waiter(); // R (no-op if G returned true)
    for _ in 0..G2 {
        w.worker_slot();
    }
    w.op_waiter(); // P
    for _ in 0..G3 {
        w.worker_slot();
    }
    w.op_waiter(); // P again
    w.check();
    kani::cover!(G0 == 0 || w.w_immediate, "G0 >= 1: wait returned immediately, trigger value already true at the check");
    kani::cover!(G1 == 0 || w.w_notified_at_register, "G1 >= 1: status changed between check and register, notified at registration");
    kani::cover!(G1 + G2 == 0 || w.w_ready_unparked, "G1 + G2 >= 1: first poll Ready (notified before the waiter parked)");
    kani::cover!(G3 == 0 || (w.w_woken_by_add && w.w_ready_after_park), "G3 >= 1: parked waiter notified by add_communication_state, next poll Ready");
    kani::cover!(G0 == 0 || G3 == 0 || w.w_woken_by_set, "G0, G3 >= 1: parked waiter notified by set_enabled_statuses enabling an already changed status");
    kani::cover!(w.pc == 2 && w.parked, "waiter still parked at the end (trigger value false)");
    core::mem::forget(w);
}

/// The scenario that exposed KF-C32-1 (repaired by 02ad31f): a status `s` changes while it is
/// disabled (symbolic mask m0 without s, symbolic s), the waiter checks (false), registers and
/// optionally parks; then set_enabled_statuses(m1) with s enabled makes the trigger value true: the
/// waiter must be notified (next poll Ready).
/// PARK: 0 = the waiter does not poll before the enabling, 1 = it polls (Pending) and is parked,
/// 2 = symbolic choice.
fn enable_after_register<const PARK: u8>() {
    let mut w = World::new();
    let m0: [bool; NK] = kani::any();
    let s: usize = kani::any();
    kani::assume(s < NK);
    let _ = w.op_set_enabled(m0);
    w.op_add(s);
    w.check();
    kani::assume(!w.trig()); // s is disabled in m0 (and nothing else has changed)
    w.op_waiter(); // G -> false
    w.op_waiter(); // R
    assert!(w.pc == 2 && w.registered_pending);
    let park: bool = if PARK == 2 { kani::any() } else { PARK == 1 };
    if park {
        w.op_waiter(); // P -> Pending
        assert!(w.parked);
    }
    let m1: [bool; NK] = kani::any();
    let hit = w.op_set_enabled(m1);
    kani::assume(hit);
    kani::cover!(park || PARK == 0, "status enabled after it changed, waiter parked");
    kani::cover!(!park || PARK == 1, "status enabled after it changed, waiter registered but not yet parked");
    w.check();
    w.op_waiter(); // P: must be Ready (parked or not)
    assert!(w.pc == 3, "C32: no lost wake-up: a registered waiter is not left Pending while the trigger value is true");
    core::mem::forget(w);
}

/// Oracle (1) alone, deeper: only worker operations (no waiter, no channel).
fn trigger_value_schedule<const K: usize>() {
    let mut w = World::new();
    let mut toggled = false;
    for _ in 0..K {
        let op: u8 = kani::any();
        kani::assume(op < 3);
        let before = w.trig();
        match op {
            0 => {
                let s: usize = kani::any();
                kani::assume(s < NK);
                w.op_add(s);
            }
            1 => {
                let s: usize = kani::any();
                kani::assume(s < NK);
                w.op_remove(s);
            }
            _ => {
                let m: [bool; NK] = kani::any();
                let _ = w.op_set_enabled(m);
                toggled |= before != w.trig();
            }
        }
        w.check();
    }
    kani::cover!(toggled, "set_enabled_statuses changed the trigger value");
    kani::cover!(w.trig() && !(w.changed[0] && w.changed[1] && w.changed[2]), "trigger value true");
    core::mem::forget(w);
}

// =====================================================================================
// quick tier
// =====================================================================================

// @check props=C32 tier=quick
// @desc trigger value: for every schedule of 3 operations from {add_communication_state(s), remove_communication_state(s), set_enabled_statuses(m)} (s one of 3 kinds, m any subset of them) from the default condition: after every step get_trigger_value() is true exactly when an enabled status has changed since it was last removed (also when the change happened while the status was disabled and it is enabled later)
// @bounds k = 3 operations, 3 status kinds (mask bits 0, 8, 12), all 8 masks; unwind 14 = 13 iterations of the mask loop in DcpsStatusCondition::default() + 1
// @assume critical_section::acquire/release stubbed by no-ops (support_cs.rs): a critical section is a block no other operation interleaves with
// @assume AtomicUsize::fetch_sub stubbed (support_cs.rs fetch_sub_never_last): the shared state behind an Arc is never destroyed or freed; Drop impls of NotificationSender run for real
// @assume alloc::raw_vec::min_non_zero_cap stubbed by a faithful copy that, after the concrete warm-up (one earlier completed wait: both Vecs of the condition have capacity), asserts amortized Vec growth unreachable (CHECKED obligation, support_cs.rs min_non_zero_cap_checked)
// @enc dcps::status_condition::DcpsStatusCondition::add_communication_state
// @enc dcps::status_condition::DcpsStatusCondition::remove_communication_state
// @enc dcps::status_condition::DcpsStatusCondition::set_enabled_statuses
// @enc dcps::status_condition::DcpsStatusCondition::get_trigger_value
#[kani::proof]
#[kani::unwind(14)]
#[kani::stub(critical_section::acquire, super::support_cs::cs_acquire)]
#[kani::stub(critical_section::release, super::support_cs::cs_release)]
#[kani::stub(core::sync::atomic::Atomic::<usize>::fetch_sub, super::support_cs::fetch_sub_never_last)]
#[kani::stub(alloc::raw_vec::min_non_zero_cap, super::support_cs::min_non_zero_cap_checked)]
fn c32_trigger_value_schedule_k3() {
    trigger_value_schedule::<3>();
}

// @check props=C32 tier=quick
// @desc wake-ups: one complete wait call G (get_trigger_value), R (register_notification), P, P (polls of the NotificationReceiver) on a condition with an arbitrary enabled mask, interleaved with symbolic worker operations from {add_communication_state(s), remove_communication_state(s), set_enabled_statuses(m), nothing} in the slots: 1 between check (G) and register (R). Asserted: the value read at G and the final trigger value equal "an enabled status has changed"; wait returns immediately if it was true at G; a poll is never Pending while the trigger value is true (no lost wake-up, including a status change or the enabling of an already changed status between G and R and after the waiter parked)
// @bounds 1 condition, 1 waiter, 3 status kinds (mask bits 0, 8, 12), symbolic initial mask, 1 symbolic worker slot(s) + 4 waiter steps; unwind 14 = 13 iterations of the mask loop in DcpsStatusCondition::default() + 1 (all other loops: <= 3 list elements)
// @assume critical_section::acquire/release stubbed by no-ops (support_cs.rs): a critical section is a block no other operation interleaves with
// @assume AtomicUsize::fetch_sub stubbed (support_cs.rs fetch_sub_never_last): the shared state behind an Arc is never destroyed or freed; Drop impls of NotificationSender run for real
// @assume alloc::raw_vec::min_non_zero_cap stubbed by a faithful copy that, after the concrete warm-up (one earlier completed wait: both Vecs of the condition have capacity), asserts amortized Vec growth unreachable (CHECKED obligation, support_cs.rs min_non_zero_cap_checked)
// @assume every access to the status condition is one atomic step (in the running system: one mail handled by the participant actor, status_condition_methods.rs); the async glue of WaitSetAsync::wait (mail + oneshot reply, check-all / register-all / await order) is mirrored by the waiter steps G, R, P, not executed; pinned by the source guard in vlib/ptab/channels.py
// @assume polls use Waker::noop(): "the parked waiter is woken" is established as "NotificationSender::notify was called (next poll Ready)" + C34 (notify wakes the waker of the most recent Pending poll)
// @enc dcps::status_condition::DcpsStatusCondition::add_communication_state
// @enc dcps::status_condition::DcpsStatusCondition::remove_communication_state
// @enc dcps::status_condition::DcpsStatusCondition::set_enabled_statuses
// @enc dcps::status_condition::DcpsStatusCondition::get_trigger_value
// @enc dcps::status_condition::DcpsStatusCondition::register_notification
// @enc dcps::channels::notification::NotificationSender::notify
// @enc <dcps::channels::notification::NotificationReceiver as Future>::poll
#[kani::proof]
#[kani::unwind(14)]
#[kani::stub(critical_section::acquire, super::support_cs::cs_acquire)]
#[kani::stub(critical_section::release, super::support_cs::cs_release)]
#[kani::stub(core::sync::atomic::Atomic::<usize>::fetch_sub, super::support_cs::fetch_sub_never_last)]
#[kani::stub(alloc::raw_vec::min_non_zero_cap, super::support_cs::min_non_zero_cap_checked)]
fn c32_wait_interleaved_0100() {
    wait_interleaved::<0, 1, 0, 0>();
}

// @check props=C32 tier=quick
// @desc wake-ups: one complete wait call G (get_trigger_value), R (register_notification), P, P (polls of the NotificationReceiver) on a condition with an arbitrary enabled mask, interleaved with symbolic worker operations from {add_communication_state(s), remove_communication_state(s), set_enabled_statuses(m), nothing} in the slots: 1 between register (R) and the first poll. Asserted: the value read at G and the final trigger value equal "an enabled status has changed"; wait returns immediately if it was true at G; a poll is never Pending while the trigger value is true (no lost wake-up, including a status change or the enabling of an already changed status between G and R and after the waiter parked)
// @bounds 1 condition, 1 waiter, 3 status kinds (mask bits 0, 8, 12), symbolic initial mask, 1 symbolic worker slot(s) + 4 waiter steps; unwind 14 = 13 iterations of the mask loop in DcpsStatusCondition::default() + 1 (all other loops: <= 3 list elements)
// @assume critical_section::acquire/release stubbed by no-ops (support_cs.rs): a critical section is a block no other operation interleaves with
// @assume AtomicUsize::fetch_sub stubbed (support_cs.rs fetch_sub_never_last): the shared state behind an Arc is never destroyed or freed; Drop impls of NotificationSender run for real
// @assume alloc::raw_vec::min_non_zero_cap stubbed by a faithful copy that, after the concrete warm-up (one earlier completed wait: both Vecs of the condition have capacity), asserts amortized Vec growth unreachable (CHECKED obligation, support_cs.rs min_non_zero_cap_checked)
// @assume every access to the status condition is one atomic step (in the running system: one mail handled by the participant actor, status_condition_methods.rs); the async glue of WaitSetAsync::wait (mail + oneshot reply, check-all / register-all / await order) is mirrored by the waiter steps G, R, P, not executed; pinned by the source guard in vlib/ptab/channels.py
// @assume polls use Waker::noop(): "the parked waiter is woken" is established as "NotificationSender::notify was called (next poll Ready)" + C34 (notify wakes the waker of the most recent Pending poll)
// @enc dcps::status_condition::DcpsStatusCondition::add_communication_state
// @enc dcps::status_condition::DcpsStatusCondition::remove_communication_state
// @enc dcps::status_condition::DcpsStatusCondition::set_enabled_statuses
// @enc dcps::status_condition::DcpsStatusCondition::get_trigger_value
// @enc dcps::status_condition::DcpsStatusCondition::register_notification
// @enc dcps::channels::notification::NotificationSender::notify
// @enc <dcps::channels::notification::NotificationReceiver as Future>::poll
#[kani::proof]
#[kani::unwind(14)]
#[kani::stub(critical_section::acquire, super::support_cs::cs_acquire)]
#[kani::stub(critical_section::release, super::support_cs::cs_release)]
#[kani::stub(core::sync::atomic::Atomic::<usize>::fetch_sub, super::support_cs::fetch_sub_never_last)]
#[kani::stub(alloc::raw_vec::min_non_zero_cap, super::support_cs::min_non_zero_cap_checked)]
fn c32_wait_interleaved_0010() {
    wait_interleaved::<0, 0, 1, 0>();
}

// @check props=C32 tier=quick
// @desc wake-ups: one complete wait call G (get_trigger_value), R (register_notification), P, P (polls of the NotificationReceiver) on a condition with an arbitrary enabled mask, interleaved with symbolic worker operations from {add_communication_state(s), remove_communication_state(s), set_enabled_statuses(m), nothing} in the slots: 1 between the first and the second poll. Asserted: the value read at G and the final trigger value equal "an enabled status has changed"; wait returns immediately if it was true at G; a poll is never Pending while the trigger value is true (no lost wake-up, including a status change or the enabling of an already changed status between G and R and after the waiter parked)
// @bounds 1 condition, 1 waiter, 3 status kinds (mask bits 0, 8, 12), symbolic initial mask, 1 symbolic worker slot(s) + 4 waiter steps; unwind 14 = 13 iterations of the mask loop in DcpsStatusCondition::default() + 1 (all other loops: <= 3 list elements)
// @assume critical_section::acquire/release stubbed by no-ops (support_cs.rs): a critical section is a block no other operation interleaves with
// @assume AtomicUsize::fetch_sub stubbed (support_cs.rs fetch_sub_never_last): the shared state behind an Arc is never destroyed or freed; Drop impls of NotificationSender run for real
// @assume alloc::raw_vec::min_non_zero_cap stubbed by a faithful copy that, after the concrete warm-up (one earlier completed wait: both Vecs of the condition have capacity), asserts amortized Vec growth unreachable (CHECKED obligation, support_cs.rs min_non_zero_cap_checked)
// @assume every access to the status condition is one atomic step (in the running system: one mail handled by the participant actor, status_condition_methods.rs); the async glue of WaitSetAsync::wait (mail + oneshot reply, check-all / register-all / await order) is mirrored by the waiter steps G, R, P, not executed; pinned by the source guard in vlib/ptab/channels.py
// @assume polls use Waker::noop(): "the parked waiter is woken" is established as "NotificationSender::notify was called (next poll Ready)" + C34 (notify wakes the waker of the most recent Pending poll)
// @enc dcps::status_condition::DcpsStatusCondition::add_communication_state
// @enc dcps::status_condition::DcpsStatusCondition::remove_communication_state
// @enc dcps::status_condition::DcpsStatusCondition::set_enabled_statuses
// @enc dcps::status_condition::DcpsStatusCondition::get_trigger_value
// @enc dcps::status_condition::DcpsStatusCondition::register_notification
// @enc dcps::channels::notification::NotificationSender::notify
// @enc <dcps::channels::notification::NotificationReceiver as Future>::poll
#[kani::proof]
#[kani::unwind(14)]
#[kani::stub(critical_section::acquire, super::support_cs::cs_acquire)]
#[kani::stub(critical_section::release, super::support_cs::cs_release)]
#[kani::stub(core::sync::atomic::Atomic::<usize>::fetch_sub, super::support_cs::fetch_sub_never_last)]
#[kani::stub(alloc::raw_vec::min_non_zero_cap, super::support_cs::min_non_zero_cap_checked)]
fn c32_wait_interleaved_0001() {
    wait_interleaved::<0, 0, 0, 1>();
}

// @check props=C32 tier=quick
// @desc wake-up through enabling (the scenario that exposed KF-C32-1, repaired by 02ad31f): set_enabled_statuses(m0), add_communication_state(s) with s disabled in m0, waiter G (false), R, P (Pending: parked), then set_enabled_statuses(m1) that enables s: the waiter is notified (next poll Ready)
// @bounds one operation sequence, symbolic m0, s, m1; the waiter is parked; 3 status kinds; unwind 14
// @assume critical_section::acquire/release stubbed by no-ops (support_cs.rs): a critical section is a block no other operation interleaves with
// @assume AtomicUsize::fetch_sub stubbed (support_cs.rs fetch_sub_never_last): the shared state behind an Arc is never destroyed or freed; Drop impls of NotificationSender run for real
// @assume alloc::raw_vec::min_non_zero_cap stubbed by a faithful copy that, after the concrete warm-up (one earlier completed wait: both Vecs of the condition have capacity), asserts amortized Vec growth unreachable (CHECKED obligation, support_cs.rs min_non_zero_cap_checked)
// @assume every access to the status condition is one atomic step (in the running system: one mail handled by the participant actor, status_condition_methods.rs); the async glue of WaitSetAsync::wait (mail + oneshot reply, check-all / register-all / await order) is mirrored by the waiter steps G, R, P, not executed; pinned by the source guard in vlib/ptab/channels.py
// @assume polls use Waker::noop(): "the parked waiter is woken" is established as "NotificationSender::notify was called (next poll Ready)" + C34 (notify wakes the waker of the most recent Pending poll)
// @assume scenario: s is disabled in m0 and enabled in m1 (kani::assume on the shadow model)
// @enc dcps::status_condition::DcpsStatusCondition::add_communication_state
// @enc dcps::status_condition::DcpsStatusCondition::remove_communication_state
// @enc dcps::status_condition::DcpsStatusCondition::set_enabled_statuses
// @enc dcps::status_condition::DcpsStatusCondition::get_trigger_value
// @enc dcps::status_condition::DcpsStatusCondition::register_notification
// @enc dcps::channels::notification::NotificationSender::notify
// @enc <dcps::channels::notification::NotificationReceiver as Future>::poll
#[kani::proof]
#[kani::unwind(14)]
#[kani::stub(critical_section::acquire, super::support_cs::cs_acquire)]
#[kani::stub(critical_section::release, super::support_cs::cs_release)]
#[kani::stub(core::sync::atomic::Atomic::<usize>::fetch_sub, super::support_cs::fetch_sub_never_last)]
#[kani::stub(alloc::raw_vec::min_non_zero_cap, super::support_cs::min_non_zero_cap_checked)]
fn c32_enable_after_register_parked() {
    enable_after_register::<1>();
}

// =====================================================================================
// thorough tier: worker slot before the check, two worker slots before the registration, longer
// trigger-value schedules. Two worker slots with one of them AFTER the registration (placements 1001,
// 0101, 0011) exceeded 11 GB / 1500 s on the repaired tree (set_enabled_statuses now also has the
// drain-and-notify loop, unrolled 13 times per call once the list length is symbolic).
// =====================================================================================

// @check props=C32 tier=thorough timeout=1500
// @desc wake-up through enabling (the scenario that exposed KF-C32-1, repaired by 02ad31f): set_enabled_statuses(m0), add_communication_state(s) with s disabled in m0, waiter G (false), R, optionally P (Pending), then set_enabled_statuses(m1) that enables s: the waiter is notified (next poll Ready)
// @bounds one operation sequence, symbolic m0, s, m1, symbolic "waiter parked" flag; 3 status kinds; unwind 14
// @assume critical_section::acquire/release stubbed by no-ops (support_cs.rs): a critical section is a block no other operation interleaves with
// @assume AtomicUsize::fetch_sub stubbed (support_cs.rs fetch_sub_never_last): the shared state behind an Arc is never destroyed or freed; Drop impls of NotificationSender run for real
// @assume alloc::raw_vec::min_non_zero_cap stubbed by a faithful copy that, after the concrete warm-up (one earlier completed wait: both Vecs of the condition have capacity), asserts amortized Vec growth unreachable (CHECKED obligation, support_cs.rs min_non_zero_cap_checked)
// @assume every access to the status condition is one atomic step (in the running system: one mail handled by the participant actor, status_condition_methods.rs); the async glue of WaitSetAsync::wait (mail + oneshot reply, check-all / register-all / await order) is mirrored by the waiter steps G, R, P, not executed; pinned by the source guard in vlib/ptab/channels.py
// @assume polls use Waker::noop(): "the parked waiter is woken" is established as "NotificationSender::notify was called (next poll Ready)" + C34 (notify wakes the waker of the most recent Pending poll)
// @assume scenario: s is disabled in m0 and enabled in m1 (kani::assume on the shadow model)
// @enc dcps::status_condition::DcpsStatusCondition::add_communication_state
// @enc dcps::status_condition::DcpsStatusCondition::remove_communication_state
// @enc dcps::status_condition::DcpsStatusCondition::set_enabled_statuses
// @enc dcps::status_condition::DcpsStatusCondition::get_trigger_value
// @enc dcps::status_condition::DcpsStatusCondition::register_notification
// @enc dcps::channels::notification::NotificationSender::notify
// @enc <dcps::channels::notification::NotificationReceiver as Future>::poll
#[kani::proof]
#[kani::unwind(14)]
#[kani::stub(critical_section::acquire, super::support_cs::cs_acquire)]
#[kani::stub(critical_section::release, super::support_cs::cs_release)]
#[kani::stub(core::sync::atomic::Atomic::<usize>::fetch_sub, super::support_cs::fetch_sub_never_last)]
#[kani::stub(alloc::raw_vec::min_non_zero_cap, super::support_cs::min_non_zero_cap_checked)]
fn c32_enable_after_register() {
    enable_after_register::<2>();
}

// @check props=C32 tier=thorough timeout=1500
// @desc wake-ups: one complete wait call G (get_trigger_value), R (register_notification), P, P (polls of the NotificationReceiver) on a condition with an arbitrary enabled mask, interleaved with symbolic worker operations from {add_communication_state(s), remove_communication_state(s), set_enabled_statuses(m), nothing} in the slots: 1 before the check (G). Asserted: the value read at G and the final trigger value equal "an enabled status has changed"; wait returns immediately if it was true at G; a poll is never Pending while the trigger value is true (no lost wake-up, including a status change or the enabling of an already changed status between G and R and after the waiter parked)
// @bounds 1 condition, 1 waiter, 3 status kinds (mask bits 0, 8, 12), symbolic initial mask, 1 symbolic worker slot(s) + 4 waiter steps; unwind 14 = 13 iterations of the mask loop in DcpsStatusCondition::default() + 1 (all other loops: <= 3 list elements)
// @assume critical_section::acquire/release stubbed by no-ops (support_cs.rs): a critical section is a block no other operation interleaves with
// @assume AtomicUsize::fetch_sub stubbed (support_cs.rs fetch_sub_never_last): the shared state behind an Arc is never destroyed or freed; Drop impls of NotificationSender run for real
// @assume alloc::raw_vec::min_non_zero_cap stubbed by a faithful copy that, after the concrete warm-up (one earlier completed wait: both Vecs of the condition have capacity), asserts amortized Vec growth unreachable (CHECKED obligation, support_cs.rs min_non_zero_cap_checked)
// @assume every access to the status condition is one atomic step (in the running system: one mail handled by the participant actor, status_condition_methods.rs); the async glue of WaitSetAsync::wait (mail + oneshot reply, check-all / register-all / await order) is mirrored by the waiter steps G, R, P, not executed; pinned by the source guard in vlib/ptab/channels.py
// @assume polls use Waker::noop(): "the parked waiter is woken" is established as "NotificationSender::notify was called (next poll Ready)" + C34 (notify wakes the waker of the most recent Pending poll)
// @enc dcps::status_condition::DcpsStatusCondition::add_communication_state
// @enc dcps::status_condition::DcpsStatusCondition::remove_communication_state
// @enc dcps::status_condition::DcpsStatusCondition::set_enabled_statuses
// @enc dcps::status_condition::DcpsStatusCondition::get_trigger_value
// @enc dcps::status_condition::DcpsStatusCondition::register_notification
// @enc dcps::channels::notification::NotificationSender::notify
// @enc <dcps::channels::notification::NotificationReceiver as Future>::poll
#[kani::proof]
#[kani::unwind(14)]
#[kani::stub(critical_section::acquire, super::support_cs::cs_acquire)]
#[kani::stub(critical_section::release, super::support_cs::cs_release)]
#[kani::stub(core::sync::atomic::Atomic::<usize>::fetch_sub, super::support_cs::fetch_sub_never_last)]
#[kani::stub(alloc::raw_vec::min_non_zero_cap, super::support_cs::min_non_zero_cap_checked)]
fn c32_wait_interleaved_1000() {
    wait_interleaved::<1, 0, 0, 0>();
}

// @check props=C32 tier=thorough timeout=1500
// @desc wake-ups: one complete wait call G (get_trigger_value), R (register_notification), P, P (polls of the NotificationReceiver) on a condition with an arbitrary enabled mask, interleaved with symbolic worker operations from {add_communication_state(s), remove_communication_state(s), set_enabled_statuses(m), nothing} in the slots: 1 before the check (G); 1 between check (G) and register (R). Asserted: the value read at G and the final trigger value equal "an enabled status has changed"; wait returns immediately if it was true at G; a poll is never Pending while the trigger value is true (no lost wake-up, including a status change or the enabling of an already changed status between G and R and after the waiter parked)
// @bounds 1 condition, 1 waiter, 3 status kinds (mask bits 0, 8, 12), symbolic initial mask, 2 symbolic worker slot(s) + 4 waiter steps; unwind 14 = 13 iterations of the mask loop in DcpsStatusCondition::default() + 1 (all other loops: <= 3 list elements)
// @assume critical_section::acquire/release stubbed by no-ops (support_cs.rs): a critical section is a block no other operation interleaves with
// @assume AtomicUsize::fetch_sub stubbed (support_cs.rs fetch_sub_never_last): the shared state behind an Arc is never destroyed or freed; Drop impls of NotificationSender run for real
// @assume alloc::raw_vec::min_non_zero_cap stubbed by a faithful copy that, after the concrete warm-up (one earlier completed wait: both Vecs of the condition have capacity), asserts amortized Vec growth unreachable (CHECKED obligation, support_cs.rs min_non_zero_cap_checked)
// @assume every access to the status condition is one atomic step (in the running system: one mail handled by the participant actor, status_condition_methods.rs); the async glue of WaitSetAsync::wait (mail + oneshot reply, check-all / register-all / await order) is mirrored by the waiter steps G, R, P, not executed; pinned by the source guard in vlib/ptab/channels.py
// @assume polls use Waker::noop(): "the parked waiter is woken" is established as "NotificationSender::notify was called (next poll Ready)" + C34 (notify wakes the waker of the most recent Pending poll)
// @enc dcps::status_condition::DcpsStatusCondition::add_communication_state
// @enc dcps::status_condition::DcpsStatusCondition::remove_communication_state
// @enc dcps::status_condition::DcpsStatusCondition::set_enabled_statuses
// @enc dcps::status_condition::DcpsStatusCondition::get_trigger_value
// @enc dcps::status_condition::DcpsStatusCondition::register_notification
// @enc dcps::channels::notification::NotificationSender::notify
// @enc <dcps::channels::notification::NotificationReceiver as Future>::poll
#[kani::proof]
#[kani::unwind(14)]
#[kani::stub(critical_section::acquire, super::support_cs::cs_acquire)]
#[kani::stub(critical_section::release, super::support_cs::cs_release)]
#[kani::stub(core::sync::atomic::Atomic::<usize>::fetch_sub, super::support_cs::fetch_sub_never_last)]
#[kani::stub(alloc::raw_vec::min_non_zero_cap, super::support_cs::min_non_zero_cap_checked)]
fn c32_wait_interleaved_1100() {
    wait_interleaved::<1, 1, 0, 0>();
}

// @check props=C32 tier=thorough timeout=1500
// @desc trigger value: for every schedule of 4 operations from {add_communication_state(s), remove_communication_state(s), set_enabled_statuses(m)} (s one of 3 kinds, m any subset of them) from the default condition: after every step get_trigger_value() is true exactly when an enabled status has changed since it was last removed (also when the change happened while the status was disabled and it is enabled later)
// @bounds k = 4 operations, 3 status kinds (mask bits 0, 8, 12), all 8 masks; unwind 14 = 13 iterations of the mask loop in DcpsStatusCondition::default() + 1
// @assume critical_section::acquire/release stubbed by no-ops (support_cs.rs): a critical section is a block no other operation interleaves with
// @assume AtomicUsize::fetch_sub stubbed (support_cs.rs fetch_sub_never_last): the shared state behind an Arc is never destroyed or freed; Drop impls of NotificationSender run for real
// @assume alloc::raw_vec::min_non_zero_cap stubbed by a faithful copy that, after the concrete warm-up (one earlier completed wait: both Vecs of the condition have capacity), asserts amortized Vec growth unreachable (CHECKED obligation, support_cs.rs min_non_zero_cap_checked)
// @enc dcps::status_condition::DcpsStatusCondition::add_communication_state
// @enc dcps::status_condition::DcpsStatusCondition::remove_communication_state
// @enc dcps::status_condition::DcpsStatusCondition::set_enabled_statuses
// @enc dcps::status_condition::DcpsStatusCondition::get_trigger_value
#[kani::proof]
#[kani::unwind(14)]
#[kani::stub(critical_section::acquire, super::support_cs::cs_acquire)]
#[kani::stub(critical_section::release, super::support_cs::cs_release)]
#[kani::stub(core::sync::atomic::Atomic::<usize>::fetch_sub, super::support_cs::fetch_sub_never_last)]
#[kani::stub(alloc::raw_vec::min_non_zero_cap, super::support_cs::min_non_zero_cap_checked)]
fn c32_trigger_value_schedule_k4() {
    trigger_value_schedule::<4>();
}

// @check props=C32 tier=thorough timeout=1500
// @desc trigger value: as c32_trigger_value_schedule_k4 with 5 operations
// @bounds k = 5 operations, 3 status kinds, all 8 masks; unwind 14
// @assume critical_section::acquire/release stubbed by no-ops (support_cs.rs): a critical section is a block no other operation interleaves with
// @assume AtomicUsize::fetch_sub stubbed (support_cs.rs fetch_sub_never_last): the shared state behind an Arc is never destroyed or freed; Drop impls of NotificationSender run for real
// @assume alloc::raw_vec::min_non_zero_cap stubbed by a faithful copy that, after the concrete warm-up (one earlier completed wait: both Vecs of the condition have capacity), asserts amortized Vec growth unreachable (CHECKED obligation, support_cs.rs min_non_zero_cap_checked)
// @enc dcps::status_condition::DcpsStatusCondition::add_communication_state
// @enc dcps::status_condition::DcpsStatusCondition::remove_communication_state
// @enc dcps::status_condition::DcpsStatusCondition::set_enabled_statuses
// @enc dcps::status_condition::DcpsStatusCondition::get_trigger_value
#[kani::proof]
#[kani::unwind(14)]
#[kani::stub(critical_section::acquire, super::support_cs::cs_acquire)]
#[kani::stub(critical_section::release, super::support_cs::cs_release)]
#[kani::stub(core::sync::atomic::Atomic::<usize>::fetch_sub, super::support_cs::fetch_sub_never_last)]
#[kani::stub(alloc::raw_vec::min_non_zero_cap, super::support_cs::min_non_zero_cap_checked)]
fn c32_trigger_value_schedule_k5() {
    trigger_value_schedule::<5>();
}
