// C37 (kernel part) — QoS validation functions executed with every scalar policy symbolic:
//   DataWriterQos / DataReaderQos / TopicQos::is_consistent    vs. the DDS consistency rules
//   DataWriterQos / DataReaderQos / SubscriberQos / PublisherQos::check_immutability vs. the DDS "Changeable" column
// Reference model (in support_qos.rs; DDS 1.4 §2.2.3, table of QoS policies and the per-policy clauses):
//   RESOURCE_LIMITS  max_samples >= max_samples_per_instance            (§2.2.3.19)
//   HISTORY          KEEP_LAST depth <= max_samples_per_instance        (§2.2.3.18)
//   DEADLINE / TIME_BASED_FILTER  deadline period >= minimum_separation (§2.2.3.7, §2.2.3.12, readers)
//   DATA_REPRESENTATION  a writer offers at most one representation     (XTypes 1.3 §7.6.3.1.1)
//   LENGTH_UNLIMITED is larger than every limit.
//   Changeable = NO: DURABILITY, LIVELINESS, RELIABILITY, DESTINATION_ORDER, HISTORY,
//   RESOURCE_LIMITS, OWNERSHIP (and PRESENTATION for publisher/subscriber).  DATA_REPRESENTATION and
//   TYPE_CONSISTENCY_ENFORCEMENT (XTypes) are left free: the oracle accepts either answer when only
//   they change.
// The DDS text does not define the meaning of negative limits (other than LENGTH_UNLIMITED): the
// exact oracle is stated for Limited(n) with n >= 0; the full i32 range is covered by the totality
// harness (never panics, answers Ok or InconsistentPolicy).
use super::support_qos as sq;
use crate::infrastructure::error::{DdsError, DdsResult};
use crate::infrastructure::qos::SubscriberQos;
use crate::infrastructure::qos_policy::{HistoryQosPolicyKind, Length};

use super::support_qos::{
    depth_fits, length_ge, limits_consistent, reader_consistent, reader_immutables_equal,
    reader_limits_non_negative, topic_consistent, topic_limits_non_negative, writer_consistent,
    writer_immutables_equal, writer_limits_non_negative,
};
fn is_inconsistent(r: &DdsResult<()>) -> bool {
    matches!(r, Err(DdsError::InconsistentPolicy))
}
fn is_immutable(r: &DdsResult<()>) -> bool {
    matches!(r, Err(DdsError::ImmutablePolicy))
}

// @check props=C37 tier=quick
// @desc DataWriterQos::is_consistent answers Ok exactly for the QoS values the DDS rules call consistent (max_samples >= max_samples_per_instance, KEEP_LAST depth <= max_samples_per_instance, LENGTH_UNLIMITED above every limit, at most one offered data representation) and Err(InconsistentPolicy) otherwise
// @bounds every scalar policy of DataWriterQos symbolic: history KEEP_ALL / KEEP_LAST(any u32), the three resource limits Unlimited / Limited(any i32 >= 0), all kinds, all durations (Infinite / Finite(any i32, nanosec < 10^9)), representation list of length 0..=2; octet sequences empty. loop-free except the list (unwind 4)
// @assume Limited(n) limits have n >= 0 (the DDS text gives negative limits no meaning; full range: c37_is_consistent_total)
// @enc infrastructure::qos::DataWriterQos::is_consistent
// @enc infrastructure::qos_policy::Length (PartialOrd<Length>, PartialOrd<Length> for usize)
#[kani::proof]
#[kani::unwind(4)]
fn c37_writer_is_consistent() {
    let q = sq::any_writer_qos();
    kani::assume(writer_limits_non_negative(&q));
    let r = q.is_consistent();
    assert!(r.is_ok() == writer_consistent(&q), "C37: DataWriterQos::is_consistent accepts exactly the consistent values");
    assert!(r.is_ok() || is_inconsistent(&r), "C37: DataWriterQos::is_consistent rejects with InconsistentPolicy");
    kani::cover!(r.is_ok() && q.history.kind == HistoryQosPolicyKind::KeepLast(7) && q.resource_limits.max_samples_per_instance == Length::Limited(7), "depth equal to the per-instance limit accepted");
    kani::cover!(r.is_err() && q.history.kind == HistoryQosPolicyKind::KeepLast(8) && q.resource_limits.max_samples_per_instance == Length::Limited(7) && q.resource_limits.max_samples == Length::Unlimited, "depth above the per-instance limit rejected");
    kani::cover!(r.is_err() && q.resource_limits.max_samples == Length::Limited(5) && q.resource_limits.max_samples_per_instance == Length::Unlimited, "limited max_samples below unlimited per-instance limit rejected");
    kani::cover!(r.is_err() && q.representation.value.len() == 2 && limits_consistent(q.history.kind, &q.resource_limits), "two offered representations rejected");
    kani::cover!(r.is_ok() && q.history.kind == HistoryQosPolicyKind::KeepLast(u32::MAX) && q.resource_limits.max_samples_per_instance == Length::Unlimited, "largest depth with unlimited resources accepted");
    kani::cover!(r.is_err() && q.history.kind == HistoryQosPolicyKind::KeepLast(1) && q.resource_limits.max_samples_per_instance == Length::Limited(0), "zero per-instance limit rejects depth 1");
    core::mem::forget(q);
}

// @check props=C37 tier=quick
// @desc DataReaderQos::is_consistent answers Ok exactly for the consistent values (resource-limit and history rules as for the writer, plus deadline period >= time-based-filter minimum_separation with Infinite above every finite duration) and Err(InconsistentPolicy) otherwise
// @bounds every scalar policy of DataReaderQos symbolic (history, three resource limits Unlimited / Limited(any i32 >= 0), deadline and minimum_separation Infinite / Finite(any i32, nanosec < 10^9), all kinds); loop-free
// @assume Limited(n) limits have n >= 0; nanosec < 10^9
// @enc infrastructure::qos::DataReaderQos::is_consistent
// @enc infrastructure::time::DurationKind::partial_cmp
#[kani::proof]
#[kani::unwind(4)]
fn c37_reader_is_consistent() {
    let q = sq::any_reader_qos();
    kani::assume(reader_limits_non_negative(&q));
    let r = q.is_consistent();
    assert!(r.is_ok() == reader_consistent(&q), "C37: DataReaderQos::is_consistent accepts exactly the consistent values");
    assert!(r.is_ok() || is_inconsistent(&r), "C37: DataReaderQos::is_consistent rejects with InconsistentPolicy");
    kani::cover!(r.is_err() && limits_consistent(q.history.kind, &q.resource_limits), "rejected only because deadline < minimum_separation");
    kani::cover!(r.is_ok() && q.deadline.period == q.time_based_filter.minimum_separation && q.deadline.period != crate::infrastructure::time::DurationKind::Infinite, "deadline equal to a finite minimum_separation accepted");
    kani::cover!(r.is_err() && q.time_based_filter.minimum_separation == crate::infrastructure::time::DurationKind::Infinite, "infinite minimum_separation with a finite deadline rejected");
    kani::cover!(r.is_err() && !depth_fits(q.history.kind, q.resource_limits.max_samples_per_instance), "depth above the per-instance limit rejected");
    core::mem::forget(q);
}

// @check props=C37 tier=quick
// @desc TopicQos::is_consistent answers Ok exactly for the consistent values (resource-limit and history rules) and Err(InconsistentPolicy) otherwise
// @bounds every scalar policy of TopicQos symbolic (limits Unlimited / Limited(any i32 >= 0)); representation list 0..=2. unwind 4
// @assume Limited(n) limits have n >= 0
// @enc infrastructure::qos::TopicQos::is_consistent
#[kani::proof]
#[kani::unwind(4)]
fn c37_topic_is_consistent() {
    let q = sq::any_topic_qos();
    kani::assume(topic_limits_non_negative(&q));
    let r = q.is_consistent();
    assert!(r.is_ok() == topic_consistent(&q), "C37: TopicQos::is_consistent accepts exactly the consistent values");
    assert!(r.is_ok() || is_inconsistent(&r), "C37: TopicQos::is_consistent rejects with InconsistentPolicy");
    kani::cover!(r.is_err() && !length_ge(q.resource_limits.max_samples, q.resource_limits.max_samples_per_instance), "max_samples below the per-instance limit rejected");
    kani::cover!(r.is_err() && !depth_fits(q.history.kind, q.resource_limits.max_samples_per_instance), "depth above the per-instance limit rejected");
    kani::cover!(r.is_ok() && q.history.kind == HistoryQosPolicyKind::KeepAll && q.resource_limits.max_samples == Length::Limited(0), "KEEP_ALL with zero limits accepted");
    core::mem::forget(q);
}

// @check props=C37 tier=quick
// @desc totality over the FULL i32 range of the limits (negative values included): the three is_consistent functions never panic (no overflow in the `as usize` conversions) and answer Ok or InconsistentPolicy; on non-negative limits nothing is assumed here
// @bounds as the three harnesses above but Limited(any i32)
// @enc infrastructure::qos::DataWriterQos::is_consistent
// @enc infrastructure::qos::DataReaderQos::is_consistent
// @enc infrastructure::qos::TopicQos::is_consistent
#[kani::proof]
#[kani::unwind(4)]
fn c37_is_consistent_total() {
    let w = sq::any_writer_qos();
    let r = sq::any_reader_qos();
    let t = sq::any_topic_qos();
    let rw = w.is_consistent();
    let rr = r.is_consistent();
    let rt = t.is_consistent();
    assert!(rw.is_ok() || is_inconsistent(&rw), "C37: writer is_consistent is total");
    assert!(rr.is_ok() || is_inconsistent(&rr), "C37: reader is_consistent is total");
    assert!(rt.is_ok() || is_inconsistent(&rt), "C37: topic is_consistent is total");
    kani::cover!(!writer_limits_non_negative(&w) && rw.is_ok(), "negative limit reachable, accepted");
    kani::cover!(!writer_limits_non_negative(&w) && rw.is_err(), "negative limit reachable, rejected");
    kani::cover!(w.resource_limits.max_samples_per_instance == Length::Limited(i32::MIN), "most negative limit reachable");
    core::mem::forget((w, r, t));
}

// @check props=C37 tier=quick
// @desc DataWriterQos::check_immutability(new) on two arbitrary QoS values: Err(ImmutablePolicy) whenever one of the seven DDS policies with Changeable=NO differs (durability, liveliness, reliability, destination order, history, resource limits, ownership); Ok whenever these and the data representation are unchanged - i.e. changing only changeable policies (deadline, latency budget, lifespan, transport priority, ownership strength, writer data lifecycle) is accepted
// @bounds both QoS values with every scalar policy symbolic (limits over the full i32 range), representation lists 0..=2. unwind 6 = 4 bytes of a two-entry list compared by memcmp + 2
// @assume when ONLY the data representation differs the oracle accepts either answer (XTypes policy, not in the DDS 1.4 table)
// @enc infrastructure::qos::DataWriterQos::check_immutability
#[kani::proof]
#[kani::unwind(6)]
fn c37_writer_check_immutability() {
    let a = sq::any_writer_qos();
    let b = sq::any_writer_qos();
    let r = a.check_immutability(&b);
    let same = writer_immutables_equal(&a, &b);
    if !same {
        assert!(is_immutable(&r), "C37: changing an immutable DataWriter policy is rejected with ImmutablePolicy");
    } else if a.representation == b.representation {
        assert!(r.is_ok(), "C37: changing only changeable DataWriter policies is accepted");
    }
    assert!(r.is_ok() || is_immutable(&r), "C37: check_immutability answers Ok or ImmutablePolicy");
    kani::cover!(!same && a.reliability.kind == b.reliability.kind && a.reliability.max_blocking_time != b.reliability.max_blocking_time, "rejected through max_blocking_time of RELIABILITY");
    kani::cover!(same && r.is_ok() && a.deadline != b.deadline && a.lifespan != b.lifespan && a.ownership_strength != b.ownership_strength, "several changeable policies changed, accepted");
    kani::cover!(!same && a.history != b.history && a.durability == b.durability, "rejected through HISTORY only");
    kani::cover!(same && a.representation != b.representation && r.is_ok(), "representation change of a writer is accepted by dust-dds (left free by the oracle)");
    core::mem::forget((a, b));
}

// @check props=C37 tier=quick
// @desc DataReaderQos::check_immutability(new): Err(ImmutablePolicy) whenever one of the seven Changeable=NO policies differs; Ok whenever these, the data representation and the type consistency enforcement are unchanged (deadline, latency budget, time-based filter, reader data lifecycle are changeable). SubscriberQos::check_immutability and PublisherQos::check_immutability: Err(ImmutablePolicy) iff PRESENTATION differs
// @bounds both DataReaderQos values with every scalar policy symbolic; both SubscriberQos with presentation and autoenable symbolic (partition / group data empty). unwind 6
// @assume when ONLY data representation / type consistency differ the oracle accepts either answer
// @enc infrastructure::qos::DataReaderQos::check_immutability
// @enc infrastructure::qos::SubscriberQos::check_immutability
// @enc infrastructure::qos::PublisherQos::check_immutability
#[kani::proof]
#[kani::unwind(6)]
fn c37_reader_subscriber_check_immutability() {
    let a = sq::any_reader_qos();
    let b = sq::any_reader_qos();
    let r = a.check_immutability(&b);
    let same = reader_immutables_equal(&a, &b);
    if !same {
        assert!(is_immutable(&r), "C37: changing an immutable DataReader policy is rejected with ImmutablePolicy");
    } else if a.representation == b.representation && a.type_consistency == b.type_consistency {
        assert!(r.is_ok(), "C37: changing only changeable DataReader policies is accepted");
    }
    assert!(r.is_ok() || is_immutable(&r), "C37: check_immutability answers Ok or ImmutablePolicy");
    kani::cover!(same && r.is_ok() && a.time_based_filter != b.time_based_filter && a.deadline != b.deadline, "time-based filter and deadline changed, accepted");
    kani::cover!(!same && a.liveliness.kind == b.liveliness.kind && a.liveliness != b.liveliness, "rejected through the liveliness lease only");

    let mut sa = SubscriberQos::const_default();
    let mut sb = SubscriberQos::const_default();
    sa.presentation = sq::any_presentation();
    sb.presentation = sq::any_presentation();
    sa.entity_factory.autoenable_created_entities = kani::any();
    sb.entity_factory.autoenable_created_entities = kani::any();
    let rs = sa.check_immutability(&sb);
    assert!(rs.is_ok() == (sa.presentation == sb.presentation), "C37: SubscriberQos::check_immutability rejects exactly a PRESENTATION change");
    assert!(rs.is_ok() || is_immutable(&rs), "C37: SubscriberQos::check_immutability rejects with ImmutablePolicy");
    let mut pa = crate::infrastructure::qos::PublisherQos::const_default();
    let mut pb = crate::infrastructure::qos::PublisherQos::const_default();
    pa.presentation = sa.presentation.clone();
    pb.presentation = sb.presentation.clone();
    pb.entity_factory.autoenable_created_entities = kani::any();
    let rp = pa.check_immutability(&pb);
    assert!(rp.is_ok() == (pa.presentation == pb.presentation), "C37: PublisherQos::check_immutability rejects exactly a PRESENTATION change");
    assert!(rp.is_ok() || is_immutable(&rp), "C37: PublisherQos::check_immutability rejects with ImmutablePolicy");
    kani::cover!(rs.is_ok() && sa.entity_factory != sb.entity_factory, "entity factory change accepted");
    kani::cover!(rs.is_err() && sa.presentation.access_scope == sb.presentation.access_scope, "rejected through a presentation flag");
    core::mem::forget((a, b, sa, sb, pa, pb));
}
