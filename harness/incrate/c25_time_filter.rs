// C25 — TIME_BASED_FILTER of the DataReader sample cache.
// Pattern S: ONE real `DataReaderEntity::<()>::add_reader_change` from a directly constructed symbolic
// pre-state in which any two stored samples of an instance are at least minimum_separation apart (the
// invariant the filter is meant to maintain), with the real `Time - Time` / `DurationKind` arithmetic.
//
// Findings (the filter, data_reader_entity.rs:434-458, looks only at the closest stored sample of the
// instance whose source timestamp is <= the incoming one):
//  KF-C25-1  a stored sample of the instance that is LATER than the incoming change (out-of-order
//            arrival) is never compared, so the change is accepted although it is closer than
//            minimum_separation to it;
//  KF-C25-2  the filter knows only the samples still in the cache: once the application has taken a
//            sample (or KEEP_LAST has evicted it) the next sample of the instance is accepted however
//            close it is — with take() in the data-available callback the filter never filters.
use super::support_reader::*;
use crate::infrastructure::qos_policy::DestinationOrderQosPolicyKind;
use crate::infrastructure::time::{Duration, DurationKind, Time};
// alias: Kani's stub path resolver picks the derive macro `PartialEq` instead of the trait otherwise
use core::cmp::PartialEq as HandlePartialEq;

/// Reference oracle: `a + sep <= b`, exact on (sec, nanosec) pairs (addition and comparison only; the
/// implementation subtracts).
fn plus_le(a: Time, sep: Duration, b: Time) -> bool {
    let ns = a.nanosec() as u64 + sep.nanosec() as u64;
    let (carry, ns) = if ns >= 1_000_000_000 { (1i64, ns - 1_000_000_000) } else { (0i64, ns) };
    let sec = a.sec() as i64 + sep.sec() as i64 + carry;
    sec < b.sec() as i64 || (sec == b.sec() as i64 && ns <= b.nanosec() as u64)
}
/// two source timestamps are at least `sep` apart
fn apart(a: Time, b: Time, sep: Duration) -> bool {
    plus_le(a, sep, b) || plus_le(b, sep, a)
}
/// samples without a source timestamp are outside the property
fn apart_opt(a: Option<Time>, b: Option<Time>, sep: Duration) -> bool {
    match (a, b) {
        (Some(x), Some(y)) => apart(x, y, sep),
        _ => true,
    }
}

/// minimum_separation > 0 from the time domain of the harness
fn any_sep(td: TimeDomain) -> Duration {
    match td {
        TimeDomain::Small => {
            let sec: i32 = kani::any();
            let half: bool = kani::any();
            kani::assume(sec >= 0 && sec < 3 && (sec > 0 || half));
            Duration::new(sec, if half { 500_000_000 } else { 0 })
        }
        TimeDomain::Wide => {
            let sec: i32 = kani::any();
            let ns: u32 = kani::any();
            kani::assume(sec >= 0 && sec < (1 << 30) && ns < 1_000_000_000 && (sec > 0 || ns > 0));
            Duration::new(sec, ns)
        }
    }
}

/// invariant: any two stored samples of one instance are >= sep apart
fn separated_pre(pre: &PreState, sep: Duration) -> bool {
    pre.all_pairs(|a, b| a.inst != b.inst || apart_opt(a.ts, b.ts, sep))
}
fn separated_post(post: &PostState, sep: Duration) -> bool {
    post.all_pairs(|a, b| a.inst != b.inst || apart_opt(a.ts, b.ts, sep))
}
/// the incoming change is >= sep away from every stored sample of its instance
fn far_from_all(pre: &PreState, c: &Incoming, sep: Duration) -> bool {
    let (inst, ts) = (c.inst, c.ts);
    pre.count(|s| s.inst == inst && !apart_opt(s.ts, ts, sep)) == 0
}
/// Trigger of KF-C25-1: a stored sample of the instance is LATER than the incoming change and closer
/// to it than minimum_separation.
fn kf_c25_1_trigger(pre: &PreState, c: &Incoming, sep: Duration) -> bool {
    let (inst, ts) = (c.inst, c.ts);
    pre.count(|s| s.inst == inst && s.ts > ts && ts.is_some() && !apart_opt(s.ts, ts, sep)) > 0
}

#[derive(Clone, Copy, PartialEq, Eq)]
enum Mode {
    Known,
    Rest,
}

struct Run {
    res: StepResult,
    sep: Duration,
    far: bool,
    pre_n: usize,
    post: PostState,
    unchanged: bool,
    inv_ok: bool,
}

fn c25_run(st: &Structure, hist: Hist, order: DestinationOrderQosPolicyKind, td: TimeDomain, mode: Mode) -> Run {
    let sep = any_sep(td);
    let cfg = any_cfg(hist, order, DurationKind::Finite(sep));
    let (pre, c) = any_run(st, &cfg, td);
    kani::assume(separated_pre(&pre, sep));
    if order == DestinationOrderQosPolicyKind::BySourceTimestamp {
        kani::assume(pre.all_pairs(|a, b| a.ts <= b.ts));
    }
    match mode {
        Mode::Known => kani::assume(kf_c25_1_trigger(&pre, &c, sep)),
        Mode::Rest => kani::assume(!kf_c25_1_trigger(&pre, &c, sep)),
    }
    let mut r = build_reader(cfg.qos(), &pre);
    let res = step(&mut r, &c);
    let post = observe(&r);
    let rep_ok_after = rep_ok_real(&r);
    core::mem::forget(r);
    Run {
        res,
        sep,
        far: far_from_all(&pre, &c, sep),
        pre_n: pre.n,
        unchanged: post.unchanged(&pre),
        inv_ok: rep_ok_after && cfg.history_inv_post(&post) && cfg.limits_inv_post(&post),
        post,
    }
}

/// the assertion KF-C25-1 violates
fn assert_separated(x: &Run) {
    assert!(
        separated_post(&x.post, x.sep),
        "C25: stored samples of one instance are at least minimum_separation apart"
    );
}

fn c25_check(st: &Structure, hist: Hist, order: DestinationOrderQosPolicyKind, td: TimeDomain) -> Run {
    let x = c25_run(st, hist, order, td, Mode::Rest);
    // (a) never two samples of an instance closer than minimum_separation
    assert_separated(&x);
    // (b) a sample at least minimum_separation away from every stored sample of its instance is not filtered
    if x.far {
        assert!(x.res != StepResult::NotAdded, "C25: a sample at least minimum_separation away from all stored samples of its instance is not filtered");
    }
    if x.res == StepResult::NotAdded {
        assert!(x.unchanged, "C25: a filtered sample leaves the stored samples untouched");
    }
    assert!(x.inv_ok, "C25: history, resource-limit and representation invariants after the step");
    x
}

const BY_RECEPTION: DestinationOrderQosPolicyKind = DestinationOrderQosPolicyKind::ByReceptionTimestamp;
const BY_SOURCE: DestinationOrderQosPolicyKind = DestinationOrderQosPolicyKind::BySourceTimestamp;

fn rest_covers(x: &Run) {
    kani::cover!(x.res == StepResult::NotAdded, "a sample closer than minimum_separation was filtered");
    kani::cover!(x.res == StepResult::Added && x.post.n == x.pre_n + 1, "a sample at least minimum_separation away was stored");
}

/// KF-C25-2 scenario.  Ghost history: a sample of instance 0 with source timestamp `t0` was accepted and
/// presented earlier and has since left the cache (the application took it: `take` removes what it
/// returns, which is C20's subject; running the real `take` in front of the real `add_reader_change` in
/// one harness exhausts the SAT back end, measured: out of memory at 12 GB during SSA conversion).  The
/// state that history reaches is an empty cache with the instance registered; from it a change of the
/// same instance arrives whose source timestamp is closer than minimum_separation to `t0`.
fn c25_taken_then_close() {
    let sep = any_sep(TimeDomain::Small);
    let cfg = any_cfg(Hist::KeepAll, BY_RECEPTION, DurationKind::Finite(sep));
    let pre = any_pre_state_st(&plain(0), TimeDomain::Small);
    let t0 = any_small_time(); // ghost: source timestamp of the sample that was presented and taken
    let mut c = any_incoming();
    c.inst = 0;
    let t1 = any_small_time();
    c.ts = Some(t1);
    kani::assume(!apart(t0, t1, sep));

    let mut r = build_reader(cfg.qos(), &pre);
    let res = step(&mut r, &c);
    let stored = r.sample_list.len();
    core::mem::forget(r);
    kani::cover!(res == StepResult::Added && stored == 1, "trigger reached: the close sample was accepted after the take");
    assert!(
        res == StepResult::NotAdded,
        "C25: a sample closer than minimum_separation to an already presented (taken) sample of the instance is filtered"
    );
}

// ===== harnesses (one Kani proof per line of the table in the file header) =====

// @check props=C25 tier=thorough
// @desc TIME_BASED_FILTER with minimum_separation > 0, KEEP_ALL, BY_RECEPTION_TIMESTAMP, cache with exactly 1 stored sample(s): after one real add_reader_change any two stored samples of an instance are still at least minimum_separation apart (source timestamps; equal and out-of-order timestamps included); a change at least minimum_separation away from every stored sample of its instance is not filtered (never NotAdded); a filtered change leaves the cache untouched. Outside the triggers of KF-C25-1 and KF-C25-2.
// @bounds exactly 1 stored sample(s), KEEP_ALL, BY_RECEPTION_TIMESTAMP, source timestamps None or sec 0..4 x nanosec {0, 5*10^8}, minimum_separation in {0.5 s, 1 s, ..., 2.5 s}, 2 instance handles (both registered), 2 writers, each resource limit in {1,2,3,unlimited} (QoS consistent), all 5 change kinds, instance_ownership empty; unwind 6
// @assume pre-state: any two stored samples of an instance that carry a source timestamp are >= minimum_separation apart; R1-R3, KEEP_LAST and resource-limit invariants (all re-asserted after the step)
// @assume DataReaderQos::is_consistent() (deadline infinite); ownership SHARED; minimum_separation finite and > 0, constant over the history
// @assume negation of the KF-C25-1 trigger: no stored sample of the instance is later than the incoming change and closer to it than minimum_separation
// @assume negation of KF-C25-2 (not expressible in one step): every earlier accepted sample of the instance within minimum_separation of the incoming change is still stored (not taken, not evicted)
// @assume <InstanceHandle as PartialEq>::eq replaced by the loop-free handle_eq_stub (equivalence: c18_handle_eq_stub_is_equivalent)
// @enc dcps::dcps_domain_participant::data_reader_entity::DataReaderEntity::add_reader_change
// @enc dcps::infrastructure::time::Time::sub
// @enc dcps::infrastructure::time::DurationKind::partial_cmp
#[kani::proof]
#[kani::unwind(6)]
#[kani::solver(minisat)]
#[kani::stub(<crate::infrastructure::instance::InstanceHandle as HandlePartialEq<crate::infrastructure::instance::InstanceHandle>>::eq, super::support_reader::handle_eq_stub)]
fn c25_filter_keep_all_n1__rest() {
    let x = c25_check(&plain(1), Hist::KeepAll, BY_RECEPTION, TimeDomain::Small);
    rest_covers(&x);
}

// @check props=C25 tier=quick
// @desc TIME_BASED_FILTER with minimum_separation > 0, KEEP_ALL, BY_RECEPTION_TIMESTAMP, cache with exactly 2 stored sample(s): after one real add_reader_change any two stored samples of an instance are still at least minimum_separation apart (source timestamps; equal and out-of-order timestamps included); a change at least minimum_separation away from every stored sample of its instance is not filtered (never NotAdded); a filtered change leaves the cache untouched. Outside the triggers of KF-C25-1 and KF-C25-2.
// @bounds exactly 2 stored sample(s), KEEP_ALL, BY_RECEPTION_TIMESTAMP, source timestamps None or sec 0..4 x nanosec {0, 5*10^8}, minimum_separation in {0.5 s, 1 s, ..., 2.5 s}, 2 instance handles (both registered), 2 writers, each resource limit in {1,2,3,unlimited} (QoS consistent), all 5 change kinds, instance_ownership empty; unwind 6
// @assume pre-state: any two stored samples of an instance that carry a source timestamp are >= minimum_separation apart; R1-R3, KEEP_LAST and resource-limit invariants (all re-asserted after the step)
// @assume DataReaderQos::is_consistent() (deadline infinite); ownership SHARED; minimum_separation finite and > 0, constant over the history
// @assume negation of the KF-C25-1 trigger: no stored sample of the instance is later than the incoming change and closer to it than minimum_separation
// @assume negation of KF-C25-2 (not expressible in one step): every earlier accepted sample of the instance within minimum_separation of the incoming change is still stored (not taken, not evicted)
// @assume <InstanceHandle as PartialEq>::eq replaced by the loop-free handle_eq_stub (equivalence: c18_handle_eq_stub_is_equivalent)
// @enc dcps::dcps_domain_participant::data_reader_entity::DataReaderEntity::add_reader_change
// @enc dcps::infrastructure::time::Time::sub
// @enc dcps::infrastructure::time::DurationKind::partial_cmp
#[kani::proof]
#[kani::unwind(6)]
#[kani::solver(minisat)]
#[kani::stub(<crate::infrastructure::instance::InstanceHandle as HandlePartialEq<crate::infrastructure::instance::InstanceHandle>>::eq, super::support_reader::handle_eq_stub)]
fn c25_filter_keep_all_n2__rest() {
    let x = c25_check(&plain(2), Hist::KeepAll, BY_RECEPTION, TimeDomain::Small);
    rest_covers(&x);
}

// @check props=C25 tier=quick known=KF-C25-1
// @desc KF-C25-1: a stored sample of the instance is later than the incoming change (out-of-order arrival, e.g. two writers or write_w_timestamp) and closer to it than minimum_separation: the filter only compares with the closest EARLIER stored sample, accepts the change, and the cache holds two samples of the instance closer than minimum_separation.
// @bounds exactly 1 stored sample(s), KEEP_ALL, BY_RECEPTION_TIMESTAMP, source timestamps None or sec 0..4 x nanosec {0, 5*10^8}, minimum_separation in {0.5 s, 1 s, ..., 2.5 s}, 2 instance handles (both registered), 2 writers, each resource limit in {1,2,3,unlimited} (QoS consistent), all 5 change kinds, instance_ownership empty; unwind 6
// @assume the KF-C25-1 trigger; pre-state separated, R1-R3, resource-limit invariant; consistent QoS
// @assume <InstanceHandle as PartialEq>::eq replaced by the loop-free handle_eq_stub (equivalence: c18_handle_eq_stub_is_equivalent)
// @enc dcps::dcps_domain_participant::data_reader_entity::DataReaderEntity::add_reader_change
// @enc dcps::infrastructure::time::Time::sub
// @enc dcps::infrastructure::time::DurationKind::partial_cmp
#[kani::proof]
#[kani::unwind(6)]
#[kani::solver(minisat)]
#[kani::stub(<crate::infrastructure::instance::InstanceHandle as HandlePartialEq<crate::infrastructure::instance::InstanceHandle>>::eq, super::support_reader::handle_eq_stub)]
fn c25_filter_ignores_later_sample__known() {
    let x = c25_run(&plain(1), Hist::KeepAll, BY_RECEPTION, TimeDomain::Small, Mode::Known);
    kani::cover!(x.res == StepResult::Added, "trigger reached: the early sample was accepted next to a later, closer one");
    assert_separated(&x);
}

// @check props=C25 tier=quick known=KF-C25-2
// @desc KF-C25-2: ghost history - a sample of the instance with source timestamp t0 was accepted, presented and taken, so the cache is empty; one real add_reader_change with a change of the same instance whose source timestamp is closer than minimum_separation to t0: the property demands that the reader never presents two such samples, the implementation (which compares only with samples still in the cache) accepts and stores it.
// @bounds empty cache (the state after take), instance registered, t0 and the incoming timestamp sec 0..4 x nanosec {0, 5*10^8}, minimum_separation in {0.5 s .. 2.5 s}, KEEP_ALL, each resource limit in {1,2,3,unlimited}, BY_RECEPTION_TIMESTAMP, all 5 change kinds; unwind 6
// @assume the KF-C25-2 scenario: a presented sample (ghost timestamp t0) has left the cache before a closer one arrives; the real take() is not executed in this harness (take + add_reader_change together exceed 12 GB)
// @assume <InstanceHandle as PartialEq>::eq replaced by the loop-free handle_eq_stub (equivalence: c18_handle_eq_stub_is_equivalent)
// @enc dcps::dcps_domain_participant::data_reader_entity::DataReaderEntity::add_reader_change
#[kani::proof]
#[kani::unwind(6)]
#[kani::solver(minisat)]
#[kani::stub(<crate::infrastructure::instance::InstanceHandle as HandlePartialEq<crate::infrastructure::instance::InstanceHandle>>::eq, super::support_reader::handle_eq_stub)]
fn c25_filter_forgets_taken_samples__known() {
    c25_taken_then_close();
}

// @check props=C25 tier=thorough
// @desc TIME_BASED_FILTER with minimum_separation > 0, KEEP_ALL, BY_RECEPTION_TIMESTAMP, cache with exactly 0 stored sample(s): after one real add_reader_change any two stored samples of an instance are still at least minimum_separation apart (source timestamps; equal and out-of-order timestamps included); a change at least minimum_separation away from every stored sample of its instance is not filtered (never NotAdded); a filtered change leaves the cache untouched. Outside the triggers of KF-C25-1 and KF-C25-2.
// @bounds exactly 0 stored sample(s), KEEP_ALL, BY_RECEPTION_TIMESTAMP, source timestamps None or sec 0..4 x nanosec {0, 5*10^8}, minimum_separation in {0.5 s, 1 s, ..., 2.5 s}, 2 instance handles (both registered), 2 writers, each resource limit in {1,2,3,unlimited} (QoS consistent), all 5 change kinds, instance_ownership empty; unwind 6
// @assume pre-state: any two stored samples of an instance that carry a source timestamp are >= minimum_separation apart; R1-R3, KEEP_LAST and resource-limit invariants (all re-asserted after the step)
// @assume DataReaderQos::is_consistent() (deadline infinite); ownership SHARED; minimum_separation finite and > 0, constant over the history
// @assume negation of the KF-C25-1 trigger: no stored sample of the instance is later than the incoming change and closer to it than minimum_separation
// @assume negation of KF-C25-2 (not expressible in one step): every earlier accepted sample of the instance within minimum_separation of the incoming change is still stored (not taken, not evicted)
// @assume <InstanceHandle as PartialEq>::eq replaced by the loop-free handle_eq_stub (equivalence: c18_handle_eq_stub_is_equivalent)
// @enc dcps::dcps_domain_participant::data_reader_entity::DataReaderEntity::add_reader_change
// @enc dcps::infrastructure::time::Time::sub
// @enc dcps::infrastructure::time::DurationKind::partial_cmp
#[kani::proof]
#[kani::unwind(6)]
#[kani::solver(minisat)]
#[kani::stub(<crate::infrastructure::instance::InstanceHandle as HandlePartialEq<crate::infrastructure::instance::InstanceHandle>>::eq, super::support_reader::handle_eq_stub)]
fn c25_filter_keep_all_n0__rest() {
    let x = c25_check(&plain(0), Hist::KeepAll, BY_RECEPTION, TimeDomain::Small);
    kani::cover!(x.res == StepResult::Added && x.post.n == 1, "first sample of an instance is never filtered");
    assert!(x.res != StepResult::NotAdded, "C25: an empty cache filters nothing");
}

// @check props=C25 tier=thorough
// @desc TIME_BASED_FILTER with minimum_separation > 0, KEEP_ALL, BY_RECEPTION_TIMESTAMP, cache with exactly 3 stored sample(s): after one real add_reader_change any two stored samples of an instance are still at least minimum_separation apart (source timestamps; equal and out-of-order timestamps included); a change at least minimum_separation away from every stored sample of its instance is not filtered (never NotAdded); a filtered change leaves the cache untouched. Outside the triggers of KF-C25-1 and KF-C25-2.
// @bounds exactly 3 stored sample(s), KEEP_ALL, BY_RECEPTION_TIMESTAMP, source timestamps None or sec 0..4 x nanosec {0, 5*10^8}, minimum_separation in {0.5 s, 1 s, ..., 2.5 s}, 2 instance handles (both registered), 2 writers, each resource limit in {1,2,3,unlimited} (QoS consistent), all 5 change kinds, instance_ownership empty; unwind 6
// @assume pre-state: any two stored samples of an instance that carry a source timestamp are >= minimum_separation apart; R1-R3, KEEP_LAST and resource-limit invariants (all re-asserted after the step)
// @assume DataReaderQos::is_consistent() (deadline infinite); ownership SHARED; minimum_separation finite and > 0, constant over the history
// @assume negation of the KF-C25-1 trigger: no stored sample of the instance is later than the incoming change and closer to it than minimum_separation
// @assume negation of KF-C25-2 (not expressible in one step): every earlier accepted sample of the instance within minimum_separation of the incoming change is still stored (not taken, not evicted)
// @assume <InstanceHandle as PartialEq>::eq replaced by the loop-free handle_eq_stub (equivalence: c18_handle_eq_stub_is_equivalent)
// @enc dcps::dcps_domain_participant::data_reader_entity::DataReaderEntity::add_reader_change
// @enc dcps::infrastructure::time::Time::sub
// @enc dcps::infrastructure::time::DurationKind::partial_cmp
#[kani::proof]
#[kani::unwind(6)]
#[kani::solver(minisat)]
#[kani::stub(<crate::infrastructure::instance::InstanceHandle as HandlePartialEq<crate::infrastructure::instance::InstanceHandle>>::eq, super::support_reader::handle_eq_stub)]
fn c25_filter_keep_all_n3__rest() {
    let x = c25_check(&plain(3), Hist::KeepAll, BY_RECEPTION, TimeDomain::Small);
    rest_covers(&x);
}

// @check props=C25 tier=thorough
// @desc TIME_BASED_FILTER with minimum_separation > 0, KEEP_LAST(1..=3), BY_RECEPTION_TIMESTAMP, cache with exactly 1 stored sample(s): after one real add_reader_change any two stored samples of an instance are still at least minimum_separation apart (source timestamps; equal and out-of-order timestamps included); a change at least minimum_separation away from every stored sample of its instance is not filtered (never NotAdded); a filtered change leaves the cache untouched. Outside the triggers of KF-C25-1 and KF-C25-2.
// @bounds exactly 1 stored sample(s), KEEP_LAST(1..=3), BY_RECEPTION_TIMESTAMP, source timestamps None or sec 0..4 x nanosec {0, 5*10^8}, minimum_separation in {0.5 s, 1 s, ..., 2.5 s}, 2 instance handles (both registered), 2 writers, each resource limit in {1,2,3,unlimited} (QoS consistent), all 5 change kinds, instance_ownership empty; unwind 6
// @assume pre-state: any two stored samples of an instance that carry a source timestamp are >= minimum_separation apart; R1-R3, KEEP_LAST and resource-limit invariants (all re-asserted after the step)
// @assume DataReaderQos::is_consistent() (deadline infinite); ownership SHARED; minimum_separation finite and > 0, constant over the history
// @assume negation of the KF-C25-1 trigger: no stored sample of the instance is later than the incoming change and closer to it than minimum_separation
// @assume negation of KF-C25-2 (not expressible in one step): every earlier accepted sample of the instance within minimum_separation of the incoming change is still stored (not taken, not evicted)
// @assume <InstanceHandle as PartialEq>::eq replaced by the loop-free handle_eq_stub (equivalence: c18_handle_eq_stub_is_equivalent)
// @enc dcps::dcps_domain_participant::data_reader_entity::DataReaderEntity::add_reader_change
// @enc dcps::infrastructure::time::Time::sub
// @enc dcps::infrastructure::time::DurationKind::partial_cmp
#[kani::proof]
#[kani::unwind(6)]
#[kani::solver(minisat)]
#[kani::stub(<crate::infrastructure::instance::InstanceHandle as HandlePartialEq<crate::infrastructure::instance::InstanceHandle>>::eq, super::support_reader::handle_eq_stub)]
fn c25_filter_keep_last_n1__rest() {
    let x = c25_check(&plain(1), Hist::KeepLast, BY_RECEPTION, TimeDomain::Small);
    rest_covers(&x);
}

// @check props=C25 tier=thorough
// @desc TIME_BASED_FILTER with minimum_separation > 0, KEEP_LAST(1..=3), BY_RECEPTION_TIMESTAMP, cache with exactly 2 stored sample(s): after one real add_reader_change any two stored samples of an instance are still at least minimum_separation apart (source timestamps; equal and out-of-order timestamps included); a change at least minimum_separation away from every stored sample of its instance is not filtered (never NotAdded); a filtered change leaves the cache untouched. Outside the triggers of KF-C25-1 and KF-C25-2.
// @bounds exactly 2 stored sample(s), KEEP_LAST(1..=3), BY_RECEPTION_TIMESTAMP, source timestamps None or sec 0..4 x nanosec {0, 5*10^8}, minimum_separation in {0.5 s, 1 s, ..., 2.5 s}, 2 instance handles (both registered), 2 writers, each resource limit in {1,2,3,unlimited} (QoS consistent), all 5 change kinds, instance_ownership empty; unwind 6
// @assume pre-state: any two stored samples of an instance that carry a source timestamp are >= minimum_separation apart; R1-R3, KEEP_LAST and resource-limit invariants (all re-asserted after the step)
// @assume DataReaderQos::is_consistent() (deadline infinite); ownership SHARED; minimum_separation finite and > 0, constant over the history
// @assume negation of the KF-C25-1 trigger: no stored sample of the instance is later than the incoming change and closer to it than minimum_separation
// @assume negation of KF-C25-2 (not expressible in one step): every earlier accepted sample of the instance within minimum_separation of the incoming change is still stored (not taken, not evicted)
// @assume <InstanceHandle as PartialEq>::eq replaced by the loop-free handle_eq_stub (equivalence: c18_handle_eq_stub_is_equivalent)
// @enc dcps::dcps_domain_participant::data_reader_entity::DataReaderEntity::add_reader_change
// @enc dcps::infrastructure::time::Time::sub
// @enc dcps::infrastructure::time::DurationKind::partial_cmp
#[kani::proof]
#[kani::unwind(6)]
#[kani::solver(minisat)]
#[kani::stub(<crate::infrastructure::instance::InstanceHandle as HandlePartialEq<crate::infrastructure::instance::InstanceHandle>>::eq, super::support_reader::handle_eq_stub)]
fn c25_filter_keep_last_n2__rest() {
    let x = c25_check(&plain(2), Hist::KeepLast, BY_RECEPTION, TimeDomain::Small);
    rest_covers(&x);
}

// @check props=C25 tier=thorough
// @desc TIME_BASED_FILTER with minimum_separation > 0, KEEP_ALL, BY_SOURCE_TIMESTAMP (pre-state sorted), cache with exactly 2 stored sample(s): after one real add_reader_change any two stored samples of an instance are still at least minimum_separation apart (source timestamps; equal and out-of-order timestamps included); a change at least minimum_separation away from every stored sample of its instance is not filtered (never NotAdded); a filtered change leaves the cache untouched. Outside the triggers of KF-C25-1 and KF-C25-2.
// @bounds exactly 2 stored sample(s), KEEP_ALL, BY_SOURCE_TIMESTAMP (pre-state sorted), source timestamps None or sec 0..4 x nanosec {0, 5*10^8}, minimum_separation in {0.5 s, 1 s, ..., 2.5 s}, 2 instance handles (both registered), 2 writers, each resource limit in {1,2,3,unlimited} (QoS consistent), all 5 change kinds, instance_ownership empty; unwind 6
// @assume pre-state: any two stored samples of an instance that carry a source timestamp are >= minimum_separation apart; R1-R3, KEEP_LAST and resource-limit invariants (all re-asserted after the step)
// @assume DataReaderQos::is_consistent() (deadline infinite); ownership SHARED; minimum_separation finite and > 0, constant over the history
// @assume negation of the KF-C25-1 trigger: no stored sample of the instance is later than the incoming change and closer to it than minimum_separation
// @assume negation of KF-C25-2 (not expressible in one step): every earlier accepted sample of the instance within minimum_separation of the incoming change is still stored (not taken, not evicted)
// @assume <InstanceHandle as PartialEq>::eq replaced by the loop-free handle_eq_stub (equivalence: c18_handle_eq_stub_is_equivalent)
// @enc dcps::dcps_domain_participant::data_reader_entity::DataReaderEntity::add_reader_change
// @enc dcps::infrastructure::time::Time::sub
// @enc dcps::infrastructure::time::DurationKind::partial_cmp
#[kani::proof]
#[kani::unwind(6)]
#[kani::solver(minisat)]
#[kani::stub(<crate::infrastructure::instance::InstanceHandle as HandlePartialEq<crate::infrastructure::instance::InstanceHandle>>::eq, super::support_reader::handle_eq_stub)]
fn c25_filter_source_order_n2__rest() {
    let x = c25_check(&plain(2), Hist::KeepAll, BY_SOURCE, TimeDomain::Small);
    rest_covers(&x);
}

// @check props=C25 tier=thorough
// @desc TIME_BASED_FILTER with minimum_separation > 0, KEEP_ALL, BY_RECEPTION_TIMESTAMP, cache with exactly 2 stored sample(s): after one real add_reader_change any two stored samples of an instance are still at least minimum_separation apart (source timestamps; equal and out-of-order timestamps included); a change at least minimum_separation away from every stored sample of its instance is not filtered (never NotAdded); a filtered change leaves the cache untouched. Outside the triggers of KF-C25-1 and KF-C25-2.
// @bounds exactly 2 stored sample(s), KEEP_ALL, BY_RECEPTION_TIMESTAMP, source timestamps None or sec 0..2^30 x every nanosec < 10^9, minimum_separation any finite value in (0, 2^30 s), 2 instance handles (both registered), 2 writers, each resource limit in {1,2,3,unlimited} (QoS consistent), all 5 change kinds, instance_ownership empty; unwind 6
// @assume pre-state: any two stored samples of an instance that carry a source timestamp are >= minimum_separation apart; R1-R3, KEEP_LAST and resource-limit invariants (all re-asserted after the step)
// @assume DataReaderQos::is_consistent() (deadline infinite); ownership SHARED; minimum_separation finite and > 0, constant over the history
// @assume negation of the KF-C25-1 trigger: no stored sample of the instance is later than the incoming change and closer to it than minimum_separation
// @assume negation of KF-C25-2 (not expressible in one step): every earlier accepted sample of the instance within minimum_separation of the incoming change is still stored (not taken, not evicted)
// @assume <InstanceHandle as PartialEq>::eq replaced by the loop-free handle_eq_stub (equivalence: c18_handle_eq_stub_is_equivalent)
// @enc dcps::dcps_domain_participant::data_reader_entity::DataReaderEntity::add_reader_change
// @enc dcps::infrastructure::time::Time::sub
// @enc dcps::infrastructure::time::DurationKind::partial_cmp
#[kani::proof]
#[kani::unwind(6)]
#[kani::solver(minisat)]
#[kani::stub(<crate::infrastructure::instance::InstanceHandle as HandlePartialEq<crate::infrastructure::instance::InstanceHandle>>::eq, super::support_reader::handle_eq_stub)]
fn c25_filter_wide_times_n2__rest() {
    let x = c25_check(&plain(2), Hist::KeepAll, BY_RECEPTION, TimeDomain::Wide);
    rest_covers(&x);
}

// @check props=C25 tier=thorough known=KF-C25-1
// @desc KF-C25-1: a stored sample of the instance is later than the incoming change (out-of-order arrival, e.g. two writers or write_w_timestamp) and closer to it than minimum_separation: the filter only compares with the closest EARLIER stored sample, accepts the change, and the cache holds two samples of the instance closer than minimum_separation.
// @bounds exactly 2 stored sample(s), KEEP_ALL, BY_RECEPTION_TIMESTAMP, source timestamps None or sec 0..4 x nanosec {0, 5*10^8}, minimum_separation in {0.5 s, 1 s, ..., 2.5 s}, 2 instance handles (both registered), 2 writers, each resource limit in {1,2,3,unlimited} (QoS consistent), all 5 change kinds, instance_ownership empty; unwind 6
// @assume the KF-C25-1 trigger; pre-state separated, R1-R3, resource-limit invariant; consistent QoS
// @assume <InstanceHandle as PartialEq>::eq replaced by the loop-free handle_eq_stub (equivalence: c18_handle_eq_stub_is_equivalent)
// @enc dcps::dcps_domain_participant::data_reader_entity::DataReaderEntity::add_reader_change
// @enc dcps::infrastructure::time::Time::sub
// @enc dcps::infrastructure::time::DurationKind::partial_cmp
#[kani::proof]
#[kani::unwind(6)]
#[kani::solver(minisat)]
#[kani::stub(<crate::infrastructure::instance::InstanceHandle as HandlePartialEq<crate::infrastructure::instance::InstanceHandle>>::eq, super::support_reader::handle_eq_stub)]
fn c25_filter_ignores_later_sample_n2__known() {
    let x = c25_run(&plain(2), Hist::KeepAll, BY_RECEPTION, TimeDomain::Small, Mode::Known);
    kani::cover!(x.res == StepResult::Added, "trigger reached: the early sample was accepted next to a later, closer one");
    assert_separated(&x);
}
