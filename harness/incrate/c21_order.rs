// C21 — BY_SOURCE_TIMESTAMP destination order of the DataReader sample cache.
// Pattern S: ONE real `DataReaderEntity::<()>::add_reader_change` from a directly constructed symbolic
// pre-state whose sample list is sorted by source timestamp (the inductive invariant of the insert
// position computed at data_reader_entity.rs:567-576: the position is searched over the WHOLE list, so
// the per-instance order the property asks for is only preserved if the whole list stays sorted).
//
// History: this check found KF-C21-1 (`position(..).unwrap_or(0)` inserted a change that is newer than
// every stored sample at the FRONT, so in-order arrival 1, 2 was stored as [2, 1]); repaired in /repo by
// commit "fix: BY_SOURCE_TIMESTAMP readers append a sample that is newer than all stored ones"
// (`.unwrap_or(self.sample_list.len())`).  The former trigger region (no stored sample newer, at least
// one older) is now part of every harness and has its own vacuity witness ("appended at the end").
use super::support_reader::*;
use crate::infrastructure::qos_policy::DestinationOrderQosPolicyKind;
// alias: Kani's stub path resolver picks the derive macro `PartialEq` instead of the trait otherwise
use core::cmp::PartialEq as HandlePartialEq;

/// storage order is non-decreasing in the source timestamp (derived order of Option<Time>: None first)
fn sorted_pre(pre: &PreState) -> bool {
    pre.all_pairs(|a, b| a.ts <= b.ts)
}
fn sorted_post(post: &PostState) -> bool {
    post.all_pairs(|a, b| a.ts <= b.ts)
}
/// The property itself: samples of one instance that carry a source timestamp are stored in
/// non-decreasing source-timestamp order.
fn instance_order_post(post: &PostState) -> bool {
    post.all_pairs(|a, b| match (a.ts, b.ts) {
        (Some(x), Some(y)) => a.inst != b.inst || x <= y,
        _ => true,
    })
}

struct Run {
    res: StepResult,
    pre_n: usize,
    post: PostState,
    rep_ok_after: bool,
    history_ok: bool,
    limits_ok: bool,
    /// 1 + storage position of the new sample, 0 = not stored
    new_pos1: usize,
}

fn c21_run(st: &Structure, hist: Hist) -> Run {
    let cfg = any_cfg(hist, DestinationOrderQosPolicyKind::BySourceTimestamp, zero_separation());
    let (pre, c) = any_run(st, &cfg, TimeDomain::Small);
    kani::assume(sorted_pre(&pre));
    let mut r = build_reader(cfg.qos(), &pre);
    let res = step(&mut r, &c);
    let post = observe(&r);
    let rep_ok_after = rep_ok_real(&r);
    core::mem::forget(r);
    let p = post.position_of(NEW_TAG);
    Run {
        res,
        pre_n: pre.n,
        rep_ok_after,
        history_ok: cfg.history_inv_post(&post),
        limits_ok: cfg.limits_inv_post(&post),
        new_pos1: if p < MAX_POST { p + 1 } else { 0 },
        post,
    }
}

/// the order oracle (the two assertions the repaired defect KF-C21-1 violated)
fn assert_order(x: &Run) {
    assert!(
        instance_order_post(&x.post),
        "C21: samples of one instance are stored in non-decreasing source-timestamp order"
    );
    assert!(
        sorted_post(&x.post),
        "C21: the sample list stays sorted by source timestamp (inductive invariant of the insert position)"
    );
}

fn c21_check(st: &Structure, hist: Hist) -> Run {
    c21_contract(c21_run(st, hist))
}

fn c21_contract(x: Run) -> Run {
    assert_order(&x);
    if x.res == StepResult::Added {
        assert!(x.new_pos1 >= 1 && x.post.n >= x.pre_n, "C21: an accepted change is stored");
    } else {
        assert!(x.new_pos1 == 0, "C21: a change that is not accepted is not stored");
    }
    assert!(x.history_ok && x.limits_ok && x.rep_ok_after, "C21: history, resource-limit and representation invariants after the step");
    x
}

// ===== harnesses (one Kani proof per line of the table in the file header) =====

// @check props=C21 tier=quick
// @desc BY_SOURCE_TIMESTAMP, KEEP_ALL, cache with exactly 1 stored sample(s): after one real add_reader_change the samples of each instance that carry a source timestamp are in non-decreasing source-timestamp order, and the whole list is still sorted (the inductive invariant: the insert position is searched over all instances), for every relation between the incoming and the stored timestamps (newer than all, older than all, equal, between, None).
// @bounds exactly 1 stored sample(s), KEEP_ALL, BY_SOURCE_TIMESTAMP, 2 instance handles (both registered), 2 writers, each resource limit in {1,2,3,unlimited} (QoS consistent), all 5 change kinds, source timestamps None or sec 0..4 x nanosec {0, 5*10^8} (equal, older, newer and missing timestamps), instance_ownership empty; unwind 6
// @assume pre-state sorted by source timestamp and satisfying R1-R3, the KEEP_LAST and the resource-limit invariants (all re-asserted after the step)
// @assume DataReaderQos::is_consistent(); ownership SHARED; time-based filter off
// @assume <InstanceHandle as PartialEq>::eq replaced by the loop-free handle_eq_stub (equivalence: c18_handle_eq_stub_is_equivalent)
// @enc dcps::dcps_domain_participant::data_reader_entity::DataReaderEntity::add_reader_change
#[kani::proof]
#[kani::unwind(6)]
#[kani::solver(minisat)]
#[kani::stub(<crate::infrastructure::instance::InstanceHandle as HandlePartialEq<crate::infrastructure::instance::InstanceHandle>>::eq, super::support_reader::handle_eq_stub)]
fn c21_source_order_keep_all_n1() {
    let x = c21_check(&plain(1), Hist::KeepAll);
    kani::cover!(x.res == StepResult::Added && x.new_pos1 == 2 && x.post.n == 2, "the newest sample was appended at the end (former KF-C21-1 region)");
    kani::cover!(x.res == StepResult::Added && x.new_pos1 == 1 && x.post.n == 2, "an older sample was inserted in front of the stored one");
}

// @check props=C21 tier=quick
// @desc BY_SOURCE_TIMESTAMP, KEEP_ALL, cache with exactly 2 stored sample(s): after one real add_reader_change the samples of each instance that carry a source timestamp are in non-decreasing source-timestamp order, and the whole list is still sorted (the inductive invariant: the insert position is searched over all instances), for every relation between the incoming and the stored timestamps (newer than all, older than all, equal, between, None).
// @bounds exactly 2 stored sample(s), KEEP_ALL, BY_SOURCE_TIMESTAMP, 2 instance handles (both registered), 2 writers, each resource limit in {1,2,3,unlimited} (QoS consistent), all 5 change kinds, source timestamps None or sec 0..4 x nanosec {0, 5*10^8} (equal, older, newer and missing timestamps), instance_ownership empty; unwind 6
// @assume pre-state sorted by source timestamp and satisfying R1-R3, the KEEP_LAST and the resource-limit invariants (all re-asserted after the step)
// @assume DataReaderQos::is_consistent(); ownership SHARED; time-based filter off
// @assume <InstanceHandle as PartialEq>::eq replaced by the loop-free handle_eq_stub (equivalence: c18_handle_eq_stub_is_equivalent)
// @enc dcps::dcps_domain_participant::data_reader_entity::DataReaderEntity::add_reader_change
#[kani::proof]
#[kani::unwind(6)]
#[kani::solver(minisat)]
#[kani::stub(<crate::infrastructure::instance::InstanceHandle as HandlePartialEq<crate::infrastructure::instance::InstanceHandle>>::eq, super::support_reader::handle_eq_stub)]
fn c21_source_order_keep_all_n2() {
    let x = c21_check(&plain(2), Hist::KeepAll);
    kani::cover!(x.res == StepResult::Added && x.new_pos1 == 2 && x.post.n == 3, "insert in the middle");
    kani::cover!(x.res == StepResult::Added && x.new_pos1 == 3 && x.post.n == 3, "the newest sample was appended at the end (former KF-C21-1 region)");
    kani::cover!(x.res == StepResult::Added && x.new_pos1 == 1 && x.post.n == 3, "insert at the front (older than every stored sample)");
}

// @check props=C21 tier=thorough
// @desc BY_SOURCE_TIMESTAMP, KEEP_ALL, cache with exactly 0 stored sample(s): after one real add_reader_change the samples of each instance that carry a source timestamp are in non-decreasing source-timestamp order, and the whole list is still sorted (the inductive invariant: the insert position is searched over all instances), for every relation between the incoming and the stored timestamps (newer than all, older than all, equal, between, None).
// @bounds exactly 0 stored sample(s), KEEP_ALL, BY_SOURCE_TIMESTAMP, 2 instance handles (both registered), 2 writers, each resource limit in {1,2,3,unlimited} (QoS consistent), all 5 change kinds, source timestamps None or sec 0..4 x nanosec {0, 5*10^8} (equal, older, newer and missing timestamps), instance_ownership empty; unwind 6
// @assume pre-state sorted by source timestamp and satisfying R1-R3, the KEEP_LAST and the resource-limit invariants (all re-asserted after the step)
// @assume DataReaderQos::is_consistent(); ownership SHARED; time-based filter off
// @assume <InstanceHandle as PartialEq>::eq replaced by the loop-free handle_eq_stub (equivalence: c18_handle_eq_stub_is_equivalent)
// @enc dcps::dcps_domain_participant::data_reader_entity::DataReaderEntity::add_reader_change
#[kani::proof]
#[kani::unwind(6)]
#[kani::solver(minisat)]
#[kani::stub(<crate::infrastructure::instance::InstanceHandle as HandlePartialEq<crate::infrastructure::instance::InstanceHandle>>::eq, super::support_reader::handle_eq_stub)]
fn c21_source_order_keep_all_n0() {
    let x = c21_check(&plain(0), Hist::KeepAll);
    kani::cover!(x.res == StepResult::Added && x.new_pos1 == 1, "first sample stored");
}

// @check props=C21 tier=thorough
// @desc BY_SOURCE_TIMESTAMP, KEEP_ALL, cache with exactly 3 stored sample(s): after one real add_reader_change the samples of each instance that carry a source timestamp are in non-decreasing source-timestamp order, and the whole list is still sorted (the inductive invariant: the insert position is searched over all instances), for every relation between the incoming and the stored timestamps (newer than all, older than all, equal, between, None).
// @bounds exactly 3 stored sample(s), KEEP_ALL, BY_SOURCE_TIMESTAMP, 2 instance handles (both registered), 2 writers, each resource limit in {1,2,3,unlimited} (QoS consistent), all 5 change kinds, source timestamps None or sec 0..4 x nanosec {0, 5*10^8} (equal, older, newer and missing timestamps), instance_ownership empty; unwind 6
// @assume pre-state sorted by source timestamp and satisfying R1-R3, the KEEP_LAST and the resource-limit invariants (all re-asserted after the step)
// @assume DataReaderQos::is_consistent(); ownership SHARED; time-based filter off
// @assume <InstanceHandle as PartialEq>::eq replaced by the loop-free handle_eq_stub (equivalence: c18_handle_eq_stub_is_equivalent)
// @enc dcps::dcps_domain_participant::data_reader_entity::DataReaderEntity::add_reader_change
#[kani::proof]
#[kani::unwind(6)]
#[kani::solver(minisat)]
#[kani::stub(<crate::infrastructure::instance::InstanceHandle as HandlePartialEq<crate::infrastructure::instance::InstanceHandle>>::eq, super::support_reader::handle_eq_stub)]
fn c21_source_order_keep_all_n3() {
    let x = c21_check(&plain(3), Hist::KeepAll);
    kani::cover!(x.res == StepResult::Added && x.new_pos1 == 3 && x.post.n == 4, "insert before the last stored sample");
    kani::cover!(x.res == StepResult::Added && x.new_pos1 == 2 && x.post.n == 4, "insert after the first stored sample");
    kani::cover!(x.res == StepResult::Added && x.new_pos1 == 4 && x.post.n == 4, "the newest sample was appended at the end");
}

// @check props=C21 tier=thorough
// @desc BY_SOURCE_TIMESTAMP, KEEP_LAST(1..=3), cache with exactly 1 stored sample(s): after one real add_reader_change the samples of each instance that carry a source timestamp are in non-decreasing source-timestamp order, and the whole list is still sorted (the inductive invariant: the insert position is searched over all instances), for every relation between the incoming and the stored timestamps (newer than all, older than all, equal, between, None).
// @bounds exactly 1 stored sample(s), KEEP_LAST(1..=3), BY_SOURCE_TIMESTAMP, 2 instance handles (both registered), 2 writers, each resource limit in {1,2,3,unlimited} (QoS consistent), all 5 change kinds, source timestamps None or sec 0..4 x nanosec {0, 5*10^8} (equal, older, newer and missing timestamps), instance_ownership empty; unwind 6
// @assume pre-state sorted by source timestamp and satisfying R1-R3, the KEEP_LAST and the resource-limit invariants (all re-asserted after the step)
// @assume DataReaderQos::is_consistent(); ownership SHARED; time-based filter off
// @assume <InstanceHandle as PartialEq>::eq replaced by the loop-free handle_eq_stub (equivalence: c18_handle_eq_stub_is_equivalent)
// @enc dcps::dcps_domain_participant::data_reader_entity::DataReaderEntity::add_reader_change
#[kani::proof]
#[kani::unwind(6)]
#[kani::solver(minisat)]
#[kani::stub(<crate::infrastructure::instance::InstanceHandle as HandlePartialEq<crate::infrastructure::instance::InstanceHandle>>::eq, super::support_reader::handle_eq_stub)]
fn c21_source_order_keep_last_n1() {
    let x = c21_check(&plain(1), Hist::KeepLast);
    kani::cover!(x.res == StepResult::Added && x.post.n == 1, "KEEP_LAST replaced the only stored sample");
    kani::cover!(x.res == StepResult::Added && x.new_pos1 == 2 && x.post.n == 2, "the newest sample was appended at the end");
}

// @check props=C21 tier=thorough
// @desc BY_SOURCE_TIMESTAMP, KEEP_LAST(1..=3), cache with exactly 2 stored sample(s): after one real add_reader_change the samples of each instance that carry a source timestamp are in non-decreasing source-timestamp order, and the whole list is still sorted (the inductive invariant: the insert position is searched over all instances), for every relation between the incoming and the stored timestamps (newer than all, older than all, equal, between, None).
// @bounds exactly 2 stored sample(s), KEEP_LAST(1..=3), BY_SOURCE_TIMESTAMP, 2 instance handles (both registered), 2 writers, each resource limit in {1,2,3,unlimited} (QoS consistent), all 5 change kinds, source timestamps None or sec 0..4 x nanosec {0, 5*10^8} (equal, older, newer and missing timestamps), instance_ownership empty; unwind 6
// @assume pre-state sorted by source timestamp and satisfying R1-R3, the KEEP_LAST and the resource-limit invariants (all re-asserted after the step)
// @assume DataReaderQos::is_consistent(); ownership SHARED; time-based filter off
// @assume <InstanceHandle as PartialEq>::eq replaced by the loop-free handle_eq_stub (equivalence: c18_handle_eq_stub_is_equivalent)
// @enc dcps::dcps_domain_participant::data_reader_entity::DataReaderEntity::add_reader_change
#[kani::proof]
#[kani::unwind(6)]
#[kani::solver(minisat)]
#[kani::stub(<crate::infrastructure::instance::InstanceHandle as HandlePartialEq<crate::infrastructure::instance::InstanceHandle>>::eq, super::support_reader::handle_eq_stub)]
fn c21_source_order_keep_last_n2() {
    let x = c21_check(&plain(2), Hist::KeepLast);
    kani::cover!(x.res == StepResult::Added && x.new_pos1 == 2 && x.post.n == 3, "insert in the middle");
    kani::cover!(x.res == StepResult::Added && x.post.n == 2 && x.new_pos1 == 2, "eviction followed by an append at the end");
}
